#!/usr/bin/env python3
"""Regenerates MANIFEST.json from the table below (kept as code so it stays valid and consistent)."""
import json

CLAIMED = {
    # id: (design_ref, level text, level_note, technique)
    'C14': ('DESIGN.md 4 C14',
            'Deductive proof, for all schedules/segments/loop counts, that create_emsg_boxes returns exactly the scheduled '
            'events of the segment (contiguous ids, right times, v0 delta / v1 absolute); obligations generated from the '
            'real source text and discharged by z3/cvc5. Also: create_manifest_context lists exactly the schedule; create_binary_signal '
            'hands the scheduled event id / PTS / break duration to the encoder within the field widths; SCTE-35 encode then parse '
            'is the identity with a valid CRC-32 for SpliceTime, BreakDuration, SpliceInsert, the segmentation / time descriptor '
            'bodies and the whole splice_insert signal with one segmentation descriptor (section, command and descriptor-loop '
            'lengths back-patched correctly), over a bit trace; the emsg box itself (v0/v1, with and without payload) encodes and '
            'parses back identically for all integer field values.',
            'Trusted: the pyvc VC generator and its Python-semantics encoding; z3/cvc5; EventMessageBox constructor modelled '
            'as a record of its keyword arguments; payload generation abstract; BitsFieldWriter/Reader (repository helpers over '
            'bitstring) modelled by a bit trace; crccheck assumed to satisfy the CRC residue property. Known findings: 8-bit avail '
            'counters, 33-bit break duration. See evidence not_covered for the SCTE-35 structures outside the proved ones.',
            'contract-based deductive verification (AST->VC generator, z3 + cvc5), native replay of counter-models'),
    'C02': ('DESIGN.md 4 C02',
            'Deductive proof of the exact characterisation of Representation.get_segment_index (first segment in scan order '
            'whose midpoint reaches the timecode, loop origin a multiple of the reference duration) with loop invariants and '
            'termination, for all durations, timescales and loop counts; the same characterisation carried through '
            'calculate_segment_from_timecode / calculate_segment_number_and_time; generateSegmentTimeline (run-length '
            'list with ghost absolute indices): consecutive canonical segments with the drift-corrected last duration, '
            'gapless across any number of loops; lemmas: canonical contiguity, $Time$ exactness, served start '
            'within half a segment of the $Number$ time, source position = start modulo the reference duration, cross-track '
            'alignment under divisibility (drift otherwise: known finding); the handler MediaRequestBase.generate_media_segment, '
            'checked against the index function\'s contract at its call site: 404 exactly where the index refuses, otherwise the '
            'fragment the index names is loaded, mfhd.sequence_number is the requested / computed number and tfdt is the stored '
            '(or, when the file has none, prefix-sum synthesised) decode time plus the loop origin.',
            'Trusted: pyvc encoding; z3/cvc5. In the handler contract fragment loading / encoding, AdaptationSet, DashTiming '
            'construction and Flask are abstract; region: no Range header, no inband events, clear media.',
            'contract-based deductive verification (AST->VC generator, z3 + cvc5), native replay of counter-models'),
}

CLAIMED['C20'] = (
    'DESIGN.md 4 C20',
    'Deductive proof that the representation invariant wf (cached buckets are the right file slices, counters consistent, '
    'position inside the window) is established/preserved by cache, peek, read, readall, seek, tell and that each returns '
    'exactly the bytes/positions of the window view F[offset:offset+size]; induction over wf covers operation sequences of '
    'any length, any buffer size and cache limit.',
    'Trusted: pyvc encoding; library models FileModel / BytesIOModel / BufMap (dict with ghost cardinality). Explicit size only; '
    'constructor and call sites not under contract.',
    'contract-based deductive verification (AST->VC generator, z3 + cvc5), native replay of counter-models')

CLAIMED['C13'] = (
    'DESIGN.md 4 C13',
    'Deductive proof that get_http_range agrees with an RFC 7233 spec function for every header shape and all integers: '
    'ValueError (400) iff the header is present and not a single byte-range-spec, 206 with exactly [first, min(last, N-1)] / '
    'suffix clamp and matching Content-Range iff satisfiable, 416 with bytes */N otherwise, no other exception; '
    'OnDemandMedia.get (with the real get_http_range inlined) returns exactly blob[first..last] with that Content-Range and the '
    'Content-Type of the extension, an empty 416, or 400 when the header is absent or unusable; the media-segment handler hands the '
    'parser the full encoded length (also after video corruption moved the stream cursor) and serves a satisfiable range as exactly '
    'that window of the encoded segment; plus the consumer slicing lemma.',
    'Trusted: pyvc encoding; opaque-string model of the header (predicates the code observes; int() of a split("-") part is '
    'non-negative); Blob.open_file and flask.make_response abstract. generate_media_segment consumes the tuple under a lemma only.',
    'contract-based deductive verification (AST->VC generator, z3 + cvc5), native replay by source extraction')

CLAIMED['C19'] = (
    'DESIGN.md 4 C19',
    'Proof (all non-negative reals / all timedeltas): the text toIsoDuration builds denotes the input within half a '
    'millisecond with seconds and minutes fields below 60 (rounding carries); exact floor characterisations of '
    'timecode_to_timedelta, timedelta_to_timecode, multiply_timedelta, scale_timedelta; lemmas: round trip within one tick '
    '(timescale <= 10^6), microsecond loss below one tick, monotonicity. Bounded (labelled, not counted): date-time text '
    'round trip over all microsecond values, float-vs-real grids.',
    'Trusted: pyvc encoding; floats treated as exact reals in the proof (gap covered only by the bounded grid); formatting '
    'model pyvc/models/text.py. Known finding: round trip loses more than a tick above 1 MHz.',
    'contract-based deductive verification (AST->VC generator, z3 + cvc5) + bounded native enumeration for the regex/float text part')

CLAIMED['C01'] = (
    'DESIGN.md 4 C01',
    'Proof at the pure layer: exact contracts of calculate_first_and_last_segment_number, '
    'calculate_segment_number_and_time (availability test with the half-microsecond rounding of timedelta made explicit), '
    'calculate_segment_from_timecode and LiveMedia.calculate_media_segment_index (raises ValueError = 404 exactly outside the '
    'window / number range); generateSegmentTimeline (live) lists exactly the consecutive canonical segments starting at '
    'the segment get_segment_index finds for firstAvailableTime and covering the buffer depth; lemmas: every $Number$ '
    'whose 5.3.9.5.3 window contains now is accepted (region leeway >= 2 segment durations), every SegmentTimeline '
    'entry that has ended is accepted (region: uniform durations, start_number 0/1, leeway >= half a segment, stream '
    'older than its window); complements are known findings with native witnesses. ManifestContext.__init__ (single period, live) '
    'creates the period from a DashTiming built for the request instant itself (wall clock minus requested drift) - the instant the '
    'segment handler judges against; create_period hands the resolved availabilityStartTime / depth to the media URL parameters.',
    'Trusted: pyvc encoding; float as exact real in timescale_to_timedelta (bounded grid under C19). Both sides are assumed to '
    'be built from the same DashTiming (query-string forwarding is C07). Handler/template layer, init segments and the '
    '$Time$/SegmentTimeline half: see evidence not_covered.',
    'contract-based deductive verification (AST->VC generator, z3 + cvc5), native replay (source extraction for handler methods)')
CLAIMED['C06'] = (
    'DESIGN.md 4 C06 / 0a',
    'Proof: Representation.load (indexing) for every atom list made of ftyp, moov, moof, mdat, sidx, free: segment 0 starts at the '
    'first box, every media segment starts on its moof and ends where the next begins (the segments tile the file exactly), '
    'durations are the fragments\' sample-duration sums, start number / first decode time are those of the first fragment, '
    'mediaDuration is their total, segment_duration the mean distance of fragment starts (>= 1), ZeroDivisionError iff that or '
    'the total is zero; VOD first/last numbers (sn, sn+n-1); VOD number/time -> stored segment map and the 404 (ValueError) '
    'exactly outside sn..sn+n-1 in LiveMedia.calculate_media_segment_index (vod); generateSegmentList returns init = segment 0 and '
    'media[k] = [pos(k+1), pos(k+1)+size(k+1)-1] for all n segments; the VOD SegmentTimeline lists consecutive stored segments '
    'from (0, segment 1) up to the reference duration; calculate_vod_params / DashTiming.__init__[vod]: static duration = '
    'reference duration; OnDemandMedia.get returns exactly bytes first..last of the blob with 206, 416 with an empty body, '
    '400 without a usable Range header.',
    'Trusted: pyvc encoding; Mp4Atom.load (producer of the atom list), Representation.__init__ / process_moov, Blob.open_file and '
    'flask.make_response are abstract (stated assumptions); sample loops summarised by their sum. Known findings: timeline length '
    'when track and reference differ, single-fragment files (mediaDuration 0), top-level boxes other than the six listed. '
    'Templates not covered.',
    'contract-based deductive verification (AST->VC generator, z3 + cvc5), native replay of counter-models')

CLAIMED['C08'] = (
    'DESIGN.md 4 C08',
    'Deductive proof, per start mode (epoch/today/month/year/now/explicit) and for all clocks, depths, update periods and '
    'reference timing, of every inequality of the statement as postconditions of DashTiming.calculate_live_params, with the '
    'exact values of availabilityStartTime, timeShiftBufferDepth, firstAvailableTime and publishTime; two-state lemmas: '
    'availabilityStartTime and publishTime never move backward, symbolic starts are one instant within a UTC day after its '
    'first minute, now follows the clock at 60 s, publishTime = start + k periods and lags by less than a period.',
    'Trusted: pyvc datetime/timedelta model (UTC instants as integer microseconds), calendar axioms (validated natively '
    '1970-2100, bounded), floats as exact reals, round() as nearest. Explicit start restricted to whole seconds (known finding). '
    'Option parsing (ast_from_string) not covered.',
    'contract-based deductive verification (AST->VC generator, z3 + cvc5), native replay of counter-models')

CLAIMED['C09'] = (
    'DESIGN.md 4 C09',
    'Manifest half only. Two-state lemmas over the proved contracts: a start time determines the canonical segment and its '
    'duration (two manifests agree on every segment they both list); get_segment_index and timedelta_to_timecode are monotone '
    '(the listed window only moves forward); availabilityStartTime and publishTime never move backward; together with the '
    'live timeline and calculate_live_params contracts these are re-discharged from the current source on every run. Handlers: '
    'ServeManifest.get (400 mapping, patch only in live mode and only with a SegmentTimeline feature, SegmentTimeline flag, '
    'synthetic error passthrough, cache lifetime = floor(minimumUpdatePeriod)) and ServePatch.get (400 unless the manifest has the '
    'patch and SegmentTimeline features and allows live mode; options parsed for live, patch and SegmentTimeline forced on, the '
    'original publish time is the requested epoch second; the patch template is rendered from the ManifestContext exactly as built). '
    'ManifestContext.__init__ (single period, live): the period is created from a DashTiming for the request instant (clock minus drift); '
    'the patch location names that timing\'s publishTime in whole seconds, ttl = max(timeShiftBufferDepth, ceil(minimumUpdatePeriod)). '
    'xmlSafe returns Markup (PatchLocation is escaped exactly once in the auto-escaped patch template).',
    'Trusted: as C02/C08. The XML of the patch document (replace operations, their selectors) is template level and not covered; applying a patch '
    'to a document is not modelled.',
    'contract-based deductive verification: lemmas over function contracts (z3 + cvc5)')
CLAIMED['C16'] = (
    'DESIGN.md 4 C16',
    'Reduced scope: for every function under contract (event boxes, buffered reader, byte ranges, live/vod segment index, '
    'timeline, live timing) the exception-freedom obligations (no exception other than the declared ValueError that handlers '
    'map to 4xx: division, index, None, assert, unpack, key errors) and the termination obligations (loop variants) are '
    'discharged for all inputs satisfying the stated preconditions; preconditions no caller establishes are known findings. '
    'Synthetic errors: the per-session failure counter, check_for_synthetic_http_error / _manifest_error and '
    'calculate_injected_error_segments are proved to fire exactly for the addressed segment / update / time window with the asked '
    'code, failureCount times, then serve once and clear the counter; the media handlers map index refusals to 404. Box headers: '
    'Mp4Atom.parse ends the scan (None) on a truncated 64-bit size, a zero 64-bit size or a non-ASCII type instead of raising or looping. '
    'UTC timing method: the option parser raises ValueError (400) for every name outside the set TimeSourceContext handles, and the '
    'context does not raise for any name of that set (the set is read from the source on every run). Lookup decorators (uses_stream, '
    'uses_media_file, uses_manifest, uses_multi_period_stream): the handler body runs exactly when the object the URL names exists (and the '
    'manifest supports the mode) and then finds it in flask.g; everything else is 404 / 400 without entering the body. Bounded '
    '(labelled): DRM option names are refused or accepted without assertion.',
    'Trusted: pyvc encoding. Router, uploads, corrupt MP4 payloads beyond the box header, and the Flask handlers not named above are not covered; '
    'the event option ranges (interval >= 1, timescale >= 1, ...) are checked where the options are parsed (contract + lemma); values stored as stream defaults bypass that parser.',
    'contract-based deductive verification: safety and termination obligations of the functions under contract')

CLAIMED['C12'] = (
    'DESIGN.md 4 C12',
    'Reduced scope. Proof: ServeMpsMedia.calculate_media_segment_index delivers source segment Mof(T0) + (n - startNumber) '
    'for number n (T0 = the Period source offset in the track timescale), raises ValueError (404) exactly for a number below '
    'startNumber or beyond the end of the media, origin time = minus the start of the segment nearest the offset; create_all_vod_periods lists all '
    'period definitions contiguously from 0 with sum = total; create_all_live_periods lists consecutive repetitions '
    'contiguously, covering [firstAvailableTime, elapsedTime], with (definition, loop) pairs - hence ids - pairwise distinct, '
    'and terminates; lemma: served decode times start at minus the loop origin and are gapless; the media handler with a '
    'ServeMpsMedia index ($Number$ requests) serves the fragment, number and decode time that contract names.',
    'Trusted: pyvc encoding; create_period / DashTiming / total_duration abstract (durations >= 1 us, total = their sum); '
    'floats as exact rationals. Every $Time$-addressed period '
    'request fails an assertion (known finding). The lookup decorator uses_multi_period_stream (404 for an unknown name) is proved; payload identity, routing '
    'and templates not covered.',
    'contract-based deductive verification (AST->VC generator, z3 + cvc5), native replay by source extraction')

CLAIMED['C11'] = (
    'DESIGN.md 4 C11',
    'Reduced scope. Proof for all 16-byte key ids and all seed bytes: hex_to_le_guid is RFC 4122 bytes_le (raw and textual '
    'form), generate_content_key equals the published PlayReady key-seed algorithm (SHA-256 as an uninterpreted function of '
    'its input bytes, seed truncated to 30 bytes, length checks raise ValueError), generate_checksum is the first 8 bytes of '
    'AES-ECB(key, bytes_le(kid)); generate_wrmheader hands the template the default key id (bytes_le), default key, its checksum, '
    'the per-key list (kid, checksum, algorithm) and the template of the header version; generate_pro frames the header as one '
    'type-1 record whose length fields parse_pro reads back exactly (object length = header + 10); the pssh box (system id, version-1 key-id list, data) encodes and parses back identically '
    'for 0-3 key ids with and without data. ClearKey: base64url_encode / base64url_decode equal RFC 4648 section 5 without padding bit for bit '
    '(16-, 1-, 2-, 3-byte inputs; decode of encode is the identity), and ClearkeyHandler.post (0, 1 or 2 requested 16-byte ids, a store of two keys) '
    'lists a stored key exactly when a requested id spells its key id, at most once, with its own key, and lists nothing else. xmlSafe returns '
    'Markup, so a licence URL is escaped exactly once in the auto-escaped WRMHEADER / ClearKey templates.',
    'Trusted: byte-string model (bit-vector lists), SHA-256 / AES-ECB uninterpreted; byte trace for the pssh box; base64.b64encode / b64decode as '
    'RFC 4648 over 6-bit groups; Key.get_kids (database query) assumed. Not covered: WRMHEADER XML text and its '
    're-parse, ClearKey requests with malformed ids or more than two ids, ContentProtection elements (see evidence not_covered).',
    'contract-based deductive verification (symbolic execution over fixed-length byte lists, z3), native replay')

CLAIMED['C10'] = (
    'DESIGN.md 0a (C10)',
    'Reduced scope. Proof for every combination of selected systems and hooks: the init-segment handler appends exactly one pssh box '
    'to moov per DRM context that carries a moov hook, in the order the contexts are yielded, each built by that hook for the '
    'representation\'s default KID; a clear track gets none; mehd is removed exactly in live mode (if present); an unindexed file is '
    '404. PlayReady / ClearKey / Marlin.generate_manifest_context create the moov / cenc / pro hooks exactly for the requested '
    'locations (Marlin none; PlayReady cenc only above version 1.0). PlayReady.generate_pssh: RAW_SYSTEM_ID, version 0 without key '
    'ids for fewer than two keys, version 1 with every key id otherwise, payload = the PRO; ClearKey.generate_pssh: common system '
    'id, version 1, every key id, no payload. The pssh box encodes and parses back identically (group mp4). DrmContext: for seven '
    'selections (none, each system, pairs, all three) the constructor builds one context per selected system through that system\'s own '
    'class, with its own locations, option group and <name>_la_url parameter, and iteration yields them in name order, first to last.',
    'Trusted / not covered: byte identity of the untouched boxes (rests on Mp4Atom.encode re-emitting unmodified boxes), size '
    'propagation of append / remove, parsing of the drm option text into the selection (C16 bounded), load_fragment, the PRO '
    'bytes (C11). The statement\'s byte-level diff of a whole response is NOT decided - only these ingredients are.',
    'contract-based deductive verification (AST->VC generator, z3 + cvc5), native replay (source extraction for the handler)')

CLAIMED['C15'] = (
    'DESIGN.md 0a (C15)',
    'Reduced scope. Proof: the handler body wrapped by login_required / jwt_login_required runs exactly when the user is '
    'authenticated, has the admin flag when admin is asked for and the permission group when one is asked for (all four '
    'combinations each), otherwise a 401 / login response is returned and the body is not entered; csrf_token_required runs the body '
    'exactly when a token was found (JSON body, query, form - in that order) and CsrfProtection.check accepted it (or none was '
    'found and the token is optional). CsrfProtection.check accepts a token exactly when the cookie is present and non-empty, the '
    'token has not been used, is unmodified and was issued for this cookie and service (and origin in strict mode) - and every '
    'fresh token that reaches the store is recorded as used, accepted or not (at most once). Guard table, regenerated from the source on every run: each of 20 state-changing handler '
    'methods named in the property\'s anchors carries the guard the documentation assigns (media group for streams, media, keys; '
    'admin / logged-in JWT user for user management).',
    'Trusted / not covered: Flask MethodView applying `decorators`, flask_login / flask_jwt_extended user objects, the handler bodies '
    '("state unchanged" is reduced to "body not entered"), HMAC as an injective unforgeable function, the issuing side '
    '(generate_token) and token pruning. '
    'Known findings: multi_period_streams.EditStream.post / delete admit every logged-in user. The guard table is a syntactic '
    'obligation (decidable by reading the decorator lists), not an SMT proof.',
    'contract-based deductive verification of the decorator closures (AST->VC generator, z3) + source-derived guard lemmas')

CLAIMED['C05'] = (
    'DESIGN.md 0a (C05)',
    'Reduced scope: the first sentence of the statement only (stored or requested strings can never add, remove or break elements). '
    'Proof: xmlSafe escapes & < > \" (ampersand first, so its own entities are not escaped again), maps None to the empty string '
    'and accepts non-strings - every character class, an entity-like text and a mixed text are discharged, which covers all inputs '
    'because str.replace with a one-character pattern acts per character. Template table, regenerated from the template files on '
    'every run: every interpolation of the .mpd manifests (rendered without autoescape) passes through a filter that '
    'produces XML-safe text or is an integer / server-generated token / XML fragment serialised by the server itself; in the *.xml '
    'fragments (auto-escaped by Flask) nothing is switched off with |safe except two listed fragments, and xmlSafe returns Markup so it is '
    'not escaped twice there; element-name positions are flagged whatever the escaping. BOUNDED stand-in (not counted as proved): every XML '
    'template rendered by the real Jinja with each `if` forced (all true / all false / every single flip), loops of 2 and 1 items and '
    'placeholder values must parse as XML (whitespace-control and tag-balance slips).',
    'Trusted / not covered: Jinja semantics (which templates are auto-escaped, filters applied as functions), the classification of NUMERIC / FIXED '
    'expressions in contracts/xml_scan.py (read from the code, not proved), the formatting filters\' alphabets (ISO text: C19). NOT '
    'covered: the structural MPD rules (required attributes, lexical validity, unique ids, non-empty AdaptationSets, URL template '
    'identifiers). The one element-name interpolation (a PlayReady custom attribute\'s tag) is accepted because custom attributes have no request or storage path (a lemma re-derived from the source). The template table is a syntactic obligation.',
    'contract-based deductive verification of the escaping filter + source-derived template lemmas')

CLAIMED['C04'] = (
    'DESIGN.md 4 C04 / 0a',
    'Reduced scope. Proof, per box class (mfhd, mehd, trex, tfdt, tfhd with all 2^5 optional-field combinations, trun header and trun '
    'with a two-entry sample table under all 64 flag combinations (defaults from tfhd, first-sample flags, cumulative offsets), sidx '
    'with 0-2 bit-packed references, '
    'tenc, mdhd incl. 1904-epoch dates and packed language, emsg v0/v1 with/without payload, pssh with 0-3 key ids, btrt, pasp, saiz with '
    'and without aux type, default size or a 0/1/3-entry size table) '
    'and for all field values legal for the version/flags: every value written fits its field, parsing the produced bytes '
    'returns exactly the written version, flags and fields and consumes them exactly, the encoded size is the specified one; '
    'TrackFragmentDecodeTimeBox switches to the 64-bit form exactly when the value needs it. The repository\'s FieldWriter / '
    'FieldReader are analysed as real code inside every one of these. JSON: only the aux_info_type of saiz / saio (written as hex text by '
    '_to_json, read back as the same number by the constructor).',
    'Trusted: byte-trace model of the stream and of struct.pack/unpack (stdlib); box header skipped via initial_data; strings in '
    'emsg/mdhd are fixed representative texts (their codec runs concretely). Everything else in the statement (sample tables and '
    'other list-bearing boxes, sample entries, descriptors, headers, lazy mode, JSON, tree edits) is not covered - see evidence not_covered.',
    'contract-based deductive verification (encode-then-parse symbolic execution over a byte trace, z3), native replay')

CLAIMED['C03'] = (
    'DESIGN.md 4 C03',
    'Reduced scope. Mp4Atom.encode (two-pass encode): the box is written at the stream position it records, its size is header + '
    'fields + the sizes of its children, the size field is back-patched with exactly that value, children follow each other without '
    'gaps, the stream ends after the box and what was in the stream before is untouched (children by the same contract: induction '
    'over the tree). The two post-encode offset equations, for all positions/sizes/flags: after '
    'TrackFragmentRunBox.post_encode the data-offset flag is set and base_data_offset + data_offset = moof.position + '
    'moof.size + mdat.header_size (the first payload byte), other flags unchanged; after '
    'SampleAuxiliaryInformationOffsetsBox.post_encode the single offset is senc.position + first sample offset - base data '
    'offset (moof position when the tfhd has none), unless the saio bug-compatibility option is set, in which case it is '
    'left as it was; in the handler, tfhd.base_data_offset is cleared (to be recomputed) exactly when an emsg box goes in front '
    'of the moof or the DRM hook modified the traf, saio.offsets exactly when the traf was modified, emsg boxes sit directly '
    'before the moof.',
    'Trusted: pyvc encoding; the box tree navigation (find_atom / find_peer / find_child) and the re-encode calls are abstract; '
    'region: base data offset not behind the payload (the code asserts). Payload byte identity, size nesting, sample-size sums, '
    'PIFF / emsg insertion and the handler composition are not covered.',
    'contract-based deductive verification (AST->VC generator, z3 + cvc5), native replay')

NOT_APPLICABLE = {
    'C07': 'Identity of string transducers (quote_plus, regex date parsing, split) over a registry built with getattr; SMT string solvers leave these undecided; a proof over only int/bool options would not decide the property.',
    'C17': 'Histories of ORM operations and cascades; needs a model of SQLAlchemy, which would be proving a model, not the code.',
    'C18': 'Whole-system differential property of the validator over generated streams.',
}
PENDING = {k: 'contracts not yet built in this revision (see DESIGN.md build order)'
           for k in ()}


def main():
    checks = []
    for pid, (ref, text, note, tech) in sorted(CLAIMED.items()):
        checks.append({
            'property_id': pid,
            'quick_cmd': f'./check {pid} --tier quick',
            'thorough_cmd': f'./check {pid} --tier thorough',
            'evidence_file': f'/verif/evidence/{pid}.json',
            'replay_cmd_template': './check --replay {path}',
            'engine': 'pyvc',
            'level_claimed': {'category': 'proof', 'text': text, 'design_ref': ref},
            'level_note': note,
            'technique': tech,
        })
    na = dict(NOT_APPLICABLE)
    for k, v in PENDING.items():
        if k not in CLAIMED:
            na[k] = v
    m = {
        'version': 1,
        'setup_cmd': 'python3-vt -m pyvc.selftest',
        'hooks': {'guard': 'DASHLIVE_VERIF', 'enable': 'none needed: contracts are sidecars under /verif/contracts; /repo is read as text',
                  'baseline_off_cmd': 'cd /repo && /venv/bin/python -m pytest -ra -q -p no:cacheprovider --timeout=900 --continue-on-collection-errors',
                  'source_commits': [], 'add_only': True},
        'engines': [{'name': 'pyvc', 'path': '/verif/pyvc', 'serves_properties': sorted(CLAIMED),
                     'kind_free_text': 'VC generator over the Python AST of the real functions + sidecar contracts; z3 5.1 / cvc5 1.0.3 back ends; native replay harness under /venv/bin/python'}],
        'checks': checks,
        'not_applicable': [{'property_id': k, 'reason': v} for k, v in sorted(na.items())],
        'notes': 'Exit codes: 0 held, 1 violation (VIOLATION line), 3 checker error (UNDECIDED line). Genuine defects: known_findings.json.',
    }
    json.dump(m, open('MANIFEST.json', 'w'), indent=1)


if __name__ == '__main__':
    main()
