#!/usr/bin/env python3
"""As-built census: every function under contract, from the evidence files (run the quick checks first)."""
import glob
import json
import collections

rows = collections.OrderedDict()
for f in sorted(glob.glob('/verif/evidence/*.json')):
    d = json.load(open(f))
    for fn in d['coverage']['functions']:
        key = fn['function']
        r = rows.setdefault(key, {'props': set(), 'variants': set(), 'lines': fn['lines'], 'obl': 0})
        r['props'].add(d['property_id'])
        r['variants'].add(fn['variant'] or '-')
        r['obl'] = max(r['obl'], fn['obligations'])
print('| function | lines | variants | checked under |')
print('|----------|-------|----------|---------------|')
for key, r in rows.items():
    f, q = key.split(':')
    v = len(r['variants'])
    print(f"| `{q}` ({f.replace('dashlive/', '')}) | {r['lines'][0]}-{r['lines'][1]} | {v} | {' '.join(sorted(r['props']))} |")
print(f'\n{len(rows)} functions, {sum(len(r["variants"]) for r in rows.values())} contract variants.')
