#!/usr/bin/env python3
"""Mutation run (development / thorough evidence): apply hand-picked property-breaking edits to a scratch
copy of /repo's python package, run a check with --repo=<scratch>, report killed/survived.
Never affects an exit code of a registered check.  usage: tools_mutants.py <PROP> [name-substr]"""
import json
import os
import shutil
import subprocess
import sys
import tempfile

MUTANTS = {
    'C16': [
        ('inj-int-pos', 'dashlive/server/requesthandler/manifest_context.py', "                drop_seg = pos\n", "                drop_seg = int(pos, 10)\n"),
        ('inj-no-skip', 'dashlive/server/requesthandler/manifest_context.py', "                if tm < earliest_available:\n                    continue\n", ""),
        ('inj-scale-args', 'dashlive/server/requesthandler/manifest_context.py', "                    drop_delta, representation.timescale,\n                    representation.segment_duration))", "                    drop_delta, representation.segment_duration,\n                    representation.timescale))"),
        ('inj-delta-now', 'dashlive/server/requesthandler/manifest_context.py', "                drop_delta = tm - availabilityStartTime", "                drop_delta = tm - earliest_available"),
        ('merr-window', 'dashlive/server/requesthandler/manifest_requests.py', "if context['mpd'].now < tm or context['mpd'].now > tm2:", "if context['mpd'].now < tm or context['mpd'].now >= tm2:"),
        ('merr-update', 'dashlive/server/requesthandler/manifest_requests.py', "                if pos != options.updateCount:\n                    continue", "                if pos > options.updateCount:\n                    continue"),
        ('merr-count', 'dashlive/server/requesthandler/manifest_requests.py', "self.increment_error_counter('manifest', code) > options.failureCount", "self.increment_error_counter('manifest', code) > options.failureCount + 1"),
        ('lget-enc', 'dashlive/server/requesthandler/media_requests.py', "        if representation.encrypted and not options.encrypted:\n            logging.warning('Request for an encrypted stream, when drmSelection is empty')\n            return flask.make_response(\n                'Request for an encrypted stream, when drmSelection is empty', 404)\n        options.update(segmentTimeline=(segment_time is not None))\n        mf = current_media_file", "        options.update(segmentTimeline=(segment_time is not None))\n        mf = current_media_file"),
        ('lget-badnum-500', 'dashlive/server/requesthandler/media_requests.py', "            logging.warning('Invalid segment number: %s', err)\n            return flask.make_response('Invalid segment number', 404)", "            logging.warning('Invalid segment number: %s', err)\n            raise"),
        ('sm-patch-static', 'dashlive/server/requesthandler/manifest_requests.py', "        if mode != 'live':\n            # Patch elements are ignored if MPD@type == 'static'\n            options.update(patch=False)\n", ""),
        ('sm-timeline-forced', 'dashlive/server/requesthandler/manifest_requests.py', "        elif mft.segment_timeline or options.patch:\n            options.update(segmentTimeline=True)", "        elif mft.segment_timeline and options.patch:\n            options.update(segmentTimeline=True)"),
        ('sm-maxage-ceil', 'dashlive/server/requesthandler/manifest_requests.py', "            max_age = int(math.floor(context[\"minimumUpdatePeriod\"]))\n        except KeyError:\n            max_age = 60\n        headers = {\n            'Content-Type': 'application/dash+xml',", "            max_age = int(math.ceil(context[\"minimumUpdatePeriod\"]))\n        except KeyError:\n            max_age = 60\n        headers = {\n            'Content-Type': 'application/dash+xml',"),
        ('sm-bad-options-500', 'dashlive/server/requesthandler/manifest_requests.py', "            logging.info('Invalid CGI parameters: %s', e)\n            return flask.make_response('Invalid CGI parameters', 400)\n        if mode != 'live':", "            logging.info('Invalid CGI parameters: %s', e)\n            raise\n        if mode != 'live':"),
        ('sp-no-feature-check', 'dashlive/server/requesthandler/manifest_requests.py', "        if 'patch' not in mft.features:", "        if False:"),
        ('sp-vod-options', 'dashlive/server/requesthandler/manifest_requests.py', "                mode='live', args=flask.request.args, stream=current_stream,\n                restrictions=mft.restrictions,", "                mode='vod', args=flask.request.args, stream=current_stream,\n                restrictions=mft.restrictions,"),
        ('sp-timeline-off', 'dashlive/server/requesthandler/manifest_requests.py', "        options.update(patch=True, segmentTimeline=True)", "        options.update(patch=True)"),
        ('sp-publish-ms', 'dashlive/server/requesthandler/manifest_requests.py', "        original_publish_time = datetime.datetime.fromtimestamp(\n            publish, tz=UTC())", "        original_publish_time = datetime.datetime.fromtimestamp(\n            publish // 1000, tz=UTC())"),
        ('err-counter-none', 'dashlive/server/requesthandler/base.py', "value = (flask.session.get(key) or 0) + 1", "value = flask.session.get(key, 0) + 1"),
        ('err-count-ge', 'dashlive/server/requesthandler/media_requests.py', "self.increment_error_counter(content_type, code) > options.failureCount", "self.increment_error_counter(content_type, code) >= options.failureCount"),
        ('err-pos-eq', 'dashlive/server/requesthandler/media_requests.py', "            if pos != seg_num:\n                continue\n            if (", "            if pos == seg_num:\n                continue\n            if ("),
        ('err-no-reset', 'dashlive/server/requesthandler/media_requests.py', "                self.reset_error_counter(content_type, code)\n                continue", "                continue"),
        ('err-lists', 'dashlive/server/requesthandler/media_requests.py', "        if content_type == 'audio':\n            errs = options.audioErrors", "        if content_type == 'video':\n            errs = options.audioErrors"),
        ('err-count-4xx', 'dashlive/server/requesthandler/media_requests.py', "                    code >= 500 and\n                    options.failureCount is not None and\n                    self.increment", "                    code >= 400 and\n                    options.failureCount is not None and\n                    self.increment"),
    ],
    'C10': [
        ('init-mehd-under-moov', 'dashlive/server/requesthandler/media_requests.py', "                del atom.moov.mvex.mehd\n", "                del atom.moov.mehd\n"),
        ('init-mehd-vod', 'dashlive/server/requesthandler/media_requests.py', "        if mode == 'live':\n            try:\n                # remove the mehd box", "        if mode != 'live':\n            try:\n                # remove the mehd box"),
        ('init-clear-pssh', 'dashlive/server/requesthandler/media_requests.py', "        atom = self.load_fragment(media, 0, options)\n        if representation.encrypted:", "        atom = self.load_fragment(media, 0, options)\n        if representation.kids:"),
        ('init-first-drm-only', 'dashlive/server/requesthandler/media_requests.py', "                    pssh = drm.moov(representation.default_kid)\n                    atom.moov.append_child(pssh)", "                    pssh = drm.moov(representation.default_kid)\n                    atom.moov.append_child(pssh)\n                    break"),
        ('init-wrong-kid', 'dashlive/server/requesthandler/media_requests.py', "                    pssh = drm.moov(representation.default_kid)", "                    pssh = drm.moov(representation.kids[0])"),
        ('pr-moov-loc', 'dashlive/drm/playready.py', "        if DrmLocation.MOOV in locations:\n            moov = generate_pssh_box", "        if DrmLocation.CENC in locations:\n            moov = generate_pssh_box"),
        ('pr-cenc-piff', 'dashlive/drm/playready.py', "        if DrmLocation.CENC in locations and version > 1.0:", "        if DrmLocation.CENC in locations and version >= 1.0:"),
        ('ck-moov-loc', 'dashlive/drm/clearkey.py', "        if DrmLocation.MOOV in locations:\n            moov = generate_pssh_box", "        if DrmLocation.CENC in locations:\n            moov = generate_pssh_box"),
        ('pr-pssh-single', 'dashlive/drm/playready.py', "        if len(keys) < 2:\n            return mp4.ContentProtectionSpecificBox(", "        if len(keys) < 4:\n            return mp4.ContentProtectionSpecificBox("),
        ('ck-pssh-v0', 'dashlive/drm/clearkey.py', "            version=1,\n            flags=0,\n            system_id=self.RAW_PSSH_SYSTEM_ID,", "            version=0,\n            flags=0,\n            system_id=self.RAW_PSSH_SYSTEM_ID,"),
        ('ck-pssh-data', 'dashlive/drm/clearkey.py', "            key_ids=keys,\n            data=None)", "            key_ids=keys,\n            data=b'')"),
    ],
    'C15': [
        ('csrf-reuse-ok', 'dashlive/server/requesthandler/csrf.py', "        if existing_key is not None:\n            raise CsrfFailureException(\"Re-use of csrf_token\")\n", ""),
        ('csrf-no-service', 'dashlive/server/requesthandler/csrf.py', "            hashlib.sha1)\n        sig.update(bytes(service, 'utf-8'))\n        if strict_origin:\n            sig.update(bytes(origin, 'utf-8'))\n        # logging.debug(\"check_csrf Referer", "            hashlib.sha1)\n        if strict_origin:\n            sig.update(bytes(origin, 'utf-8'))\n        # logging.debug(\"check_csrf Referer"),
        ('csrf-inverted', 'dashlive/server/requesthandler/csrf.py', "        if token != b64_sig:", "        if token == b64_sig:"),
        ('csrf-not-recorded', 'dashlive/server/requesthandler/csrf.py', "        db.session.add(existing_key)\n        db.session.commit()\n", "        db.session.commit()\n"),
        ('csrf-empty-cookie', 'dashlive/server/requesthandler/csrf.py', "        if not csrf_key:\n            logging.debug(\"csrf deserialize failed\")", "        if csrf_key is None:\n            logging.debug(\"csrf deserialize failed\")"),
        ('csrf-origin-always-off', 'dashlive/server/requesthandler/csrf.py', "        sig.update(bytes(service, 'utf-8'))\n        if strict_origin:\n            sig.update(bytes(origin, 'utf-8'))\n        # logging.debug(\"check_csrf Referer", "        sig.update(bytes(service, 'utf-8'))\n        # logging.debug(\"check_csrf Referer"),
        ('auth-admin-inverted', 'dashlive/server/requesthandler/decorators.py', "            if admin and not current_user.is_admin:", "            if admin and current_user.is_admin:"),
        ('auth-perm-dropped', 'dashlive/server/requesthandler/decorators.py', "            if permission and not current_user.has_permission(permission):\n                return needs_login_response(admin=admin, html=html, permission=permission)\n", ""),
        ('auth-jwt-anon', 'dashlive/server/requesthandler/decorators.py', "            if not jwt_current_user.is_authenticated:\n                return jsonify_no_content(401)\n", ""),
        ('auth-csrf-optional', 'dashlive/server/requesthandler/decorators.py', "                if token is None and optional:\n                    return func(*args, **kwargs)", "                if token is None:\n                    return func(*args, **kwargs)"),
        ('auth-csrf-swallow', 'dashlive/server/requesthandler/decorators.py', "                CsrfProtection.check(service, token)\n            except (ValueError, CsrfFailureException) as err:", "                CsrfProtection.check(service, token)\n            except (ValueError,) as err:"),
        ('guard-stream-delete', 'dashlive/server/requesthandler/streams.py', "    @login_required(permission=models.Group.MEDIA)\n    def delete(", "    def delete("),
        ('guard-defaults-post', 'dashlive/server/requesthandler/streams.py', "    @login_required(permission=models.Group.MEDIA)\n    def post(self, spk: int) -> flask.Response:\n        try:\n            self.check_csrf('streams', flask.request.form)", "    def post(self, spk: int) -> flask.Response:\n        try:\n            self.check_csrf('streams', flask.request.form)"),
        ('guard-keys-class', 'dashlive/server/requesthandler/keypairs.py', "    decorators = [login_required(permission=models.Group.MEDIA)]", "    decorators = []"),
        ('guard-keys-admin-only', 'dashlive/server/requesthandler/keypairs.py', "    decorators = [login_required(permission=models.Group.MEDIA)]", "    decorators = [login_required()]"),
    ],
    'C05': [
        ('xs-amp-last', 'dashlive/server/template_tags.py', "    return (value.replace('&', '&amp;').replace('<', '&lt;')\n            .replace('>', '&gt;').replace('\"', '&quot;'))", "    return (value.replace('<', '&lt;')\n            .replace('>', '&gt;').replace('\"', '&quot;').replace('&', '&amp;'))"),
        ('xs-no-quot', 'dashlive/server/template_tags.py', ".replace('>', '&gt;').replace('\"', '&quot;'))", ".replace('>', '&gt;'))"),
        ('xs-only-amp', 'dashlive/server/template_tags.py', "    return (value.replace('&', '&amp;').replace('<', '&lt;')\n            .replace('>', '&gt;').replace('\"', '&quot;'))", "    return value.replace('&', '&amp;')"),
        ('tpl-title-raw', 'templates/manifests/manifest_b.mpd', "<Title>{{title|xmlSafe}}</Title>", "<Title>{{title}}</Title>"),
        ('tpl-laurl-raw', 'templates/drm/clearkey.xml', "{{DRM.clearkey.laurl|xmlSafe}}", "{{DRM.clearkey.laurl}}"),
        ('tpl-new-field', 'templates/manifests/manifest_b.mpd', "<ProgramInformation>", "<ProgramInformation moreInformationURL=\"{{mpd.infoURL}}\">"),
    ],
    'C20': [
        ('seek-no-upper-clamp', 'dashlive/utils/buffered_reader.py', '            self.pos = min(self.pos, self.size)\n', '            pass\n'),
        ('seek-end-sign', 'dashlive/utils/buffered_reader.py', '            self.pos = self.size + offset\n', '            self.pos = self.size - offset\n'),
        ('peek-offset', 'dashlive/utils/buffered_reader.py', '        offset = self.pos - bucket\n', '        offset = 0\n'),
        ('peek-sz', 'dashlive/utils/buffered_reader.py', '            todo -= sz\n', '            todo -= self.buffersize\n'),
        ('cache-seek-no-offset', 'dashlive/utils/buffered_reader.py', '            self.reader.seek(bucket + self.offset, io.SEEK_SET)', '            self.reader.seek(bucket, io.SEEK_SET)'),
        ('cache-no-evict-count', 'dashlive/utils/buffered_reader.py', '                self.num_buffers -= 1\n', '                pass\n'),
        ('cache-skip-seek', 'dashlive/utils/buffered_reader.py', '        if self.reader.tell() != (bucket + self.offset):', '        if self.reader.tell() < (bucket + self.offset):'),
        ('read-no-advance', 'dashlive/utils/buffered_reader.py', '        self.pos += n\n        return b[:n]', '        return b[:n]'),
        ('read-clamp', 'dashlive/utils/buffered_reader.py', '            n = min(n, self.size - self.pos)\n            if n <= 0:\n                return b', '            n = min(n, self.size)\n            if n <= 0:\n                return b'),
        ('readall-no-offset', 'dashlive/utils/buffered_reader.py', 'self.reader.seek(self.pos + self.offset)', 'self.reader.seek(self.pos)'),
        ('evict-newest', 'dashlive/utils/buffered_reader.py', 'v.timestamp < oldest', 'v.timestamp > oldest'),   # harmless: must survive
    ],
    'C08': [
        ('today-minute', 'dashlive/mpeg/dash/timing.py', 'if self.publishTime.hour == 0 and self.publishTime.minute == 0:', 'if self.publishTime.hour == 0 and self.publishTime.minute == 1:'),
        ('month-no-backoff', 'dashlive/mpeg/dash/timing.py', "                day=1, hour=0, minute=0, second=0, microsecond=0)\n            if (self.publishTime - self.availabilityStartTime) < one_day:\n                self.availabilityStartTime -= one_day", "                day=1, hour=0, minute=0, second=0, microsecond=0)"),
        ('now-30s', 'dashlive/mpeg/dash/timing.py', 'datetime.timedelta(seconds=self.DEFAULT_TIMESHIFT_BUFFER_DEPTH))', 'datetime.timedelta(seconds=30))'),
        ('depth-clamp', 'dashlive/mpeg/dash/timing.py', 'if self.elapsedTime.total_seconds() < self.timeShiftBufferDepth:', 'if self.elapsedTime.total_seconds() + 10 < self.timeShiftBufferDepth:'),
        ('fat-plus', 'dashlive/mpeg/dash/timing.py', 'self.firstAvailableTime = self.elapsedTime - datetime.timedelta(', 'self.firstAvailableTime = self.elapsedTime + datetime.timedelta('),
        ('publish-ceil', 'dashlive/mpeg/dash/timing.py', 'self.elapsedTime.total_seconds() // self.minimumUpdatePeriod)', 'self.elapsedTime.total_seconds() // self.minimumUpdatePeriod) + 1'),
        ('publish-no-trunc', 'dashlive/mpeg/dash/timing.py', '            self.publishTime = self.publishTime.replace(microsecond=0)\n', ''),
        ('mup-zero-kept', 'dashlive/mpeg/dash/timing.py', '        elif self.minimumUpdatePeriod <= 0:', '        elif self.minimumUpdatePeriod < 0:'),
        ('depth-negative', 'dashlive/mpeg/dash/timing.py', 'if not self.timeShiftBufferDepth or self.timeShiftBufferDepth < 0:', 'if not self.timeShiftBufferDepth:'),
        ('leeway-ms', 'dashlive/mpeg/dash/timing.py', 'self.leeway = datetime.timedelta(seconds=options.leeway)', 'self.leeway = datetime.timedelta(milliseconds=options.leeway)'),
    ],
    'C11': [
        ('pro-length-field', 'dashlive/drm/playready.py', "        pro = struct.pack('<IH', len(record) + 6, 1) + record", "        pro = struct.pack('<IH', len(record), 1) + record"),
        ('pro-record-length', 'dashlive/drm/playready.py', "        record = struct.pack('<HH', 0x001, len(wrm)) + wrm", "        record = struct.pack('<HH', 0x001, len(wrm) + 4) + wrm"),
        ('pro-parse-header-size', 'dashlive/drm/playready.py', "        data = src.read(6)\n        if len(data) != 6:", "        data = src.read(8)\n        if len(data) != 8:"),
        ('pro-record-type', 'dashlive/drm/playready.py', "            if record_type == 1:\n                prh = src.read(record_length)", "            if record_type == 2:\n                prh = src.read(record_length)"),
        ('wrm-default-first', 'dashlive/drm/playready.py', "        default_keypair = keys[default_kid.lower()]", "        default_keypair = list(keys.values())[0]"),
        ('wrm-kid-raw', 'dashlive/drm/playready.py', "            kids.append({\n                'kid': guid_kid,", "            kids.append({\n                'kid': keypair.KID.raw,"),
        ('wrm-template', 'dashlive/drm/playready.py', "template_name = f'drm/wrmheader{int(header_version * 10)}.xml'", "template_name = f'drm/wrmheader{int(header_version) * 10}.xml'"),
        ('guid-dword', 'dashlive/drm/playready.py', "dword = ''.join([guid[6:8], guid[4:6], guid[2:4], guid[0:2]])", "dword = ''.join([guid[6:8], guid[4:6], guid[0:2], guid[2:4]])"),
        ('guid-word3-swap', 'dashlive/drm/playready.py', "word3 = ''.join([guid[16:18], guid[18:20]])", "word3 = ''.join([guid[18:20], guid[16:18]])"),
        ('key-drop-c', 'dashlive/drm/playready.py', "                ^ sha_C_Output[i] ^ sha_C_Output[i + PlayReady.DRM_AES_KEYSIZE_128]", "                ^ sha_C_Output[i]"),
        ('key-b-no-seed', 'dashlive/drm/playready.py', "        sha_B.update(keyId)\n        sha_B.update(truncatedKeySeed)\n        sha_B_Output", "        sha_B.update(keyId)\n        sha_B_Output"),
        ('key-seed-31', 'dashlive/drm/playready.py', "        truncatedKeySeed = keySeed[:30]", "        truncatedKeySeed = keySeed[:31]"),
        ('key-no-le', 'dashlive/drm/playready.py', "        keyId = PlayReady.hex_to_le_guid(keyId, raw=True)\n        if len(keySeed) < 30:", "        if len(keySeed) < 30:"),
        ('key-seed-check', 'dashlive/drm/playready.py', "        if len(keySeed) < 30:\n            raise ValueError", "        if len(keySeed) < 29:\n            raise ValueError"),
        ('checksum-7', 'dashlive/drm/playready.py', "        return msg[:8]", "        return msg[:7]"),
        ('checksum-be', 'dashlive/drm/playready.py', "        cipher = AES.new(keypair.KEY.raw, AES.MODE_ECB)\n        msg = cipher.encrypt(guid_kid)", "        cipher = AES.new(keypair.KEY.raw, AES.MODE_ECB)\n        msg = cipher.encrypt(keypair.KID.raw)"),
    ],
    'C12': [
        ('mps-get-owner', 'dashlive/server/requesthandler/media_requests.py', "            segment_time: int | None = None\n            ) -> flask.Response:\n        period = models.Period.get(pk=ppk)\n        if period is None or period.parent_pk != current_mps.pk:", "            segment_time: int | None = None\n            ) -> flask.Response:\n        period = models.Period.get(pk=ppk)\n        if period is None:"),
        ('mps-get-media-stream', 'dashlive/server/requesthandler/media_requests.py', "        media = models.MediaFile.get(stream_pk=period.stream.pk, name=filename)\n        if media is None:\n            logging.warning('Media file not  found: mps=%s ppk=%d filename=%s',", "        media = models.MediaFile.get(stream_pk=current_mps.pk, name=filename)\n        if media is None:\n            logging.warning('Media file not  found: mps=%s ppk=%d filename=%s',"),
        ('mps-get-g-period', 'dashlive/server/requesthandler/media_requests.py', "        flask.g.stream = period.stream\n        flask.g.period = period\n", "        flask.g.stream = period.stream\n"),
        ('mps-start-ceil', 'dashlive/server/requesthandler/media_requests.py', '        start_time: int = int(math.floor(\n            period.start.total_seconds() * timing_ref.timescale))', '        start_time: int = int(math.ceil(\n            period.start.total_seconds() * timing_ref.timescale))'),
        ('mps-num-offset', 'dashlive/server/requesthandler/media_requests.py', '            mod_seg += seg_num - representation.start_number\n', '            mod_seg += seg_num - 1\n'),
        ('mps-beyond-end', 'dashlive/server/requesthandler/media_requests.py', '            if mod_seg > representation.num_media_segments:\n                logging.warning(\n                    "Request for segment', '            if mod_seg > representation.num_media_segments + 1:\n                logging.warning(\n                    "Request for segment'),
        ('mps-origin', 'dashlive/server/requesthandler/media_requests.py', '        origin_time = -seg_start_tc\n', '        origin_time = -origin_time\n'),
        ('vodp-start', 'dashlive/server/requesthandler/manifest_context.py', '            period.start = start\n            self.periods.append(period)\n            start += period.duration\n\n    def create_all_live', '            self.periods.append(period)\n            start += period.duration\n            period.start = start\n\n    def create_all_live'),
        ('livep-filter', 'dashlive/server/requesthandler/manifest_context.py', '            if period_end >= timing.firstAvailableTime:', '            if start >= timing.firstAvailableTime:'),
        ('livep-loops', 'dashlive/server/requesthandler/manifest_context.py', '            if index == 0:\n                num_loops += 1', '            if index == 1:\n                num_loops += 1'),
        ('livep-exit', 'dashlive/server/requesthandler/manifest_context.py', '        while start <= timing.elapsedTime:', '        while start + duration <= timing.elapsedTime:'),
    ],
    'C13': [
        ('od-read-len', 'dashlive/server/requesthandler/media_requests.py', "data = reader.read(1 + end - start)", "data = reader.read(end - start)"),
        ('od-open-start', 'dashlive/server/requesthandler/media_requests.py', "with current_media_file.open_file(start=start) as reader:", "with current_media_file.open_file(start=0) as reader:"),
        ('od-no-range-ok', 'dashlive/server/requesthandler/media_requests.py', "        if start is None:\n            logging.warning('HTTP range not specified')\n            return flask.make_response('HTTP range must be specified', 400)\n", "        if start is None:\n            start, end, status = 0, current_media_file.blob.size - 1, 206\n"),
        ('od-416-body', 'dashlive/server/requesthandler/media_requests.py', "        data = b''\n        if status == 206:", "        data = b''\n        if status != 200:"),
        ('od-mime', 'dashlive/server/requesthandler/media_requests.py', "        if ext == 'm4a':\n            headers['Content-Type'] = 'audio/mp4'\n        elif ext == 'm4v':", "        if ext == 'm4v':\n            headers['Content-Type'] = 'audio/mp4'\n        elif ext == 'm4a':"),
        ('range-no-suffix-clamp', 'dashlive/server/requesthandler/base.py', 'start = max(0, content_length - amount)', 'start = content_length - amount'),
        ('range-no-last-clamp', 'dashlive/server/requesthandler/base.py', 'end = min(int(end_str, 10), content_length - 1)', 'end = int(end_str, 10)'),
        ('range-416-lt', 'dashlive/server/requesthandler/base.py', 'if end >= content_length or end < start:', 'if end >= content_length or end <= start:'),
        ('range-open-end', 'dashlive/server/requesthandler/base.py', "            if end_str == '':\n                end = content_length - 1", "            if end_str == '':\n                end = content_length"),
        ('range-comma-ok', 'dashlive/server/requesthandler/base.py', "        if ',' in http_range:\n            raise ValueError('Multiple ranges not supported')\n", ""),
        ('range-416-header', 'dashlive/server/requesthandler/base.py', "headers['Content-Range'] = f'bytes */{content_length}'", "pass"),
        ('range-suffix-end', 'dashlive/server/requesthandler/base.py', "            start = max(0, content_length - amount)\n            end = content_length - 1", "            start = max(0, content_length - amount)\n            end = content_length"),
    ],
    'C19': [
        ('iso-no-carry', 'dashlive/utils/date_time.py', '    if milli_secs >= 1000:\n', '    if milli_secs >= 1001:\n'),
        ('iso-trunc-ms', 'dashlive/utils/date_time.py', '* 1000 + 0.5)', '* 1000)'),
        ('iso-mins', 'dashlive/utils/date_time.py', '    mins = secs // 60\n    secs %= 60', '    mins = secs // 60\n    secs %= 61'),
        ('tc2td-round', 'dashlive/utils/date_time.py', 'us = int(timecode) * 1000000 // timescale', 'us = (int(timecode) * 1000000 + timescale - 1) // timescale'),
        ('td2tc-drop-us', 'dashlive/utils/date_time.py', '    result += int(timescale * delta.microseconds // 1_000_000)\n', ''),
        ('scale-days', 'dashlive/utils/date_time.py', '    secs += days * 86400\n    secs += msecs // 1000000.0', '    secs += days * 86000\n    secs += msecs // 1000000.0'),
        ('isodt-trunc', 'dashlive/utils/date_time.py', 'min(999999, int(round(1000000.0 * secs)))', 'int(1000000.0 * secs)'),
    ],
    'C14': [
        ('emsg-no-count-guard', 'dashlive/server/events/repeating_event_base.py', '            if self.count > 0 and event_id >= self.count:\n                break\n            if presentation_time < seg_start:', '            if presentation_time < seg_start:'),
        ('emsg-delta-abs', 'dashlive/server/events/repeating_event_base.py', 'time_delta = presentation_time - seg_start', 'time_delta = presentation_time'),
        ('emsg-seg-end-le', 'dashlive/server/events/repeating_event_base.py', '        while presentation_time < seg_end:', '        while presentation_time <= seg_end:'),
        ('emsg-skip-id', 'dashlive/server/events/repeating_event_base.py', "            retval.append(EventMessageBox(**kwargs))\n            event_id += 1", "            retval.append(EventMessageBox(**kwargs))\n            event_id += 2"),
        ('mc-pt', 'dashlive/server/events/repeating_event_base.py', '                presentation_time += self.interval\n        return stream', '                presentation_time += self.duration\n        return stream'),
        ('mc-id', 'dashlive/server/events/repeating_event_base.py', "                    'id': idx,\n", "                    'id': idx + 1,\n"),
        ('bs-pts-mask', 'dashlive/server/events/scte35_events.py', '        pts &= 0x1FFFFFFFF  # PTS field is 33 bits\n', '        pts &= 0xFFFFFFFF  # PTS field is 33 bits\n'),
        ('bs-duration', 'dashlive/server/events/scte35_events.py', '        duration = self.duration * MPEG_TIMEBASE // self.timescale', '        duration = self.duration * self.timescale // MPEG_TIMEBASE'),
        ('bs-auto-return', 'dashlive/server/events/scte35_events.py', '        auto_return = (event_id & 1) == 0', '        auto_return = (event_id & 1) == 1'),
        ('bs-avail', 'dashlive/server/events/scte35_events.py', '            avail_num = 1 + (event_id // 2)', '            avail_num = 2 + (event_id // 2)'),
        ('st-reserved', 'dashlive/scte35/splice_time.py', "            w.write(6, 'reserved', 0x3F)", "            w.write(7, 'reserved', 0x7F)"),
        ('bd-width', 'dashlive/scte35/break_duration.py', "        w.write(33, 'duration')", "        w.write(32, 'duration')"),
        ('si-order', 'dashlive/scte35/splice_insert.py', "        w.write(8, 'avail_num')\n        w.write(8, 'avails_expected')", "        w.write(8, 'avails_expected')\n        w.write(8, 'avail_num')"),
        ('si-parse-flag', 'dashlive/scte35/splice_insert.py', "        if kwargs['duration_flag']:\n            kwargs['break_duration'] = BreakDuration.parse(r)", "        if kwargs['splice_immediate_flag']:\n            kwargs['break_duration'] = BreakDuration.parse(r)"),
        ('seg-subseg', 'dashlive/scte35/descriptors.py', "        if self.segmentation_type in {0x34, 0x36, 0x38, 0x3A}:\n            w.write(8, 'sub_segment_num')", "        if self.segmentation_type in {0x34, 0x36, 0x38}:\n            w.write(8, 'sub_segment_num')"),
        ('seg-duration-32', 'dashlive/scte35/descriptors.py', "            w.write(40, 'segmentation_duration')", "            w.write(32, 'segmentation_duration')"),
        ('sect-length', 'dashlive/mpeg/section_table.py', "        self.section_length = 4 + ((w.bitpos() - pos - 12) // 8)", "        self.section_length = ((w.bitpos() - pos - 12) // 8)"),
        ('sect-crc-before-length', 'dashlive/mpeg/section_table.py', "        w.overwrite(pos, 12, 'section_length')\n        data = w.toBytes()", "        data = w.toBytes()\n        w.overwrite(pos, 12, 'section_length')"),
        ('sig-cmd-length', 'dashlive/scte35/binarysignal.py', "        self.splice_command_length = (w.bitpos() - pos - 20) // 8", "        self.splice_command_length = (w.bitpos() - pos - 12) // 8"),
        ('sig-tier-width', 'dashlive/scte35/binarysignal.py', "        w.write(12, 'tier')\n        pos = w.bitpos()", "        w.write(16, 'tier')\n        pos = w.bitpos()"),
        ('desc-length', 'dashlive/scte35/descriptors.py', "        self.length = (w.bitpos() - pos - 8) // 8", "        self.length = (w.bitpos() - pos) // 8"),
        ('emsg-start-floor', 'dashlive/server/events/repeating_event_base.py', 'seg_end = (seg_end * self.timescale) // representation.timescale', 'seg_end = (seg_end * self.timescale) // representation.timescale + 1'),
    ],
    'C01': [
        ('cp-window-late', 'dashlive/server/requesthandler/manifest_context.py', "        if timing:\n            opts.availabilityStartTime = timing.availabilityStartTime\n            opts.timeShiftBufferDepth = timing.timeShiftBufferDepth\n            self.update_timing(timing)\n\n        self.cgi_params = self.calculate_cgi_parameters(\n            audio=audio_adps, video=video)\n", "        self.cgi_params = self.calculate_cgi_parameters(\n            audio=audio_adps, video=video)\n        if timing:\n            opts.availabilityStartTime = timing.availabilityStartTime\n            opts.timeShiftBufferDepth = timing.timeShiftBufferDepth\n            self.update_timing(timing)\n"),
        ('cp-depth-not-forwarded', 'dashlive/server/requesthandler/manifest_context.py', "            opts.timeShiftBufferDepth = timing.timeShiftBufferDepth\n", ""),
        ('cp-audio-gets-video-params', 'dashlive/server/requesthandler/manifest_context.py', "            audio.append_cgi_params(self.cgi_params.audio)", "            audio.append_cgi_params(self.cgi_params.video)"),
        ('fl-last-off', 'dashlive/mpeg/dash/representation.py', 'last_fragment = self.start_number + int(scale_timedelta(', 'last_fragment = self.start_number + 1 + int(scale_timedelta('),
        ('fl-first-narrow', 'dashlive/mpeg/dash/representation.py', '            int(self.timescale * timing.timeShiftBufferDepth // self.segment_duration) - 1)', '            int(self.timescale * timing.timeShiftBufferDepth // self.segment_duration) + 1)'),
        ('snt-no-leeway', 'dashlive/mpeg/dash/representation.py', '        fta = timing.firstAvailableTime - timing.leeway\n', '        fta = timing.firstAvailableTime\n'),
        ('snt-future-ok', 'dashlive/mpeg/dash/representation.py', '                seg_delta > timing.elapsedTime\n', '                seg_delta > timing.elapsedTime + timing.leeway\n'),
        ('snt-num-tc', 'dashlive/mpeg/dash/representation.py', 'timecode = int((segment_num - self.start_number) * self.segment_duration)', 'timecode = int(segment_num * self.segment_duration)'),
        ('msi-range-lt', 'dashlive/server/requesthandler/media_requests.py', '        if seg_num < first or seg_num > last:', '        if seg_num <= first or seg_num > last:'),
        ('msi-swallow', 'dashlive/server/requesthandler/media_requests.py', "            raise ValueError(\n                f'Segment {seg_num} not found (valid range= {first}->{last})')", "            pass"),
        ('ts2td-int', 'dashlive/mpeg/dash/representation.py', '        seconds = float(timecode) / float(self.timescale)\n', '        seconds = timecode // self.timescale\n'),
    ],
    'C03': [
        ('enc-no-seek-end', 'dashlive/mpeg/mp4.py', "        out.write(struct.pack('>I', self.size))\n        out.seek(0, 2)  # seek to end\n", "        out.write(struct.pack('>I', self.size))\n"),
        ('enc-size-before-children', 'dashlive/mpeg/mp4.py', "        self.encode_fields(dest=out)\n        # indent = ' ' * depth\n", "        self.encode_fields(dest=out)\n        self.size = out.tell() - self.position\n"),
        ('enc-size-from-zero', 'dashlive/mpeg/mp4.py', "        self.size = out.tell() - self.position\n        # print(f'{indent}", "        self.size = out.tell()\n        # print(f'{indent}"),
        ('enc-patch-at-zero', 'dashlive/mpeg/mp4.py', "        out.seek(self.position)\n        out.write(struct.pack('>I', self.size))", "        out.seek(0)\n        out.write(struct.pack('>I', self.size))"),
        ('enc-position-late', 'dashlive/mpeg/mp4.py', "        self.position = out.tell()\n        if len(self.atom_type) > 4:", "        if len(self.atom_type) > 4:"),
        ('trun-no-mdat-header', 'dashlive/mpeg/mp4.py', '        mdat_sample_start = moof.position + moof.size + mdat.header_size\n', '        mdat_sample_start = moof.position + moof.size\n'),
        ('trun-offset-base', 'dashlive/mpeg/mp4.py', '            self.data_offset = mdat_sample_start - moof.traf.tfhd.base_data_offset\n', '            self.data_offset = mdat_sample_start - moof.position\n'),
        ('trun-flag-not-set', 'dashlive/mpeg/mp4.py', '                self.flags |= self.data_offset_present\n', '                pass\n'),
        ('saio-bug-inverted', 'dashlive/mpeg/mp4.py', "            if self.options.has_bug('saio'):\n                return\n", "            if not self.options.has_bug('saio'):\n                return\n"),
        ('saio-base', 'dashlive/mpeg/mp4.py', '        return senc_sample_pos - base_data_offset', '        return senc_sample_pos'),
        ('saio-sample-1', 'dashlive/mpeg/mp4.py', '        senc_sample_pos = senc.position + senc.samples[0].offset', '        senc_sample_pos = senc.position'),
    ],
    'C04': [
        ('fio-w-3I', 'dashlive/utils/fio/field_writer.py', "value = struct.pack('>I', value)[1:]", "value = struct.pack('>I', value)[:3]"),
        ('fio-r-H', 'dashlive/utils/fio/field_reader.py', "value = (d[0] << 8) + d[1]", "value = (d[0] << 8) + d[0]"),
        ('fio-r-3I', 'dashlive/utils/fio/field_reader.py', "value = (d[0] << 16) + (d[1] << 8) + d[2]", "value = (d[0] << 16) + (d[1] << 16) + d[2]"),
        ('fio-r-I-signed', 'dashlive/utils/fio/field_reader.py', "value = struct.unpack('>' + size, self.src.read(4))[0]", "value = struct.unpack('>i', self.src.read(4))[0]"),
        ('fio-r-Q', 'dashlive/utils/fio/field_reader.py', "value = struct.unpack('>Q', self.src.read(8))[0]", "value = struct.unpack('>q', self.src.read(8))[0]"),
        ('emsg-v1-time-32', 'dashlive/mpeg/mp4.py', "            d.write('Q', 'presentation_time')", "            d.write('I', 'presentation_time')"),
        ('emsg-v0-parse-order', 'dashlive/mpeg/mp4.py', "            r.read('I', 'presentation_time_delta')\n            r.read('I', 'event_duration')", "            r.read('I', 'event_duration')\n            r.read('I', 'presentation_time_delta')"),
        ('emsg-v1-strings-first', 'dashlive/mpeg/mp4.py', "        elif self.version == 1:\n            d.write('I', 'timescale')\n            d.write('Q', 'presentation_time')\n            d.write('I', 'event_duration')\n            d.write('I', 'event_id')\n            d.write('S0', 'scheme_id_uri')\n            d.write('S0', 'value')", "        elif self.version == 1:\n            d.write('S0', 'scheme_id_uri')\n            d.write('S0', 'value')\n            d.write('I', 'timescale')\n            d.write('Q', 'presentation_time')\n            d.write('I', 'event_duration')\n            d.write('I', 'event_id')"),
        ('fio-w-S0-no-nul', 'dashlive/utils/fio/field_writer.py', "value = bytes(value, 'utf-8') + b'\\0'", "value = bytes(value, 'utf-8')"),
        ('fio-r-S0-keeps-nul', 'dashlive/utils/fio/field_reader.py', "            while ord(d) != 0:\n                value += str(d, 'utf-8')\n                d = self.src.read(1)", "            while ord(d) != 0:\n                d = self.src.read(1)\n                value += str(d, 'utf-8')"),
        ('mdhd-dur-32', 'dashlive/mpeg/mp4.py', "        w.write('I', 'timescale')\n        w.write(sz, 'duration')\n        chars", "        w.write('I', 'timescale')\n        w.write('I', 'duration')\n        chars"),
        ('mdhd-lang-shift', 'dashlive/mpeg/mp4.py', "lang = (chars[0] << 10) + (chars[1] << 5) + chars[2]", "lang = (chars[0] << 10) + (chars[1] << 6) + chars[2]"),
        ('mdhd-epoch', 'dashlive/utils/date_time.py', "    return int(delta.total_seconds())", "    return int(delta.total_seconds()) + 1"),
        ('tenc-order', 'dashlive/mpeg/mp4.py', '        w.write(\'3I\', "is_encrypted")\n        w.write(\'B\', "iv_size")', '        w.write(\'B\', "iv_size")\n        w.write(\'3I\', "is_encrypted")'),
        ('tenc-kid-15', 'dashlive/mpeg/mp4.py', '        w.write(16, "default_kid")', '        w.write(15, "default_kid")'),
        ('pssh-kids-read', 'dashlive/mpeg/mp4.py', '                rv["key_ids"].append(r.get(16, \'kid\'))', '                rv["key_ids"].append(r.read(16, \'kid\'))'),
        ('pssh-v0-kids', 'dashlive/mpeg/mp4.py', "        if self.version > 0:\n            w.write('I', 'num_keys', len(self.key_ids))", "        if self.key_ids:\n            w.write('I', 'num_keys', len(self.key_ids))"),
        ('pssh-datalen', 'dashlive/mpeg/mp4.py', "            w.write('I', 'data_len', len(self.data))", "            w.write('I', 'data_len', len(self.data) + 1)"),
        ('sidx-ref-order', 'dashlive/mpeg/mp4.py', "        w.writebits(3, 'SAP_type')\n        w.writebits(28, 'SAP_delta_time')", "        w.writebits(28, 'SAP_delta_time')\n        w.writebits(3, 'SAP_type')"),
        ('sidx-ref-size-32', 'dashlive/mpeg/mp4.py', "        w.writebits(1, 'ref_type')\n        w.writebits(31, 'ref_size')", "        w.writebits(32, 'ref_size')"),
        ('sidx-parse-order', 'dashlive/mpeg/mp4.py', "        r.read(sz, 'earliest_presentation_time')\n        r.read(sz, 'first_offset')", "        r.read(sz, 'first_offset')\n        r.read(sz, 'earliest_presentation_time')"),
        ('sidx-count', 'dashlive/mpeg/mp4.py', "        w.write('H', 'reference_count', len(self.references))", "        w.write('H', 'reference_count', len(self.references) + 1)"),
        ('sidx-v1-offset-32', 'dashlive/mpeg/mp4.py', "        w.write(sz, 'earliest_presentation_time')\n        w.write(sz, 'first_offset')\n        w.write('H', 'reserved', 0)", "        w.write(sz, 'earliest_presentation_time')\n        w.write('I', 'first_offset')\n        w.write('H', 'reserved', 0)"),
        ('smp-order', 'dashlive/mpeg/mp4.py', "        if flags & TrackFragmentRunBox.sample_duration_present:\n            d.write('I', 'duration')\n        if flags & TrackFragmentRunBox.sample_size_present:\n            d.write('I', 'size')", "        if flags & TrackFragmentRunBox.sample_size_present:\n            d.write('I', 'size')\n        if flags & TrackFragmentRunBox.sample_duration_present:\n            d.write('I', 'duration')"),
        ('smp-cto-unsigned', 'dashlive/mpeg/mp4.py', "            if self.parent.version:\n                d.write('i', 'composition_time_offset')", "            if not self.parent.version:\n                d.write('i', 'composition_time_offset')"),
        ('smp-first-flags-index', 'dashlive/mpeg/mp4.py', "        if index == 0 and (flags & TrackFragmentRunBox.first_sample_flags_present):", "        if index == 1 and (flags & TrackFragmentRunBox.first_sample_flags_present):"),
        ('smp-offset-duration', 'dashlive/mpeg/mp4.py', "            rv[\"samples\"].append(ts)\n            offset += ts.size", "            rv[\"samples\"].append(ts)\n            offset += ts.duration or 0"),
        ('smp-default-size', 'dashlive/mpeg/mp4.py', "            rv['size'] = tfhd.default_sample_size", "            rv['size'] = tfhd.default_sample_duration"),
        ('hdr-size0-short', 'dashlive/mpeg/mp4.py', "            size = src.tell() - position\n", "            size = src.tell() - pos\n"),
        ('hdr-short-ext', 'dashlive/mpeg/mp4.py', "            if len(size_ext) != 8:\n                if options:\n                    options.log.debug(\n                        'Failed to read extended box size. pos=%d', position)\n                return None\n", ""),
        ('hdr-ext-zero-ok', 'dashlive/mpeg/mp4.py', "            if not size:\n                if options:\n                    options.log.debug(\n                        'Failed to read atom size. pos=%d', position)\n                return None\n", ""),
        ('hdr-hsize', 'dashlive/mpeg/mp4.py', '            "header_size": src.tell() - position,', '            "header_size": 8,'),
        ('mfhd-h', 'dashlive/mpeg/mp4.py', "        w.write('I', 'sequence_number')", "        w.write('H', 'sequence_number')"),
        ('mehd-swap', 'dashlive/mpeg/mp4.py', "        if self.version == 1:\n            w.write('Q', 'fragment_duration')\n        else:\n            w.write('I', 'fragment_duration')", "        if self.version == 0:\n            w.write('Q', 'fragment_duration')\n        else:\n            w.write('I', 'fragment_duration')"),
        ('trex-order', 'dashlive/mpeg/mp4.py', "        w.write('I', 'default_sample_duration')\n        w.write('I', 'default_sample_size')\n        w.write('I', 'default_sample_flags')\n\n", "        w.write('I', 'default_sample_size')\n        w.write('I', 'default_sample_duration')\n        w.write('I', 'default_sample_flags')\n\n"),
        ('tfdt-parse-signed', 'dashlive/mpeg/mp4.py', 'rv["base_media_decode_time"] = struct.unpack(\'>I\', src.read(4))[0]', 'rv["base_media_decode_time"] = struct.unpack(\'>i\', src.read(4))[0]'),
        ('tfhd-flag', 'dashlive/mpeg/mp4.py', "        if self.flags & self.default_sample_size_present:\n            w.write('I', 'default_sample_size')", "        if self.flags & self.default_sample_duration_present:\n            w.write('I', 'default_sample_size')"),
        ('tfhd-parse-order', 'dashlive/mpeg/mp4.py', '        if rv["flags"] & clz.sample_description_index_present:\n            r.read(\'I\', \'sample_description_index\')\n        if rv["flags"] & clz.default_sample_duration_present:\n            r.read(\'I\', \'default_sample_duration\')', '        if rv["flags"] & clz.default_sample_duration_present:\n            r.read(\'I\', \'default_sample_duration\')\n        if rv["flags"] & clz.sample_description_index_present:\n            r.read(\'I\', \'sample_description_index\')'),
        ('fullbox-flags', 'dashlive/mpeg/mp4.py', "        d.write(3, 'flags', value=struct.pack('>I', self.flags)[1:])", "        d.write(3, 'flags', value=struct.pack('>I', self.flags >> 1)[1:])"),
        ('tfdt-widen', 'dashlive/mpeg/mp4.py', "            if self.version == 0 and value.bit_length() > 32:", "            if self.version == 0 and value.bit_length() > 33:"),
    ],
    'C06': [
        ('vodp-duration', 'dashlive/mpeg/dash/timing.py', '            self.stream_reference.media_duration, self.stream_reference.timescale)', '            self.stream_reference.timescale, self.stream_reference.media_duration)'),
        ('init-publish', 'dashlive/mpeg/dash/timing.py', '        self.publishTime = now.replace(microsecond=0)\n        self.stream_reference', '        self.publishTime = now\n        self.stream_reference'),
        ('seglist-end', 'dashlive/mpeg/dash/representation.py', '            end = seg.pos + seg.size - 1\n', '            end = seg.pos + seg.size\n'),
        ('seglist-skip-first', 'dashlive/mpeg/dash/representation.py', '                rv.init = sp\n                first = False\n', '                rv.init = sp\n'),
        ('vod-last', 'dashlive/mpeg/dash/representation.py', 'return (self.start_number, self.num_media_segments + self.start_number - 1)', 'return (self.start_number, self.num_media_segments + self.start_number)'),
        ('vod-time-round', 'dashlive/mpeg/dash/representation.py', 'st = segment_time + (self.segment_duration >> 2)', 'st = segment_time + (self.segment_duration >> 1)'),
        ('load-segdur-abs', 'dashlive/mpeg/dash/representation.py', 'seg_dur = (segment_start_time - rv.start_time) // (len(rv.segments) - 2)', 'seg_dur = segment_start_time // (len(rv.segments) - 2)'),
        ('load-extend-size', 'dashlive/mpeg/dash/representation.py', 'seg.size = atom.position - seg.pos + atom.size', 'seg.size = atom.position - seg.pos'),
        ('load-no-free', 'dashlive/mpeg/dash/representation.py', "elif atom.atom_type in ['sidx', 'moov', 'mdat', 'free'] and rv.segments:", "elif atom.atom_type in ['sidx', 'moov', 'mdat'] and rv.segments:"),
        ('load-startnum-last', 'dashlive/mpeg/dash/representation.py', '                if segment_start_number is None:\n                    segment_start_number = atom.mfhd.sequence_number\n                    rv.start_number', '                if True:\n                    segment_start_number = atom.mfhd.sequence_number\n                    rv.start_number'),
        ('load-notfdt-zero', 'dashlive/mpeg/dash/representation.py', '                    segment_start_time = segment_end_time\n', '                    segment_start_time = 0\n'),
        ('load-segdur-count', 'dashlive/mpeg/dash/representation.py', '// (len(rv.segments) - 2)', '// (len(rv.segments) - 1)'),
        ('load-start-time-last', 'dashlive/mpeg/dash/representation.py', '                if representation_start_time is None:\n                    representation_start_time = segment_start_time', '                if True:\n                    representation_start_time = segment_start_time'),
        ('load-dur-end-time', 'dashlive/mpeg/dash/representation.py', '                seg.duration = dur\n', '                seg.duration = segment_end_time\n'),
        ('load-mediadur-skip', 'dashlive/mpeg/dash/representation.py', '                rv.mediaDuration += seg.duration\n', '                rv.mediaDuration = seg.duration\n'),
        ('load-ftyp-noappend', 'dashlive/mpeg/dash/representation.py', "                    sys.stdout.write('I')\n                    sys.stdout.flush()\n                rv.segments.append(seg)", "                    sys.stdout.write('I')\n                    sys.stdout.flush()\n                    rv.segments.append(seg)"),
        ('vod-mod', 'dashlive/mpeg/dash/representation.py', '            mod_segment = 1 + segment_num - self.start_number\n', '            mod_segment = segment_num - self.start_number\n'),
    ],
    'C02': [
        ('gms-tfdt-assign', 'dashlive/server/requesthandler/media_requests.py', "        tfdt.base_media_decode_time += origin_time\n", "        tfdt.base_media_decode_time = origin_time\n"),
        ('gms-seq-mod', 'dashlive/server/requesthandler/media_requests.py', "        moof.mfhd.sequence_number = seg_num\n", "        moof.mfhd.sequence_number = mod_segment\n"),
        ('gms-unpack-swap', 'dashlive/server/requesthandler/media_requests.py', "            mod_segment, origin_time, sn = self.calculate_media_segment_index(", "            origin_time, mod_segment, sn = self.calculate_media_segment_index("),
        ('gms-keep-sidx', 'dashlive/server/requesthandler/media_requests.py', "            del atom.sidx\n", "            pass\n"),
        ('gms-load-prev', 'dashlive/server/requesthandler/media_requests.py', "            media_file, mod_segment, options,\n", "            media_file, mod_segment - 1, options,\n"),
        ('gms-ignore-sn', 'dashlive/server/requesthandler/media_requests.py', "            assert sn is not None\n            seg_num = sn\n", "            assert sn is not None\n"),
        ('gms-404-as-500', 'dashlive/server/requesthandler/media_requests.py', "            logging.warning('ValueError: %s', err)\n            return flask.make_response('Not Found', 404)", "            logging.warning('ValueError: %s', err)\n            raise"),
        ('tl-no-drift', 'dashlive/mpeg/dash/representation.py', '            if mod_segment == self.num_media_segments:\n                duration += drift\n', ''),
        ('tl-drift-sign', 'dashlive/mpeg/dash/representation.py', '            drift = ref_duration_tc - self.mediaDuration\n', '            drift = self.mediaDuration - ref_duration_tc\n'),
        ('tl-wrap', 'dashlive/mpeg/dash/representation.py', '            mod_segment += 1\n            if mod_segment > self.num_media_segments:\n                mod_segment = 1\n        output_s_node', '            mod_segment += 1\n            if mod_segment >= self.num_media_segments:\n                mod_segment = 1\n        output_s_node'),
        ('tl-start-origin', 'dashlive/mpeg/dash/representation.py', '                s_node.start = seg_start_time\n', '                s_node.start = origin_time\n'),
        ('tl-merge-all', 'dashlive/mpeg/dash/representation.py', '            elif duration != s_node.duration:\n', '            elif duration > s_node.duration:\n'),
        ('tl-count', 'dashlive/mpeg/dash/representation.py', '            s_node.count += 1\n            dur += duration', '            s_node.count += 1\n            dur += seg.duration'),
        ('tl-end-le', 'dashlive/mpeg/dash/representation.py', '        while dur < end:', '        while dur <= end:'),
        ('tl-start-tc', 'dashlive/mpeg/dash/representation.py', '                self._timing.firstAvailableTime, self.timescale)', '                self._timing.elapsedTime, self.timescale)'),
        ('mdut-order', 'dashlive/mpeg/dash/reference.py', 'return self.media_duration * timescale // self.timescale', 'return self.media_duration // self.timescale * timescale'),
        ('csft-swap', 'dashlive/mpeg/dash/representation.py', '        return (mod_segment, origin_time, seg_start_tc)', '        return (mod_segment, seg_start_tc, origin_time)'),
        ('gsi-le', 'dashlive/mpeg/dash/representation.py', '.duration // 2)) < timecode:', '.duration // 2)) <= timecode:'),
        ('gsi-no-half', 'dashlive/mpeg/dash/representation.py', 'while (seg_start_tc + (self.segments[mod_segment].duration // 2)) < timecode:', 'while (seg_start_tc + self.segments[mod_segment].duration) < timecode:'),
        ('gsi-wrap', 'dashlive/mpeg/dash/representation.py', '            if mod_segment > self.num_media_segments:\n                mod_segment = 1\n                origin_time += ref_duration_tc', '            if mod_segment >= self.num_media_segments:\n                mod_segment = 1\n                origin_time += ref_duration_tc'),
        ('gsi-origin-media', 'dashlive/mpeg/dash/representation.py', '                origin_time += ref_duration_tc\n', '                origin_time += self.mediaDuration\n'),
    ],
}


def main():
    prop = sys.argv[1]
    args = [a for a in sys.argv[2:] if not a.startswith('--')]
    limit = int(sys.argv[sys.argv.index('--limit') + 1]) if '--limit' in sys.argv else 10**6
    sub = args[0] if args and args[0] != str(limit) else ''
    here = os.path.dirname(os.path.abspath(__file__))
    table = []
    for name, rel, old, new in MUTANTS.get(prop, []):
        if sub not in name:
            continue
        if len(table) >= limit:
            break
        tmp = tempfile.mkdtemp(prefix='pyvc-mut-')
        try:
            shutil.copytree('/repo/dashlive', os.path.join(tmp, 'dashlive'))
            shutil.copytree('/repo/templates', os.path.join(tmp, 'templates'))
            p = os.path.join(tmp, rel)
            s = open(p).read()
            if old not in s:
                table.append({'mutant': name, 'result': 'NOT-APPLICABLE (pattern missing)'})
                continue
            open(p, 'w').write(s.replace(old, new, 1))
            r = subprocess.run(['python3-vt', '-m', 'pyvc.check', prop, '--repo', tmp, '--no-evidence', '1'], cwd=here,
                               capture_output=True, text=True)
            viol = [l for l in r.stdout.splitlines() if l.startswith(('VIOLATION', 'UNDECIDED'))]
            obl = [l.split('obligation=')[1].split()[0] for l in r.stdout.splitlines() if 'obligation=' in l]
            table.append({'mutant': name, 'exit': r.returncode,
                          'result': 'killed' if r.returncode == 1 else ('checker-error' if r.returncode == 3 else 'survived'),
                          'confirmed': sum('no-failing-input-found' not in v for v in viol), 'obligations': obl[:4]})
        finally:
            shutil.rmtree(tmp, ignore_errors=True)
        print(json.dumps(table[-1]))
    return table


if __name__ == '__main__':
    main()
