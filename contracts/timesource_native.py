"""Native builders for the `timesource` group (pure option module; the context class is extracted from its source)."""
import datetime
from types import SimpleNamespace as NS

from contracts.clearkey_native import extract_class
from dashlive.server.options import utc_time_options

TSC = 'dashlive/server/requesthandler/time_source_context.py'


def build(key, variant, i):
    qual = key.split(':')[1]
    value = eval(variant)
    if qual == '_utc_method_from_string':
        return {'env': {'value': value}, 'call': lambda: utc_time_options._utc_method_from_string(value)}
    import urllib.parse
    glb = {'flask': NS(request=NS(host_url='http://h/'), url_for=lambda *a, **k: '/time/x'), 'urllib': urllib,
           'to_iso_datetime': lambda d: 'iso', 'dict_to_cgi_params': lambda d: '', 'NTP_POOLS': utc_time_options.NTP_POOLS,
           'ClassVar': None, 'OptionsContainer': object, 'CgiParameterCollection': object, 'datetime': datetime}
    src_cls = extract_class(TSC, 'TimeSourceContext', glb)
    me = src_cls.__new__(src_cls)
    opts = NS(utcMethod=value, ntpSources=[])
    now = datetime.datetime(1970, 1, 1, tzinfo=datetime.timezone.utc)
    return {'env': {'self': me, 'options': opts, 'now': now}, 'call': lambda: src_cls.__init__(me, opts, NS(time={}), now)}
