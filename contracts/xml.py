"""C05 (reduced scope: the first sentence of the statement - stored or requested strings can never add, remove or break
elements).

  xmlSafe : the filter escapes & < > " (in that order: the ampersand first, so that the entities it writes are not
        escaped again) and turns None into the empty string.  str.replace with a one-character pattern acts on every
        character separately (Python semantics), so the cases below - each special character, an ordinary one, a text
        that already looks like an entity - cover every input.
  Template table (lemmas generated from the template files on every run): every `{{ expression }}` of the manifest,
        patch, DRM, event and segment-list templates either passes through a filter that produces XML-safe text, or is an
        integer / a server-generated token over a safe alphabet / an XML fragment the server serialises itself
        (contracts/xml_scan.py lists them).  Autoescape is off for the .mpd manifests, so a missing filter there is an injection; the
        .xml fragments are auto-escaped by Flask, where xmlSafe must return Markup not to be escaped twice (clause
        marked_as_markup_unless_empty; C09 PatchLocation and C11 licence URL depend on it).
The structural MPD rules of the statement (required attributes, unique ids, lexical forms) are NOT covered."""
import z3
from pyvc.vals import *          # noqa: F401,F403
from pyvc.contract import Contract, Loop, Lemma, Group
from contracts.xml_scan import interpolations, classify, content_protection_problems, custom_attribute_request_paths

TAGS = 'dashlive/server/template_tags.py'
CASES = [('amp', '&', '&amp;'), ('lt', '<', '&lt;'), ('gt', '>', '&gt;'), ('quot', '"', '&quot;'), ('plain', 'a', 'a'),
         ('entity-like', '&lt;', '&amp;lt;'), ('mixed', 'T<i>&"x"', 'T&lt;i&gt;&amp;&quot;x&quot;'), ('none', None, ''),
         ('number', 7, '7')]


class MarkupStr(str):
    """markupsafe.Markup: a str (same characters) that Jinja's autoescape leaves alone"""


def xmlsafe(name, value, expected):
    return Contract(
        key=f'{TAGS}:xmlSafe', variant=name, props=['C05', 'C09', 'C11'],
        env=lambda w: {'value': value},
        models={'Markup': lambda eng, e, a, kw: MarkupStr(a[0])},
        ensures=[('escaped', f'result == {expected!r}'),
                 # Flask auto-escapes templates named *.xml (patches, DRM, events, WRMHEADER): only text marked as markup is
                 # not escaped a second time there (C09: PatchLocation; C11: the licence URL read back from a WRMHEADER)
                 ('marked_as_markup_unless_empty', f'is_markup(result) or result == {""!r}')],
        canaries=[f'result == {"x" + expected!r}'],
        witness_terms=lambda w: (lambda ev: {}),
    )


XMLSAFE = [xmlsafe(*c) for c in CASES]


# the element name of a PlayReady custom attribute: supplied by callers of the PlayReady class only (see the lemma
# custom_attributes_have_no_request_path), hence neither a stored nor a requested string
KNOWN = {('templates/drm/custom_attributes.xml', 'ELEMENT-NAME:elt.tag')}


def template_lemmas():
    """one lemma per template file: every interpolation in it is escaped or of a safe kind (the file list is read when the
    contracts are loaded, the files themselves on every run from the checked tree)"""
    import os
    repo = os.environ.get('PYVC_REPO', '/repo')
    files = sorted({f for f, _, _ in interpolations(repo)})
    out = []
    for f in files:
        def build(w, f=f):
            bad = [(line, e) for ff, line, e in interpolations(w.get('__repo__', '/repo'))
                   if ff == f and classify(e, ff) is None and (ff, e) not in KNOWN]
            return [], z3.BoolVal(not bad)
        out.append(Lemma('escaped.' + f.split('/', 1)[1].replace('/', '.'), ['C05'], build))
    return out


def lemma_no_unclassified(w):
    """every interpolation present in the checked tree is acceptable (catches NEW unescaped interpolations)"""
    repo = w.get('__repo__', '/repo')
    bad = [(f, line, e) for f, line, e in interpolations(repo) if classify(e, f) is None and (f, e) not in KNOWN]
    return [], z3.BoolVal(not bad)


def lemma_custom_attributes(w):
    """the only element-name interpolation (custom_attributes.xml) is fed by API callers only: no handler, option or template
    passes custom attributes - if one ever does, this lemma fails and the tag becomes an injection point to escape or validate"""
    return [], z3.BoolVal(not custom_attribute_request_paths(w.get('__repo__', '/repo')))


def lemma_content_protection(w):
    """C11 (template level): ContentProtection fragments take default_KID, pssh and pro from the adaptation set's default
    key id through the same factories the init segment uses, each under the test of its location"""
    return [], z3.BoolVal(not content_protection_problems(w.get('__repo__', '/repo')))


GROUP = Group(
    name='xml', world=lambda: {'__bases__': {}, 'is_markup': lambda x: isinstance(x, MarkupStr)},
    contracts=XMLSAFE,
    lemmas=template_lemmas() + [Lemma('templates.every_interpolation_is_escaped_or_safe', ['C05'], lemma_no_unclassified),
                                 Lemma('templates.content_protection_uses_the_default_kid_factories', ['C11'], lemma_content_protection),
                                 Lemma('templates.custom_attributes_have_no_request_path', ['C05'], lemma_custom_attributes)],
    bounded=[{'name': 'c05_templates', 'props': ['C05'], 'cmd': ['/venv/bin/python', 'bounded/c05_templates.py', '{tier}', '--repo', '{repo}']}],
    assumptions=[
        'C05: str.replace(p, r) with a one-character pattern p maps every character c of the text to r if c == p and to c '
        'otherwise, in order (Python semantics): escaping a text is escaping each of its characters',
        'C05: Jinja renders `{{ e | f }}` as f(e) and inserts it verbatim in .mpd templates; templates named *.xml are auto-escaped '
        '(flask select_jinja_autoescape: & < > " \' escaped by markupsafe unless the value is Markup); the filters '
        'isoDuration / isoDateTime / base64 / uuid / frameRateFraction / trueFalse produce text over [A-Za-z0-9+/=.:-]',
        'C05: the expressions listed as NUMERIC / FIXED in contracts/xml_scan.py hold integers resp. server-generated tokens over a '
        'safe alphabet (read from the code, not proved)',
    ],
    not_covered=['the structural MPD rules (required attributes per MPD@type, lexical validity of durations and dates, unique ids, '
                 'non-empty AdaptationSets, URL template identifiers)', 'HTML templates'],
)
