"""Native builders for the `clearkey` group (C11): the real ClearkeyHandler methods, extracted from the source text
(the module itself imports the database models)."""
import base64
import binascii
from types import SimpleNamespace as NS

import ast
import os

REPO = os.environ.get('PYVC_REPO', '/repo')


def extract_class(relpath, cls_name, ns):
    """the class statement itself, executed without its base class (RequestHandlerBase is flask.views.MethodView plus
    helpers none of the three methods use)"""
    tree = ast.parse(open(os.path.join(REPO, relpath)).read())
    cls = next(c for c in tree.body if isinstance(c, ast.ClassDef) and c.name == cls_name)
    cls.bases, cls.keywords, cls.decorator_list = [], [], []
    exec(compile(ast.fix_missing_locations(ast.Module(body=[cls], type_ignores=[])), relpath, 'exec'), ns)
    return ns[cls_name]

CK = 'dashlive/server/requesthandler/clearkey.py'
URL_ALPHABET = 'ABCDEFGHIJKLMNOPQRSTUVWXYZabcdefghijklmnopqrstuvwxyz0123456789-_'
NSTORED = 2


def rfc4648_url(b):
    """RFC 4648 section 5 without padding, written out (not through the base64 module)"""
    bits = ''.join(f'{x:08b}' for x in b)
    bits += '0' * ((-len(bits)) % 6)
    return ''.join(URL_ALPHABET[int(bits[k:k + 6], 2)] for k in range(0, len(bits), 6))


def sextet_bytes(t):
    bits = ''.join(f'{URL_ALPHABET.index(c):06b}' for c in t)
    return bytes(int(bits[k:k + 8], 2) for k in range(0, len(bits) - len(bits) % 8, 8))


def text_of(sextets):
    return ''.join(URL_ALPHABET[int(x)] for x in sextets)


def build(key, variant, i):
    qual = key.split(':')[1]
    glb = {'base64': base64, 'binascii': binascii}
    env = {'b64_eq': lambda a, b: a == b, 'bytes_eq': lambda a, b: bytes(a) == bytes(b), 'b64url': rfc4648_url,
           'sextet_bytes': sextet_bytes, 'is_bytes': lambda b, n: isinstance(b, bytes) and len(b) == n,
           'is_b64url_text': lambda t, n: isinstance(t, str) and len(t) == n and all(c in URL_ALPHABET for c in t),
           'has_field': lambda d, k: k in d}
    if qual == 'ClearkeyHandler.base64url_encode':
        me = extract_class(CK, 'ClearkeyHandler', glb)()
        b = bytes(int(x) for x in i['b'])
        env['b'] = b
        return {'env': env, 'call': lambda: me.base64url_encode(b)}
    if qual == 'ClearkeyHandler.base64url_decode':
        me = extract_class(CK, 'ClearkeyHandler', glb)()
        txt = text_of(i['t'])
        env['txt'] = txt
        return {'env': env, 'call': lambda: me.base64url_decode(txt)}
    stored = [(bytes(int(x) for x in i[f's{j}_']), bytes(int(x) for x in i[f'y{j}_'])) for j in range(NSTORED)]
    nreq = {'one-id': 1, 'two-ids': 2, 'no-ids': 0, 'kids-missing': 0, 'type-missing': 1, 'one-id-and-a-short-id': 1}[variant]
    ids = [text_of(i[f'q{k}_']) for k in range(nreq)] + ([text_of(i['h0_'])] if variant == 'one-id-and-a-short-id' else [])
    req = {}
    if variant != 'kids-missing':
        req['kids'] = list(ids)
    if variant != 'type-missing':
        req['type'] = 'temporary'

    def get_kids(kids):
        kids = [k.hex if hasattr(k, 'raw') else k.lower() for k in kids]
        return {kid.hex(): NS(KID=NS(raw=kid), KEY=NS(raw=key)) for kid, key in stored if kid.hex() in kids}

    def item_is(item, j):
        kid, key = stored[j]
        return isinstance(item, dict) and set(item) == {'kty', 'kid', 'k'} and item['kty'] == 'oct' and \
            item['kid'] == rfc4648_url(kid) and item['k'] == rfc4648_url(key)
    requested = lambda xs, j: any(sextet_bytes(t) == stored[j][0] for t in xs)
    env.update(__ids__=ids, requested=requested, stored_kid=lambda j: stored[j][0],
               listed=lambda keys, j: any(item_is(it, j) for it in keys),
               times_listed=lambda keys, j: sum(1 for it in keys if item_is(it, j)),
               only_requested_stored_keys=lambda keys, xs: all(any(item_is(it, j) and requested(xs, j) for j in range(NSTORED))
                                                               for it in keys))
    from dashlive.drm.keymaterial import KeyMaterial
    glb2 = dict(glb, KeyMaterial=KeyMaterial, flask=NS(request=NS(json=req)), models=NS(Key=NS(get_kids=get_kids)),
                jsonify=lambda data, status=None: NS(data=data, status=200 if status is None else status))
    me = extract_class(CK, 'ClearkeyHandler', glb2)()
    return {'env': env, 'call': lambda: me.post()}
