"""Native builders for the `xml` group."""
import os

from dashlive.server.template_tags import xmlSafe

REPO = os.environ.get('PYVC_REPO', '/repo')
CASES = {'amp': '&', 'lt': '<', 'gt': '>', 'quot': '"', 'plain': 'a', 'entity-like': '&lt;', 'mixed': 'T<i>&"x"', 'none': None,
         'number': 7}


def build(key, variant, i):
    value = CASES[variant]
    import markupsafe
    return {'env': {'value': value, 'is_markup': lambda x: isinstance(x, markupsafe.Markup)}, 'call': lambda: xmlSafe(value)}


def finding_unescaped_interpolation(i):
    """C05: an interpolation of a requested string that no filter escapes"""
    from contracts.xml_scan import interpolations, classify
    hits = [(f, line, e) for f, line, e in interpolations(REPO) if f == i['file'] and e == i['expr'] and classify(e, f) is None]
    return bool(hits), f"{i['file']}: {{{{{i['expr']}}}}} is rendered verbatim at line(s) {[h[1] for h in hits]}"
