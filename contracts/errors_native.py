"""Native builders for the `errors` group: the real counter methods and check_for_synthetic_http_error, extracted from
the source text, run inside a Flask request context with a real session."""
from types import SimpleNamespace as NS

import flask

from contracts.rep_native import extract_method

BASE = 'dashlive/server/requesthandler/base.py'
MRQ = 'dashlive/server/requesthandler/media_requests.py'


def build_serve_manifest(variant, i):
    import html
    import logging
    import math
    from fractions import Fraction
    b = lambda k: bool(i[k])
    g = lambda k: int(i[k])

    class Opts(NS):
        def update(self, **kw):
            self.__dict__.update(kw)

        def remove_unused_parameters(self, mode):
            pass

    def calc(**kw):
        if b('bad_options'):
            raise ValueError('bad')
        return Opts(patch=b('opt_patch'), segmentTimeline=b('opt_timeline'))
    captured = {}

    def render(name, **ctx):
        captured['options'] = ctx['options']
        return 'BODY'

    def create_context(**kw):
        d = dict(kw)
        if b('has_mup'):
            d['minimumUpdatePeriod'] = Fraction(g('mup_num'), g('mup_den'))
        return d
    mft = NS(restrictions={}, features={'segmentTimeline'} if b('feat_timeline') else set(), segment_timeline=b('mft_timeline'))
    fl = NS(request=NS(args={}), make_response=lambda *a: NS(args=a), render_template=render)
    fn = extract_method('dashlive/server/requesthandler/manifest_requests.py', 'ServeManifest', 'get', {
        'flask': fl, 'logging': logging, 'html': html, 'math': math, 'current_manifest': mft, 'current_stream': NS(title='t'),
        'ManifestContext': lambda **kw: NS(**kw), 'ManifestTemplateContext': object, 'cast': lambda t, v: v,
        'add_allowed_origins': lambda h, methods=None: None})
    me = NS(calculate_options=calc, create_context=create_context,
            check_for_synthetic_manifest_error=lambda o, c: NS(args=('synthetic', g('code'))) if b('synthetic_error') else None)
    env = {k: b(k) for k in ('bad_options', 'opt_patch', 'opt_timeline', 'feat_timeline', 'mft_timeline', 'synthetic_error', 'has_mup')}
    env.update(mup_num=g('mup_num'), mup_den=g('mup_den'), code=g('code'),
               max_age_is=lambda h, v: h.get('Cache-Control') == f'max-age={v}')

    def call():
        r = fn(me, variant, 'stream', 'name.mpd')
        a = r.args
        if a[0] == 'synthetic':
            return NS(status=a[1], kind='synthetic')
        if isinstance(a[0], tuple):
            return NS(status=a[0][1], kind='manifest', body=NS(options=captured['options']), headers=a[0][2])
        return NS(status=a[1], kind='error')
    return {'env': env, 'old_env': dict(env), 'call': call}


def build_serve_patch(i):
    import datetime
    import html
    import logging
    import math
    from fractions import Fraction
    b = lambda k: bool(i[k])
    g = lambda k: int(i[k])

    class Opts(NS):
        def update(self, **kw):
            self.__dict__.update(kw)

        def remove_unused_parameters(self, mode):
            pass
    seen = {}

    def calc(**kw):
        seen['mode'] = kw.get('mode')
        if b('bad_options'):
            raise ValueError('bad')
        return Opts(patch=b('opt_patch'), segmentTimeline=b('opt_timeline'))
    captured = {}

    def render(name, **ctx):
        captured.update(options=ctx['options'], opt=ctx['original_publish_time'], mpd=ctx.get('mpd'))
        return 'BODY'

    def create_context(**kw):
        d = dict(kw)
        if b('has_mup'):
            d['minimumUpdatePeriod'] = Fraction(g('mup_num'), g('mup_den'))
        return d
    feats = set()
    if b('feat_patch'):
        feats.add('patch')
    if b('feat_timeline'):
        feats.add('segmentTimeline')
    mft = NS(features=feats, restrictions={'mode': {'live', 'vod'} if b('mode_live_allowed') else {'vod'}})
    fl = NS(request=NS(args={}), make_response=lambda *a: NS(args=a), render_template=render)
    if g('publish_s') > 4 * 10**9:
        raise ValueError('timestamp out of range for a native datetime')
    EPOCH = datetime.datetime(1970, 1, 1, tzinfo=datetime.timezone.utc)
    from contracts.errors_fields import CONTEXT_FIELDS
    if abs(g('ctx_publish_us')) > 4 * 10**15 or abs(g('ctx_now_us')) > 4 * 10**15:
        raise ValueError('instant out of range for a native datetime')

    def manifest_context(**kw):
        c = NS(**kw)
        for name in CONTEXT_FIELDS:
            setattr(c, name, ('ctx', name))
        c.publishTime = EPOCH + datetime.timedelta(microseconds=g('ctx_publish_us'))
        c.now = EPOCH + datetime.timedelta(microseconds=g('ctx_now_us'))
        return c

    def context_untouched(mpd):
        return all(getattr(mpd, name, None) == ('ctx', name) for name in CONTEXT_FIELDS) and \
            mpd.publishTime == EPOCH + datetime.timedelta(microseconds=g('ctx_publish_us')) and \
            mpd.now == EPOCH + datetime.timedelta(microseconds=g('ctx_now_us'))
    fn = extract_method('dashlive/server/requesthandler/manifest_requests.py', 'ServePatch', 'get', {
        'flask': fl, 'logging': logging, 'html': html, 'math': math, 'datetime': datetime, 'UTC': lambda: datetime.timezone.utc,
        'current_manifest': mft, 'current_stream': NS(title='t'), 'primary_profiles': {}, 'ManifestContext': manifest_context,
        'PatchTemplateContext': object, 'cast': lambda t, v: v, 'add_allowed_origins': lambda h, methods=None: None})
    me = NS(calculate_options=calc, create_context=create_context)
    env = {k: b(k) for k in ('bad_options', 'opt_patch', 'opt_timeline', 'feat_timeline', 'feat_patch', 'mode_live_allowed', 'has_mup')}
    env.update(mup_num=g('mup_num'), mup_den=g('mup_den'), publish_s=g('publish_s'),
               max_age_is=lambda h, v: h.get('Cache-Control') == f'max-age={v}', context_untouched=context_untouched,
               micros=lambda dt: (dt - EPOCH) // datetime.timedelta(microseconds=1))

    def call():
        r = fn(me, 'stream', 'name', g('publish_s'))
        a = r.args
        if isinstance(a[0], tuple):
            return NS(status=a[0][1], kind='patch', body=NS(options=captured['options'], original_publish_time=captured['opt'], mpd=captured['mpd']), headers=a[0][2])
        return NS(status=a[1], kind='error')
    return {'env': env, 'old_env': dict(env), 'call': call}


def build(key, variant, i):
    qual = key.split(':')[1]
    if qual == 'ServePatch.get':
        return build_serve_patch(i)
    if qual == 'ServeManifest.get':
        return build_serve_manifest(variant, i)
    if qual.endswith('calculate_injected_error_segments'):
        return build_injected(variant, i)
    inc = extract_method(BASE, 'RequestHandlerBase', 'increment_error_counter', {'flask': flask})
    rst = extract_method(BASE, 'RequestHandlerBase', 'reset_error_counter', {'flask': flask})
    me = NS()
    me.increment_error_counter = lambda u, c: inc(me, u, c)
    me.reset_error_counter = lambda u, c: rst(me, u, c)
    app = flask.Flask('replay')
    app.secret_key = 'k'
    code, usage = int(i['code']), (variant or 'video')
    skey = f'error-{usage}-{code:06d}'
    absent, stored_none, stored = bool(i['absent']), bool(i['stored_none']), int(i['stored'])
    counter_none = absent or stored_none
    state = {}
    sess = NS(value=None, absent=True, writes=0)
    env = {'absent': absent, 'stored_none': stored_none, 'stored': stored, 'code': code, 'pos': int(i['pos']),
           'seg_num': int(i['seg_num']), 'fc': int(i['fc']), 'fc_none': bool(i['fc_none']),
           'counter_none': counter_none, 'count0': 0 if counter_none else stored, '__session__': sess,
           'session_value': lambda s: s.value, 'session_is_none': lambda s: s.absent or s.value is None,
           'unchanged': lambda s: s.writes == 0}

    def run(f):
        with app.test_request_context('/x'):
            if not absent:
                flask.session[skey] = None if stored_none else stored
            before = dict(flask.session)
            r = f()
            sess.absent = skey not in flask.session
            sess.value = flask.session.get(skey)
            sess.writes = 0 if dict(flask.session) == before else 1
            return r
    if qual.endswith('increment_error_counter'):
        return {'env': env, 'old_env': dict(env), 'call': lambda: run(lambda: inc(me, usage, code))}
    if qual.endswith('reset_error_counter'):
        return {'env': env, 'old_env': dict(env), 'call': lambda: run(lambda: rst(me, usage, code))}
    if qual.endswith('check_for_synthetic_manifest_error'):
        import datetime
        EPOCH = datetime.datetime(1970, 1, 1, tzinfo=datetime.timezone.utc)
        g = lambda k: int(i[k])
        us = datetime.timedelta(microseconds=1)
        ast_ = EPOCH + (86400 * 10**6 * g('ast_day') + 10**6 * g('ast_sec') + g('ast_usec')) * us
        pos_t = EPOCH + (86400 * 10**6 * g('pos_day') + 10**6 * g('pos_sec') + g('pos_usec')) * us
        now = EPOCH + g('now_us') * us
        mchk = extract_method('dashlive/server/requesthandler/manifest_requests.py', 'ServeManifest',
                              'check_for_synthetic_manifest_error', {'flask': flask, 'datetime': datetime,
                                                                     'OptionsContainer': object, 'ManifestTemplateContext': object})
        usage = 'manifest'
        skey = f'error-{usage}-{code:06d}'
        options = NS(manifestErrors=[(code, g('pos') if variant == 'number' else pos_t)],
                     updateCount=None if i['uc_none'] else g('update_count'), availabilityStartTime=ast_,
                     minimumUpdatePeriod=g('mup'), failureCount=None if i['fc_none'] else g('fc'))
        env.update({k: g(k) for k in ('ast_day', 'ast_sec', 'ast_usec', 'pos_day', 'pos_sec', 'pos_usec', 'now_us', 'mup', 'update_count')})
        env['uc_none'] = bool(i['uc_none'])
        env['__facts__'] = 0 <= g('ast_sec') < 86400 and 0 <= g('ast_usec') < 10**6 and 0 <= g('pos_sec') < 86400 and 0 <= g('pos_usec') < 10**6

        def run_m(f):
            with app.test_request_context('/x'):
                if not absent:
                    flask.session[skey] = None if stored_none else stored
                before = dict(flask.session)
                r = f()
                sess.absent = skey not in flask.session
                sess.value = flask.session.get(skey)
                sess.writes = 0 if dict(flask.session) == before else 1
                return r

        def call_m():
            r = run_m(lambda: mchk(me, options, {'mpd': NS(now=now)}))
            return None if r is None else NS(status=r.status_code)
        return {'env': env, 'old_env': dict(env), 'call': call_m}
    chk = extract_method(MRQ, 'MediaRequestBase', 'check_for_synthetic_http_error', {'flask': flask, 'OptionsContainer': object})
    lists = {'audioErrors': [], 'videoErrors': [], 'textErrors': []}
    lists[{'video': 'videoErrors', 'audio': 'audioErrors', 'text': 'textErrors'}[variant]] = [(code, int(i['pos']))]
    options = NS(failureCount=None if i['fc_none'] else int(i['fc']), **lists)

    def call():
        r = run(lambda: chk(me, variant, int(i['seg_num']), options))
        return None if r is None else NS(status=r.status_code)
    return {'env': env, 'old_env': dict(env), 'call': call}


def _injected(errors, now, ast_, depth, ts, sd):
    import datetime
    import urllib.parse
    from dashlive.utils.date_time import scale_timedelta
    fn = extract_method('dashlive/server/requesthandler/manifest_context.py', 'ManifestContext', 'calculate_injected_error_segments',
                        {'urllib': urllib, 'scale_timedelta': scale_timedelta, 'Representation': object})
    return urllib.parse.unquote_plus(fn(errors, now, ast_, depth, NS(timescale=ts, segment_duration=sd)))


def build_injected(variant, i):
    import datetime
    EPOCH = datetime.datetime(1970, 1, 1, tzinfo=datetime.timezone.utc)
    g = lambda k: int(i[k])
    us = datetime.timedelta(microseconds=1)
    ast_ = EPOCH + (86400 * 10**6 * g('ast_day') + 10**6 * g('ast_sec') + g('ast_usec')) * us
    pos_t = EPOCH + (86400 * 10**6 * g('pos_day') + 10**6 * g('pos_sec') + g('pos_usec')) * us
    now = EPOCH + g('now_us') * us
    code = None if variant.endswith('-nocode') else g('code')
    pos = g('pos') if variant.startswith('number') else pos_t
    env = {k: g(k) for k in ('code', 'pos', 'ast_day', 'ast_sec', 'ast_usec', 'pos_day', 'pos_sec', 'pos_usec', 'now_us', 'depth', 'ts', 'sd')}
    env['__facts__'] = 0 <= g('ast_sec') < 86400 and 0 <= g('ast_usec') < 10**6 and 0 <= g('pos_sec') < 86400 and 0 <= g('pos_usec') < 10**6
    env['drops_are'] = lambda x, *parts: x == ''.join(str(p) for p in parts)
    env['empty_list'] = lambda x: x == ''
    return {'env': env, 'call': lambda: _injected([(code, pos)], now, ast_, g('depth'), g('ts'), g('sd'))}


def finding_error_time_ignores_start_number(i):
    """C16: an error addressed by wall-clock time is translated to floor((t - AST) * timescale / segment_duration); the
    segment whose interval contains t has number start_number + that value (LiveMedia maps number n to time
    (n - start_number) * segment_duration), so with start_number 1 the error fires for the segment before."""
    import datetime
    ts, sd, sn = int(i['ts']), int(i['sd']), int(i['sn'])
    ast_ = datetime.datetime(2024, 3, 1, 10, 0, 0, tzinfo=datetime.timezone.utc)
    tm = ast_ + datetime.timedelta(seconds=int(i['offset_s']))
    now = tm + datetime.timedelta(seconds=1)
    text = _injected([(503, tm)], now, ast_, 3600, ts, sd)
    drop = int(text.split('=')[1])
    tc = int(i['offset_s']) * ts
    lo, hi = (drop - sn) * sd, (drop - sn + 1) * sd          # the interval LiveMedia serves for $Number$ = drop
    return not (lo <= tc < hi), f'time {tm.time()} (tick {tc}) -> "{text}": segment {drop} covers ticks [{lo}, {hi}); the segment containing the time is {sn + tc // sd}'
