"""Native builders for the `errors` group: the real counter methods and check_for_synthetic_http_error, extracted from
the source text, run inside a Flask request context with a real session."""
from types import SimpleNamespace as NS

import flask

from contracts.rep_native import extract_method

BASE = 'dashlive/server/requesthandler/base.py'
MRQ = 'dashlive/server/requesthandler/media_requests.py'


def build(key, variant, i):
    qual = key.split(':')[1]
    inc = extract_method(BASE, 'RequestHandlerBase', 'increment_error_counter', {'flask': flask})
    rst = extract_method(BASE, 'RequestHandlerBase', 'reset_error_counter', {'flask': flask})
    me = NS()
    me.increment_error_counter = lambda u, c: inc(me, u, c)
    me.reset_error_counter = lambda u, c: rst(me, u, c)
    app = flask.Flask('replay')
    app.secret_key = 'k'
    code, usage = int(i['code']), (variant or 'video')
    skey = f'error-{usage}-{code:06d}'
    absent, stored_none, stored = bool(i['absent']), bool(i['stored_none']), int(i['stored'])
    counter_none = absent or stored_none
    state = {}
    sess = NS(value=None, absent=True, writes=0)
    env = {'absent': absent, 'stored_none': stored_none, 'stored': stored, 'code': code, 'pos': int(i['pos']),
           'seg_num': int(i['seg_num']), 'fc': int(i['fc']), 'fc_none': bool(i['fc_none']),
           'counter_none': counter_none, 'count0': 0 if counter_none else stored, '__session__': sess,
           'session_value': lambda s: s.value, 'session_is_none': lambda s: s.absent or s.value is None,
           'unchanged': lambda s: s.writes == 0}

    def run(f):
        with app.test_request_context('/x'):
            if not absent:
                flask.session[skey] = None if stored_none else stored
            before = dict(flask.session)
            r = f()
            sess.absent = skey not in flask.session
            sess.value = flask.session.get(skey)
            sess.writes = 0 if dict(flask.session) == before else 1
            return r
    if qual.endswith('increment_error_counter'):
        return {'env': env, 'old_env': dict(env), 'call': lambda: run(lambda: inc(me, usage, code))}
    if qual.endswith('reset_error_counter'):
        return {'env': env, 'old_env': dict(env), 'call': lambda: run(lambda: rst(me, usage, code))}
    chk = extract_method(MRQ, 'MediaRequestBase', 'check_for_synthetic_http_error', {'flask': flask, 'OptionsContainer': object})
    lists = {'audioErrors': [], 'videoErrors': [], 'textErrors': []}
    lists[{'video': 'videoErrors', 'audio': 'audioErrors', 'text': 'textErrors'}[variant]] = [(code, int(i['pos']))]
    options = NS(failureCount=None if i['fc_none'] else int(i['fc']), **lists)

    def call():
        r = run(lambda: chk(me, variant, int(i['seg_num']), options))
        return None if r is None else NS(status=r.status_code)
    return {'env': env, 'old_env': dict(env), 'call': call}
