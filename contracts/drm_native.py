"""Native builders for the `drm` group (C10): real DRM classes; the handler is extracted from the source text."""
import logging
from types import SimpleNamespace as NS

import flask

from contracts.rep_native import extract_method
from dashlive.drm.clearkey import ClearKey
from dashlive.drm.location import DrmLocation
from dashlive.drm.marlin import Marlin
from dashlive.drm.playready import PlayReady
from dashlive.drm.keymaterial import KeyMaterial

MRQ = 'dashlive/server/requesthandler/media_requests.py'
BOOLS = ('has_representation', 'encrypted', 'has_mehd', 'pr_selected', 'pr_moov', 'ck_selected', 'ck_moov', 'ml_selected',
         'loc_moov', 'loc_cenc', 'loc_pro')
KIDS = {f'kid{k}': ('%02x' % (k + 1)) * 16 for k in range(3)}


def children_are(x, *names):
    if x is None or len(x) != len(names):
        return False
    return all((isinstance(it, NS) and it.system == n[5:]) if n.startswith('pssh:') else it == n for it, n in zip(x, names))


DCX = 'dashlive/server/requesthandler/drm_context.py'
IMPL = {'playready': 'PlayReady', 'marlin': 'Marlin', 'clearkey': 'ClearKey'}


def build_drm_context(qual, variant):
    from contracts.clearkey_native import extract_class
    from dashlive.drm.system import DrmSystem
    sel = [n for n in variant.split('+') if n and n != 'none']

    def impl(cls_name):
        def gmc(self, stream, keys, options, https_request=None, la_url=None, locations=None):
            return NS(by=cls_name, stream=stream, keys=keys, options=options, la_url=la_url, locations=locations, https_request=https_request)
        return type(cls_name, (), {'generate_manifest_context': gmc})

    class Args:
        def get(self, k, default=None):
            return 'la_url:' + k
    glb = {'flask': NS(request=NS(args=Args())), 'DrmSystem': DrmSystem, 'is_https_request': lambda: False, 'Stream': type('Stream', (), {}),
           'OptionsContainer': object, 'DrmManifestContext': object, 'DrmLocationTuple': tuple}
    glb.update({c: impl(c) for c in IMPL.values()})
    it_cls = extract_class(DCX, 'DrmContextIterator', glb)
    if qual == 'DrmContextIterator.__next__':
        n = int(variant[0])
        it = it_cls.__new__(it_cls)
        it.contexts = [f'ctx{k}' for k in range(n)]
        return {'env': {'self': it, 'is_named': lambda x, nm: x == nm, 'names_are': lambda xs, names: list(xs) == list(names)},
                'call': lambda: next(it) if False else it_cls.__next__(it)}
    cls = extract_class(DCX, 'DrmContext', glb)
    options = NS(drmSelection=[(n, f'locations:{n}') for n in sel], **{n: f'options:{n}' for n in IMPL})
    stream, keys = glb['Stream'](), object()
    env = {'options': options, 'stream': stream, 'keys': keys,
           'is_impl': lambda x, c: type(x).__name__ == c, 'is_locations': lambda x, n: x == f'locations:{n}',
           'built_by': lambda ctx, c, n: ctx.by == c and ctx.locations == f'locations:{n}' and ctx.options == f'options:{n}' and
           ctx.la_url == f'la_url:{n}_la_url'}
    if qual.endswith('generate_drm_location_tuples'):
        return {'env': env, 'call': lambda: cls.generate_drm_location_tuples(options)}
    return {'env': env, 'call': lambda: iter(cls(stream, keys, options))}


def build(key, variant, i):
    qual = key.split(':')[1]
    if qual.startswith('DrmContext.') or qual.startswith('DrmContextIterator.'):
        return build_drm_context(qual, variant)
    b = {k: bool(i[k]) for k in BOOLS}
    env = dict(b, children_are=children_are, is_hook=callable, same=lambda a, c: a == c,
               pssh_all_for_default_kid=lambda xs: all(not isinstance(it, NS) or it.for_kid == 'default_kid' for it in xs))
    if qual == 'MediaRequestBase.generate_init_segment':
        class Mvex:
            def __delattr__(self, name):
                if name == 'mehd' and b['has_mehd']:
                    moov.__dict__['mehd_removed'] = True
                    return
                raise AttributeError(name)

        class Moov:
            def __init__(self):
                self.children = ['mvhd', 'mvex', 'trak']
                self.mehd_removed = False
                self.mvex = Mvex()

            def append_child(self, box):
                self.children.append(box)

            def __delattr__(self, name):
                raise AttributeError(name)           # mehd is never a direct child of moov
        moov = Moov()
        atom = NS(moov=moov, encode=lambda: NS(children=list(moov.children), mehd_removed=moov.mehd_removed))

        def drm_context(stream, keys, options):
            out = []
            for name, sel, mv in (('clearkey', 'ck_selected', 'ck_moov'), ('marlin', 'ml_selected', None), ('playready', 'pr_selected', 'pr_moov')):
                if not b[sel]:
                    continue
                hook = (lambda n: (lambda kid: NS(system=n, for_kid=kid)))(name) if (mv and b[mv]) else None
                out.append(NS(system=name, moov=hook))
            return out
        rep = NS(encrypted=b['encrypted'], kids=['kid_a', 'kid_b'], default_kid='default_kid') if b['has_representation'] else None
        media = NS(representation=rep, content_type='video', codec_fourcc='avc1')
        fn = extract_method(MRQ, 'MediaRequestBase', 'generate_init_segment', {
            'flask': flask, 'logging': logging, 'models': NS(Key=NS(get_kids=lambda kids: {}), MediaFile=object),
            'DrmContext': drm_context, 'current_stream': object(), 'content_type_to_mime_type': lambda a, c: 'video/mp4',
            'add_allowed_origins': lambda h: None, 'OptionsContainer': object})
        me = NS(check_for_synthetic_http_error=lambda *a: None, load_fragment=lambda m, idx, o: atom)
        app = flask.Flask('replay')
        captured = {}
        real_make = flask.make_response

        def call():
            with app.test_request_context('/x'):
                saved = flask.make_response
                flask.make_response = lambda *a: (captured.update(args=a) or real_make('x', a[0][1] if isinstance(a[0], tuple) else a[1]))
                try:
                    r = fn(me, media, variant, NS())
                finally:
                    flask.make_response = saved
            a = captured['args']
            return NS(status=r.status_code, data=a[0][0] if isinstance(a[0], tuple) else None)
        return {'env': env, 'old_env': dict(env), 'call': call}
    locations = {loc for loc, k in ((DrmLocation.MOOV, 'loc_moov'), (DrmLocation.CENC, 'loc_cenc'), (DrmLocation.PRO, 'loc_pro')) if b[k]}
    unwrap = lambda r: NS(moov=r.moov, cenc=r.cenc, pro=r.pro, system=str(getattr(r.system, 'value', r.system)).lower(), version=r.version)
    if qual == 'PlayReady.generate_manifest_context':
        version = float(variant[1:])
        opts = NS(version=version, licenseUrl=None)
        return {'env': env, 'call': lambda: unwrap(PlayReady().generate_manifest_context(
            NS(playready_la_url=None), {}, opts, la_url='http://la', https_request=False, locations=locations))}
    if qual == 'ClearKey.generate_manifest_context':
        return {'env': env, 'call': lambda: unwrap(ClearKey().generate_manifest_context(
            None, {}, NS(), la_url='http://la', https_request=False, locations=locations))}
    if qual == 'Marlin.generate_manifest_context':
        return {'env': env, 'call': lambda: unwrap(Marlin().generate_manifest_context(
            NS(marlin_la_url='http://m'), {}, NS(licenseUrl=None), la_url=None, https_request=False, locations=locations))}
    raw = lambda x: bytes(getattr(x, 'data', x))
    env['kid_names'] = lambda xs, *names: [raw(x) for x in xs] == [KeyMaterial(KIDS[n]).raw for n in names]
    if qual == 'PlayReady.generate_pssh':
        nkeys = int(variant[0])
        keys = {KIDS[f'kid{k}']: object() for k in range(nkeys)}
        env.update(the_pro=b'PRO-BYTES', playready_system_id=PlayReady.RAW_SYSTEM_ID)
        env['same'] = lambda a, c: raw(a) == raw(c)

        def call():
            pr = PlayReady()
            pr.generate_pro = lambda la, kid, ks, ca: b'PRO-BYTES'
            return pr.generate_pssh('http://la', KIDS['kid0'], keys, None)
        return {'env': env, 'call': call}
    if qual == 'ClearKey.generate_pssh':
        keys = {KIDS['kid0']: object(), KIDS['kid1']: object()}
        env.update(clearkey_system_id=ClearKey.RAW_PSSH_SYSTEM_ID)
        env['same'] = lambda a, c: raw(a) == raw(c)
        return {'env': env, 'call': lambda: ClearKey().generate_pssh(KIDS['kid0'], keys)}
    raise KeyError(qual)
