"""Native builders for the `rep` group: concrete Representation / DashTiming / reference objects.
LiveMedia / ServeMpsMedia methods live in a module that cannot be imported offline (flask_login is not
installed), so they are extracted mechanically from the source text and exec'd with their real free names."""
import ast
import datetime
import logging
import math
import os
import textwrap
from typing import NamedTuple

from dashlive.mpeg.dash.reference import StreamTimingReference
from dashlive.mpeg.dash.representation import Representation
from dashlive.mpeg.dash.segment import Segment
from dashlive.mpeg.dash.timing import DashTiming
from dashlive.utils.timezone import UTC

REPO = os.environ.get('PYVC_REPO', '/repo')
EPOCH = datetime.datetime(1970, 1, 1, tzinfo=UTC())


class SegmentPosition(NamedTuple):
    mod_segment: int
    origin_time: int
    seg_num: int


def extract_method(relpath, cls_name, meth, extra_ns=None):
    src = open(os.path.join(REPO, relpath)).read()
    tree = ast.parse(src)
    for cls in tree.body:
        if isinstance(cls, ast.ClassDef) and cls.name == cls_name:
            for fn in cls.body:
                if isinstance(fn, ast.FunctionDef) and fn.name == meth:
                    ns = {'datetime': datetime, 'logging': logging, 'math': math, 'SegmentPosition': SegmentPosition,
                          'Representation': Representation, 'DashTiming': DashTiming, 'cast': lambda t, v: v}
                    ns.update(extra_ns or {})
                    fn.returns = None
                    for a in fn.args.args:
                        a.annotation = None
                    mod = ast.Module(body=[fn], type_ignores=[])
                    for node in ast.walk(mod):
                        if isinstance(node, ast.AnnAssign) and node.value is None:
                            node.annotation = ast.Constant(None)
                    exec(compile(ast.fix_missing_locations(mod), relpath, 'exec'), ns)
                    return ns[meth]
    raise KeyError(f'{cls_name}.{meth}')


def make_timing(mode, ref, i):
    t = DashTiming.__new__(DashTiming)
    t.mode = mode
    t.stream_reference = ref
    us = lambda k, dflt=0: datetime.timedelta(microseconds=int(i.get(k, dflt)))
    t.elapsedTime = us('E')
    t.firstAvailableTime = us('F')
    t.leeway = us('W')
    t.timeShiftBufferDepth = int(i.get('B', 0))
    t.now = EPOCH + datetime.timedelta(days=365 * 50)
    t.availabilityStartTime = t.now - t.elapsedTime
    t.publishTime = t.now.replace(microsecond=0)
    t.minimumUpdatePeriod = None
    t.mediaDuration = datetime.timedelta(0)
    return t


def make_rep(i, mode='live'):
    d = [int(x) for x in i['d']]
    ts = int(i['ts'])
    # R is a free constant in most VCs; realise it with Rref = R at the representation's own timescale
    if i.get('use_ref'):
        Rref, tsref = int(i['Rref']), int(i['tsref'])
    else:
        Rref, tsref = int(i['R']), ts
    ref = StreamTimingReference(media_name='ref', media_duration=Rref, num_media_segments=int(i.get('ref_n', len(d))),
                                segment_duration=int(i.get('ref_sd', i.get('sd', 1))), timescale=tsref)
    pos = i.get('pos') or [100 + 50 * k for k in range(len(d) + 1)]
    size = i.get('size') or [50] * (len(d) + 1)
    segs = [Segment(pos=int(pos[0]), size=int(size[0]))]
    for k, dur in enumerate(d):
        segs.append(Segment(pos=int(pos[k + 1]), size=int(size[k + 1]), duration=dur))
    rep = Representation(id='r1', content_type='video', segments=segs, timescale=ts,
                         segment_duration=int(i.get('sd', 1)), start_number=int(i.get('sn', 1)),
                         start_time=int(i.get('t0', 0)), track_id=int(i.get('track_id', 1)))
    rep.set_dash_timing(make_timing(mode, ref, i))
    return rep, ref


def spec_env(rep, ref, i):
    d = [None] + [s.duration for s in rep.segments[1:]]
    S = [0]
    for x in d[1:]:
        S.append(S[-1] + x)
    ts = rep.timescale
    R = ref.media_duration * ts // ref.timescale
    one_us = datetime.timedelta(microseconds=1)
    return {
        'n': rep.num_media_segments, 'ts': ts, 'sd': rep.segment_duration, 'sn': rep.start_number,
        't0': rep.start_time, 'Rref': ref.media_duration, 'tsref': ref.timescale, 'R': R, 'M': S[-1],
        'd': lambda k: d[k] if 1 <= k < len(d) else 0, 'S': lambda k: S[k] if 0 <= k < len(S) else 0,
        'pos': lambda k: rep.segments[k].pos, 'size': lambda k: rep.segments[k].size,
        'rep_valid': rep.num_media_segments >= 2 and ts >= 1 and (rep.segment_duration or 0) >= 1 and all(x >= 1 for x in d[1:]),
        'E': int(i.get('E', 0)), 'F': int(i.get('F', 0)), 'W': int(i.get('W', 0)), 'B': int(i.get('B', 0)),
        'live_clock': int(i.get('E', 0)) >= 0 and int(i.get('B', 0)) >= 0 and int(i.get('W', 0)) >= 0
        and int(i.get('F', 0)) == int(i.get('E', 0)) - 10**6 * int(i.get('B', 0)) and int(i.get('F', 0)) >= 0,
        'Lof': lambda tc: rep.get_segment_index(tc)[2] // R if R > 0 else 0,
        'Mof': lambda tc: rep.get_segment_index(tc)[0],
        'micros': lambda td: td // one_us, 'zmax': max, 'zmin': min,
    }


def build_live_get(variant, i):
    import html
    import logging
    import flask
    from types import SimpleNamespace as NS
    b = lambda k: bool(i[k])
    seg_text = 'init' if b('seg_is_init') else (str(int(i['seg_value'])) if b('seg_is_number') else 'x7')
    if b('seg_is_init') and b('seg_is_number'):
        raise ValueError('the text cannot be both "init" and a number')
    by_time = variant.endswith('-time')
    variant = variant.split('-')[0]
    mf = NS(representation=NS(encrypted=b('rep_encrypted')), content_type=variant)
    stream = NS(timing_reference=None if b('no_timing_reference') else object())

    class Opts(NS):
        def update(self, **kw):
            self.__dict__.update(kw)

    def calc(mode, args, stream_):
        if b('bad_options'):
            raise ValueError('bad')
        return Opts(encrypted=b('options_encrypted'), segmentTimeline=None)
    fn = extract_method('dashlive/server/requesthandler/media_requests.py', 'LiveMedia', 'get',
                        {'flask': flask, 'logging': logging, 'html': html, 'current_media_file': mf, 'current_stream': stream})
    me = NS(calculate_options=calc,
            generate_init_segment=lambda media, mode, options: NS(status_code=200, what='init', mode=mode),
            generate_media_segment=lambda **kw: NS(status_code=200, what='media', args=kw))
    env = {k: b(k) for k in ('rep_encrypted', 'seg_is_init', 'seg_is_number', 'no_timing_reference', 'bad_options', 'options_encrypted')}
    env['seg_value'] = int(i['seg_value'])
    app = flask.Flask('replay')

    def call():
        with app.test_request_context('/x'):
            r = fn(me, 'live', 'stream', 'file', 'mp4', None, int(i['seg_value'])) if by_time else \
                fn(me, 'live', 'stream', 'file', 'mp4', seg_text, None)
        return NS(status=r.status_code, what=getattr(r, 'what', 'error'), mode=getattr(r, 'mode', None), args=getattr(r, 'args', None))
    return {'env': env, 'old_env': dict(env), 'call': call}


def build(key, variant, i):
    qual = key.split(':')[1]
    if qual == 'LiveMedia.get':
        return build_live_get(variant, i)
    if 'd' not in i:
        raise ValueError('model has no finite duration list (n too large or missing)')
    mode = 'vod' if variant.startswith(('vod', 'fixups', 'range')) else 'live'
    rep, ref = make_rep(i, mode)
    env = spec_env(rep, ref, i)
    env['self'] = rep
    geti = lambda k: None if i.get(k) is None else int(i[k])
    if qual == 'StreamTimingReference.media_duration_using_timescale':
        rep, ref = make_rep(dict(i, use_ref=True), mode)
        env = spec_env(rep, ref, i)
        env.update(self=ref, timescale=rep.timescale)
        return {'env': env, 'call': lambda: ref.media_duration_using_timescale(rep.timescale)}
    if qual == 'Representation.get_segment_index':
        env['timecode'] = int(i['timecode'])
        return {'env': env, 'call': lambda: rep.get_segment_index(int(i['timecode']))}
    if qual == 'Representation.calculate_segment_from_timecode':
        env.update(timecode=int(i['timecode']), drift_compensate=True)
        return {'env': env, 'call': lambda: rep.calculate_segment_from_timecode(int(i['timecode']), True)}
    if qual == 'Representation.timescale_to_timedelta':
        env['timecode'] = int(i['timecode'])
        return {'env': env, 'call': lambda: rep.timescale_to_timedelta(int(i['timecode']))}
    if qual == 'Representation.calculate_first_and_last_segment_number':
        return {'env': env, 'call': lambda: rep.calculate_first_and_last_segment_number()}
    if qual == 'Representation.calculate_segment_number_and_time':
        num = geti('segment_num') if variant.endswith('number') else None
        tim = geti('segment_time') if variant.endswith('time') else None
        env.update(segment_num=num, segment_time=tim)
        return {'env': env, 'call': lambda: tuple(rep.calculate_segment_number_and_time(tim, num))}
    if qual == 'LiveMedia.calculate_media_segment_index':
        fn = extract_method('dashlive/server/requesthandler/media_requests.py', 'LiveMedia', 'calculate_media_segment_index')
        num = geti('seg_num') if variant.endswith('number') else None
        tim = geti('seg_time') if variant.endswith('time') else None
        env.update(seg_num=num, seg_time=tim, mode=mode, representation=rep, timing=rep._timing)
        return {'env': env, 'call': lambda: tuple(fn(None, mode, rep, rep._timing, num, tim))}
    if qual == 'MediaRequestBase.generate_media_segment':
        return build_gms(variant, i, mode, rep, ref, env)
    if qual == 'Representation.generateSegmentList':
        return {'env': env, 'call': lambda: rep.generateSegmentList()}
    if qual == 'Representation.generateSegmentTimeline':
        n, R, M = env['n'], env['R'], env['M']
        if mode == 'live':
            tl0 = (env['ts'] * env['F']) // 10**6
            m0, origin, start = rep.calculate_segment_from_timecode(tl0, True)
            drift, end = R - M, env['B'] * env['ts']
        else:
            tl0, m0, origin, start, drift, end = 0, 1, 0, 0, 0, R
        dcan = lambda m: env['d'](m) + (drift if m == n else 0)
        env.update(tl0=tl0, a0=m0, tl_start=start, origin_time=origin, origin0=origin, end_=end,
                   dx=lambda i: dcan(((i - 1) % n) + 1), optval=lambda x: x,
                   dx_periodic_live=True, dx_periodic_vod=True, __unbounded_hi__=max(4, 4 * n + 8))
        return {'env': env, 'call': lambda: rep.generateSegmentTimeline()}
    raise KeyError(qual)


def build_gms(variant, i, mode, rep, ref, env, msi=None, setup=None):
    """MediaRequestBase.generate_media_segment extracted from the source text and run with stand-ins for what the
    contract treats as abstract (fragment loading / encoding, AdaptationSet, DashTiming construction, Flask)."""
    import io
    import flask
    from types import SimpleNamespace as NS
    fixups = variant.startswith('fixups')
    rng = variant.startswith('range')
    if rng and int(i.get('encoded_len', 0)) > 2_000_000:
        raise ValueError('witness segment too large to realise')          # (a build error, not an observation)
    if fixups or rng:
        variant = 'vod-number-video'
    kind = variant.split('-')[1]
    content_type = variant.split('-')[2]
    with_sidx = '-nosidx' not in variant
    has_tfdt = not variant.endswith('-notfdt')
    from dashlive.mpeg import mp4 as real_mp4
    geti = lambda k: None if i.get(k) is None else int(i[k])
    num = geti('seg_num') if kind == 'number' else None
    tim = geti('seg_time') if kind == 'time' else None
    TF = lambda k: 1000 + 7 * k * k            # an arbitrary stored decode time per fragment
    state = {}
    if msi is None:
        msi = extract_method('dashlive/server/requesthandler/media_requests.py', 'LiveMedia', 'calculate_media_segment_index')

    class Traf:
        """a traf without a tfdt child: tfhd, trun (the order is what index / insert_child see)"""
        def __init__(self):
            self.order = ['tfhd', 'trun']
            self.tfhd = NS(base_data_offset=1234)
            self.trun = NS(flags=int(i.get('trun_flags', 0)))

        def index(self, name):
            return self.order.index(name)

        def insert_child(self, idx, child):
            self.order.insert(idx, 'tfdt')
            self.tfdt = child

        def find_child(self, name):
            return getattr(self, name, None)

    class Atom(NS):
        def encode(self, dest):
            traf = self.moof.traf
            state['encoded'] = NS(sequence_number=self.moof.mfhd.sequence_number,
                                  tfdt=traf.tfdt.base_media_decode_time, has_sidx=hasattr(self, 'sidx'))
            if fixups:
                state['encoded'].__dict__.update(children=list(self.children), tfhd_base=traf.tfhd.base_data_offset,
                                                 saio_cleared=traf.saio.offsets is None)
            if not has_tfdt:
                state['encoded'].__dict__.update(order=list(traf.order), trun_flags=traf.trun.flags,
                                                 tfhd_base=traf.tfhd.base_data_offset, tfdt_version=traf.tfdt.version)
            if rng:
                state['full'] = bytes((k * 11) % 253 for k in range(max(0, int(i['encoded_len']))))
                dest.write(state['full'])
            else:
                dest.write(b'x' * 10)

    def load_fragment(media_file, mod, options, parse_samples=False):
        state['mod'] = mod
        traf = NS(tfdt=NS(base_media_decode_time=TF(mod)), find_child=lambda name: None) if has_tfdt else Traf()
        if fixups:
            traf.tfhd = NS(base_data_offset=int(i.get('stored_base_data_offset', 0)))
            traf.saio, traf.senc = NS(offsets=[77]), NS()
            traf.find_child = lambda name: getattr(traf, name, None)
        a = Atom(moof=NS(mfhd=NS(sequence_number=int(i.get('stored_seq', 0))), traf=traf))
        if fixups:
            a.children = ['styp', 'sidx', 'moof', 'mdat']
            a.index = lambda name: a.children.index(name)
        if with_sidx:
            a.sidx = object()
        return a
    app = flask.Flask('replay')
    evgens = [NS(create_emsg_boxes=lambda **kw: ['emsg'] if i.get('has_event') else [])] if fixups else []
    def ghr(nbytes):
        state['range_arg'] = nbytes
        if rng and i.get('range_present'):
            return (int(i['r_start']), int(i['r_end']), 206, {'Content-Range': 'x'})
        return (None, None, 200, {})

    def corrupt(representation, seg_num, atom, dest, options):
        dest.seek(int(i['cursor_after_corruption']))
    me = NS(check_for_synthetic_http_error=lambda *a: None, load_fragment=load_fragment, apply_video_corruption=corrupt,
            update_traf_if_required=lambda o, t: bool(i.get('traf_modified_by_drm')),
            get_http_range=ghr,
            calculate_media_segment_index=lambda m, r, t, n_, t_: msi(None, m, r, t, n_, t_))
    adp = lambda **kw: NS(content_type=kw['content_type'], representations=[], compute_av_values=lambda: None,
                          set_dash_timing=lambda t: None)
    fn = extract_method('dashlive/server/requesthandler/media_requests.py', 'MediaRequestBase', 'generate_media_segment', {
        'flask': flask, 'io': io, 'AdaptationSet': adp, 'DashTiming': lambda now, ref_, options: rep._timing,
        'UTC': lambda: datetime.timezone.utc, 'EventFactory': NS(create_event_generators=lambda o: evgens),
        'content_type_to_mime_type': lambda a, b: 'video/mp4', 'add_allowed_origins': lambda h: None,
        'mp4': real_mp4, 'models': NS(Stream=object, MediaFile=object),
        'OptionsContainer': object})
    media_file = NS(representation=rep, content_type=content_type, track_id=1, name='x', codec_fourcc='avc1')
    options = NS(mode=mode, segmentTimeline=(kind == 'time'), videoCorruption=[int(i.get('corrupt_seg', 1))] if rng else None)
    rep.encrypted = fixups
    env.update(has_event=bool(i.get('has_event')), traf_modified_by_drm=bool(i.get('traf_modified_by_drm')),
               stored_base_data_offset=int(i.get('stored_base_data_offset', 0)))
    env.update(seg_num=num, seg_time=tim, TF=TF, mode=mode, trun_flags=int(i.get('trun_flags', 0)),
               order_is=lambda x, *names: list(x) == list(names))

    def call():
        with app.test_request_context('/x'):
            if setup:
                setup()
            r = fn(me, NS(timing_reference=ref), media_file, mode, options, num, tim)
        return NS(status=r.status_code, data=r.get_data() if rng else state.get('encoded'))

    def post_env():
        return {'served_mod': state.get('mod'), 'range_arg': state.get('range_arg')}
    if rng:
        env.update({k: int(i[k]) for k in ('encoded_len', 'cursor_after_corruption', 'r_start', 'r_end', 'corrupt_seg')},
                   range_present=bool(i['range_present']),
                   is_window=lambda d, lo, hi: d == state['full'][lo:hi], is_whole=lambda d: d == state['full'])
    return {'env': env, 'call': call, 'post_env': post_env}


def adapt(key, result, env):
    if key.endswith('generateSegmentTimeline'):
        from types import SimpleNamespace as NS
        out, a, t = [], env['a0'], env['tl_start']
        for node in result:
            out.append(NS(duration=node.duration, count=node.count, start=node.start, mod_segment=node.mod_segment, a=a, t=t))
            a += node.count
            t += node.count * node.duration
        return out
    return result


# ----------------------------------------------------------------------------- recorded findings (compositions)
def finding_number_leeway(i):
    """C01 $Number$: a number whose 5.3.9.5.3 availability window (from manifest values only) contains now is
    refused when the leeway is shorter than two segment durations."""
    from fractions import Fraction
    rep, ref = make_rep(i, 'live')
    fn = extract_method('dashlive/server/requesthandler/media_requests.py', 'LiveMedia', 'calculate_media_segment_index')
    ts, sd, sn = rep.timescale, rep.segment_duration, rep.start_number
    E, B = Fraction(int(i['E']), 10**6), int(i['B'])
    D = Fraction(sd, ts)
    k = int(i['k'])
    in_window = (k + 1) * D <= E <= (k + 2) * D + B
    try:
        fn(None, 'live', rep, rep._timing, sn + k, None)
        refused = False
        obs = 'accepted'
    except ValueError as err:
        refused = True
        obs = f'ValueError: {str(err)[:160]}'
    return in_window and refused, f'number {sn + k}: window contains now={float(E)}s: {in_window}; {obs}'


def finding_cross_track_drift(i):
    """C02: when Rref*ts is not a multiple of tsref the floor in R shortens every loop of this track by a fraction
    of a tick, so after L loops the loop origin of the track and of the reference differ by more than a tick."""
    from fractions import Fraction
    rep, ref = make_rep(dict(i, use_ref=True), 'live')
    ts = rep.timescale
    R = ref.media_duration_using_timescale(ts)
    L = int(i['loops'])
    m, start, origin = rep.get_segment_index(L * R)
    track_s = Fraction(origin, ts)
    ref_s = Fraction(L * ref.media_duration, ref.timescale)
    diff = ref_s - track_s
    return abs(diff) > Fraction(1, ts), f'after {L} loops the track origin is {float(track_s):.6f}s, the reference {float(ref_s):.6f}s (drift {float(diff):.6f}s)'


def _timeline_entries(rep):
    """decode the run-length SegmentTimeline into (t, d) entries"""
    out, t = [], None
    for node in rep.generateSegmentTimeline():
        if node.start is not None:
            t = node.start
        for _ in range(node.count):
            out.append((t, node.duration))
            t += node.duration
    return out


def finding_timeline_entry_refused(i):
    """C01 $Time$: a SegmentTimeline entry that ends no later than now is answered 404 by the media index."""
    rep, ref = make_rep(i, 'live')
    fn = extract_method('dashlive/server/requesthandler/media_requests.py', 'LiveMedia', 'calculate_media_segment_index')
    E, ts = int(i['E']), rep.timescale
    refused = []
    for t, d in _timeline_entries(rep):
        if (t + d) * 10**6 <= E * ts:
            try:
                fn(None, 'live', rep, rep._timing, None, t)
            except ValueError as err:
                refused.append((t, d, str(err)[:100]))
    return bool(refused), (f'{len(refused)} advertised entries refused, first: $Time$={refused[0][0]} d={refused[0][1]} -> '
                           f'{refused[0][2]}' if refused else 'all advertised entries accepted')


def finding_vod_timeline_length(i):
    """C06: the VOD SegmentTimeline must enumerate exactly the stored segments (S(i-1), d(i)), i = 1..n."""
    rep, ref = make_rep(i, 'vod')
    entries = _timeline_entries(rep)
    want, t = [], 0
    for seg in rep.segments[1:]:
        want.append((t, seg.duration))
        t += seg.duration
    return entries != want, f'timeline lists {len(entries)} segments, the file stores {len(want)}; last listed {entries[-1] if entries else None}'
