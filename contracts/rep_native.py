"""Native builders for the `rep` group: concrete Representation / DashTiming / reference objects."""
import datetime

from dashlive.mpeg.dash.reference import StreamTimingReference
from dashlive.mpeg.dash.representation import Representation
from dashlive.mpeg.dash.segment import Segment
from dashlive.mpeg.dash.timing import DashTiming
from dashlive.utils.timezone import UTC

EPOCH = datetime.datetime(1970, 1, 1, tzinfo=UTC())


def make_timing(mode, ref, i):
    t = DashTiming.__new__(DashTiming)
    t.mode = mode
    t.stream_reference = ref
    us = lambda k, dflt=0: datetime.timedelta(microseconds=int(i.get(k, dflt)))
    t.elapsedTime = us('E')
    t.firstAvailableTime = us('F')
    t.leeway = us('W')
    t.timeShiftBufferDepth = int(i.get('B', 0))
    t.now = EPOCH + us('now', 86400 * 10**6 * 365 * 50)
    t.availabilityStartTime = t.now - t.elapsedTime
    t.publishTime = t.now.replace(microsecond=0)
    t.minimumUpdatePeriod = None
    t.mediaDuration = datetime.timedelta(0)
    return t


def make_rep(i, mode='live'):
    d = [int(x) for x in i['d']]
    ts = int(i['ts'])
    # R is a free constant in most VCs; realise it with Rref = R at the representation's own timescale
    if 'Rref' in i and 'tsref' in i and i.get('use_ref'):
        Rref, tsref = int(i['Rref']), int(i['tsref'])
    else:
        Rref, tsref = int(i['R']), ts
    ref = StreamTimingReference(media_name='ref', media_duration=Rref, num_media_segments=int(i.get('ref_n', len(d))),
                                segment_duration=int(i.get('ref_sd', i.get('sd', 1))), timescale=tsref)
    pos = i.get('pos') or [100 + 50 * k for k in range(len(d) + 1)]
    size = i.get('size') or [50] * (len(d) + 1)
    segs = [Segment(pos=pos[0], size=size[0])]
    for k, dur in enumerate(d):
        segs.append(Segment(pos=pos[k + 1], size=size[k + 1], duration=dur))
    rep = Representation(id='r1', content_type='video', segments=segs, timescale=ts,
                         segment_duration=int(i.get('sd', 1)), start_number=int(i.get('sn', 1)),
                         start_time=int(i.get('t0', 0)), track_id=int(i.get('track_id', 1)))
    rep.set_dash_timing(make_timing(mode, ref, i))
    return rep, ref


def spec_env(rep, ref, i):
    d = [None] + [s.duration for s in rep.segments[1:]]
    S = [0]
    for x in d[1:]:
        S.append(S[-1] + x)
    ts = rep.timescale
    return {
        'n': rep.num_media_segments, 'ts': ts, 'sd': rep.segment_duration, 'sn': rep.start_number,
        't0': rep.start_time, 'Rref': ref.media_duration, 'tsref': ref.timescale,
        'R': ref.media_duration * ts // ref.timescale, 'M': S[-1],
        'd': lambda k: d[k] if 1 <= k < len(d) else 0, 'S': lambda k: S[k] if 0 <= k < len(S) else 0,
        'pos': lambda k: rep.segments[k].pos, 'size': lambda k: rep.segments[k].size,
        'rep_valid': rep.num_media_segments >= 2 and ts >= 1 and rep.segment_duration >= 1 and all(x >= 1 for x in d[1:]),
        'E': i.get('E', 0), 'F': i.get('F', 0), 'W': i.get('W', 0), 'B': i.get('B', 0),
    }


def build(key, variant, i):
    qual = key.split(':')[1]
    if 'd' not in i:
        raise ValueError('model has no finite duration list (n too large or missing)')
    mode = 'vod' if 'vod' in variant else 'live'
    rep, ref = make_rep(i, mode)
    env = spec_env(rep, ref, i)
    env['self'] = rep
    if qual == 'StreamTimingReference.media_duration_using_timescale':
        env['self'] = ref
        env['timescale'] = rep.timescale
        return {'env': env, 'call': lambda: ref.media_duration_using_timescale(rep.timescale)}
    if qual == 'Representation.get_segment_index':
        env['timecode'] = int(i['timecode'])
        return {'env': env, 'call': lambda: rep.get_segment_index(int(i['timecode']))}
    raise KeyError(qual)
