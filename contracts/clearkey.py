"""Contracts for dashlive/server/requesthandler/clearkey.py (C11): the base64url helpers against RFC 4648 section 5, bit for
bit, and the licence endpoint: exactly the stored keys whose id was requested, each with its own key, nothing else."""
import z3
from pyvc.vals import *          # noqa: F401,F403
from pyvc.contract import Contract, Loop, Lemma, Group
from pyvc.models.bytesmodel import BSeq, B64Text, bytes_eq, b64_eq, b2a_hex, B64_STD

CK = 'dashlive/server/requesthandler/clearkey.py'
URL_ALPHABET = 'ABCDEFGHIJKLMNOPQRSTUVWXYZabcdefghijklmnopqrstuvwxyz0123456789-_'     # RFC 4648 table 2
NSTORED = 2


def bv(name, n, bits=8):
    return [z3.BitVec(f'{name}{i}', bits) for i in range(n)]


def b64url(b):
    """RFC 4648 section 5 without padding: the input bits in 6-bit groups (the last one zero-filled), each group
    rendered by table 2.  Written from the RFC, independent of models.bytesmodel.b64encode."""
    items = list(b.items)
    out = []
    for k in range(0, len(items), 3):
        grp = items[k:k + 3]
        word = z3.Concat(*grp) if len(grp) > 1 else grp[0]
        nbits = 8 * len(grp)
        fill = (-nbits) % 6
        if fill:
            word = z3.Concat(word, z3.BitVecVal(0, fill))
        nbits += fill
        for j in range(nbits // 6):
            out.append(z3.simplify(z3.Extract(nbits - 1 - 6 * j, nbits - 6 - 6 * j, word)))
    return B64Text(out, URL_ALPHABET)


def sextet_bytes(t):
    """the whole bytes spelled by the 6-bit groups of `t` (trailing bits that do not fill a byte are dropped)"""
    syms = [x for x in t.items if not isinstance(x, str)]
    bits = z3.Concat(*syms)
    n = 6 * len(syms)
    return BSeq([z3.simplify(z3.Extract(n - 1 - 8 * i, n - 8 - 8 * i, bits)) for i in range(n // 8)], 'bytes')


def stored(j):
    return BSeq(bv(f's{j}_', 16)), BSeq(bv(f'y{j}_', 16))


def world():
    w = {'bytes_eq': bytes_eq, 'b64_eq': b64_eq, 'b64url': b64url, 'sextet_bytes': sextet_bytes, '__bases__': {}}
    w['is_b64url_text'] = lambda t, n: z3.BoolVal(isinstance(t, B64Text) and t.table == list(URL_ALPHABET) and
                                                 len(t.items) == n and not any(isinstance(x, str) for x in t.items))
    w['is_bytes'] = lambda b, n: z3.BoolVal(isinstance(b, BSeq) and b.kind == 'bytes' and len(b.items) == n)

    def requested(ids, j):
        """some requested id spells stored key id j"""
        return z3.Or(*[bytes_eq(sextet_bytes(r), stored(j)[0]) for r in ids.items]) if ids.items else z3.BoolVal(False)

    def item_is(item, j):
        kid, key = stored(j)
        if not isinstance(item, dict) or set(item) != {'kty', 'kid', 'k'} or item['kty'] != 'oct':
            return z3.BoolVal(False)
        return z3.And(b64_eq(item['kid'], b64url(kid)), b64_eq(item['k'], b64url(key)))

    def listed(keys, j):
        return z3.Or(*[item_is(it, j) for it in keys.items]) if keys.items else z3.BoolVal(False)

    def times_listed(keys, j):
        return z3.Sum(*[z3.If(item_is(it, j), 1, 0) for it in keys.items] + [z3.IntVal(0)])

    def only_requested_stored_keys(keys, ids):
        return z3.And(*[z3.Or(*[z3.And(item_is(it, j), requested(ids, j)) for j in range(NSTORED)]) for it in keys.items] +
                      [z3.BoolVal(True)])
    w.update(requested=requested, listed=listed, times_listed=times_listed, only_requested_stored_keys=only_requested_stored_keys,
             has_field=lambda d, k: z3.BoolVal(k in d))
    return w


# ----------------------------------------------------------------------------- helpers
def encode_contract(n):
    return Contract(
        key=f'{CK}:ClearkeyHandler.base64url_encode', variant=f'{n}bytes', props=['C11'],
        env=lambda w: {'self': Obj('ClearkeyHandler', {}), 'b': BSeq(bv('b', n))},
        requires=[('n_bytes', f'is_bytes(b, {n})')],
        ensures=[('rfc4648_url_alphabet_no_padding', 'b64_eq(result, b64url(old(b)))')],
        result=lambda eng, frame: B64Text([fresh('b64s', z3.BitVecSort(6)) for _ in range((8 * n + 5) // 6)], URL_ALPHABET),
        applies=lambda fr: isinstance(fr.get('b'), BSeq) and len(fr['b'].items) == n,
        witness_terms=lambda w: (lambda ev: {'b': [ev(x) for x in bv('b', n)]}),
    )


def decode_contract(n):
    nsym = (8 * n + 5) // 6
    return Contract(
        key=f'{CK}:ClearkeyHandler.base64url_decode', variant=f'{n}bytes', props=['C11'],
        env=lambda w: {'self': Obj('ClearkeyHandler', {}), 'txt': B64Text(bv('t', nsym, 6), URL_ALPHABET)},
        requires=[('unpadded_url_text', f'is_b64url_text(txt, {nsym})')],
        ensures=[('spelled_bytes', 'bytes_eq(result, sextet_bytes(old(txt)))'), ('length', f'is_bytes(result, {n})')],
        result=lambda eng, frame: BSeq([fresh('dec', z3.BitVecSort(8)) for _ in range(n)], 'bytes'),
        applies=lambda fr: isinstance(fr.get('txt'), B64Text) and len(fr['txt'].items) == nsym,
        witness_terms=lambda w: (lambda ev: {'t': [ev(x) for x in bv('t', nsym, 6)]}),
    )


ENCODE = [encode_contract(n) for n in (16, 1, 2, 3)]
DECODE = [decode_contract(n) for n in (16, 1, 2, 3, 8)]


def roundtrip_lemma(n):
    def build(w):
        b = BSeq(bv('b', n))
        return [], bytes_eq(sextet_bytes(b64url(b)), b)
    return Lemma(name=f'decode_of_encode_is_identity.{n}bytes', props=['C11'], build=build,
                 notes='over the two contracts: base64url_decode(base64url_encode(b)) == b')


# ----------------------------------------------------------------------------- the licence endpoint
def get_kids(eng, e, a, kw):
    """models.Key.get_kids(hex ids) (SQLAlchemy query, assumed): the stored keys whose hkid is in the list, keyed by hkid.
    Membership is data: one branch per stored key."""
    hexes = [b2a_hex(x.f['raw']) if isinstance(x, Obj) and x.cls == 'KeyMaterial' else x
             for x in (a[0].items if isinstance(a[0], PyList) else list(a[0]))]
    out = {}
    for j in range(NSTORED):
        kid, key = stored(j)
        h = b2a_hex(kid)
        hit = z3.Or(*[bytes_eq(x, h) for x in hexes]) if hexes else z3.BoolVal(False)
        if eng.branch(hit):
            out[f'hkid{j}'] = Obj('Key', {'KID': Obj('KeyMaterial', {'raw': kid}), 'KEY': Obj('KeyMaterial', {'raw': key})})
    return out


def post_contract(variant, nreq, req_fields, short=0):
    """`short`: that many further ids of 8 bytes (11 symbols): valid base64url, but no key id - they are unknown ids"""
    def env(w):
        ids = [B64Text(bv(f'q{i}_', 22, 6), URL_ALPHABET) for i in range(nreq)] + \
              [B64Text(bv(f'h{i}_', 11, 6), URL_ALPHABET) for i in range(short)]
        req = {}
        if 'kids' in req_fields:
            req['kids'] = PyList(list(ids))
        if 'type' in req_fields:
            req['type'] = 'temporary'
        return {'self': Obj('ClearkeyHandler', {}), '__req__': req, '__ids__': PyList(list(ids))}
    if 'kids' not in req_fields:
        ens = [('missing_kids_is_400', 'result.status == 400')]
    elif 'type' not in req_fields:
        ens = [('error_reported', "result.status == 200 and not has_field(result.data, 'keys')")]
    else:
        ens = [('status', 'result.status == 200'), ('type_echoed', "result.data['type'] == 'temporary'"),
               ('only_requested_stored_keys', "only_requested_stored_keys(result.data['keys'], __ids__)")]
        for j in range(NSTORED):
            ens.append((f'stored_key{j}_listed_iff_requested', f"listed(result.data['keys'], {j}) == requested(__ids__, {j})"))
            ens.append((f'stored_key{j}_at_most_once', f"times_listed(result.data['keys'], {j}) <= 1"))
    names = [(f's{j}_', 16) for j in range(NSTORED)] + [(f'y{j}_', 16) for j in range(NSTORED)]
    return Contract(
        key=f'{CK}:ClearkeyHandler.post', variant=variant, props=['C11'],
        env=env,
        requires=[('distinct_stored_ids', 'not bytes_eq(stored_kid(0), stored_kid(1))')],
        models={'attr:flask.request.json': lambda eng: eng.lookup('__req__'),
                'models.Key.get_kids': get_kids,
                'jsonify': lambda eng, e, a, kw: Obj('Response', {'data': a[0], 'status': a[1] if len(a) > 1 else 200})},
        loops={0: Loop([], [], unroll=NSTORED + 1)},
        ensures=ens,
        canaries=["length(result.data['keys']) > 2"] if 'type' in req_fields and 'kids' in req_fields else [],
        witness_terms=lambda w: (lambda ev: dict(
            {nm: [ev(z3.BitVec(f'{nm}{i}', 8)) for i in range(n)] for nm, n in names},
            **{f'q{i}_': [ev(z3.BitVec(f'q{i}_{k}', 6)) for k in range(22)] for i in range(nreq)},
            **{f'h{i}_': [ev(z3.BitVec(f'h{i}_{k}', 6)) for k in range(11)] for i in range(short)})),
    )


POST = [post_contract('one-id', 1, ('kids', 'type')), post_contract('two-ids', 2, ('kids', 'type')),
        post_contract('no-ids', 0, ('kids', 'type')), post_contract('one-id-and-a-short-id', 1, ('kids', 'type'), short=1),
        post_contract('kids-missing', 0, ('type',)), post_contract('type-missing', 1, ('kids',))]


def _world():
    w = world()
    w['stored_kid'] = lambda j: stored(j)[0]
    w['__inline_ctors__'] = {'KeyMaterial': 'dashlive/drm/keymaterial.py'}
    return w


GROUP = Group(
    name='clearkey', world=_world,
    contracts=ENCODE + DECODE + POST,
    lemmas=[roundtrip_lemma(16), roundtrip_lemma(1), roundtrip_lemma(2), roundtrip_lemma(3)],
    assumptions=[
        'C11: base64.b64encode is RFC 4648 section 4 (bits in groups of six, zero fill, "=" padding); base64.b64decode without '
        'validation discards characters outside the standard alphabet, so a symbol decodes to itself only when rendered by its '
        'standard character (obligation b64decode.standard_alphabet) - CPython, trusted',
        'C11: models.Key.get_kids (SQLAlchemy query) returns exactly the stored keys whose lowercase hex id is in the list; the '
        'key store holds two keys with distinct ids in the proved variants; requested ids are 22-symbol unpadded base64url '
        'texts (16 bytes), in one variant accompanied by an 11-symbol text (8 bytes: valid base64url, no key id); other lengths and '
        'foreign characters are not covered',
        'C11: flask.request.json is the parsed request body; jsonify builds the response from its argument and status',
    ],
    trusted=['pyvc/models/bytesmodel.py (B64Text: base64 text as 6-bit groups rendered through a 64-entry table)'],
    not_covered=['ClearKey requests with malformed ids (foreign characters, wrong lengths), more than two ids, flatten() of the '
                 'JSON response'],
)
