"""C16 / C12: the decorators that resolve the objects a URL names.  The handler body runs exactly when the named stream /
media file / manifest / multi-period stream exists (and the manifest supports the mode); every other request is answered with
404 (400 when the identifier itself is missing) without entering the body; the body finds exactly the resolved object in
flask.g."""
import z3
from pyvc.vals import *          # noqa: F401,F403
from pyvc.contract import Contract, Loop, Lemma, Group

DEC = 'dashlive/server/requesthandler/decorators.py'
BOOLS = ('has_spk', 'has_sid', 'by_pk_found', 'by_dir_found', 'has_filename', 'has_sdir', 'file_found', 'file_mp4_found', 'has_mfid',
         'by_mfid_found', 'has_name', 'name_known', 'has_mode', 'restricted', 'mode_allowed', 'mode_primary', 'has_mps_name',
         'mps_found', 'name_has_suffix')


def world():
    w = {b: z3.Bool(b) for b in BOOLS}
    w['__bases__'] = {}
    w['ran'] = lambda r: z3.BoolVal(isinstance(r, Obj) and r.f.get('from_handler') is True)
    w['saw'] = lambda r, what: z3.BoolVal(isinstance(r, Obj) and isinstance(r.f.get('saw'), (Obj, Opaque)) and
                                          getattr(r.f['saw'], 'what', getattr(r.f['saw'], 'cls', None)) == what)
    return w


def wt(w):
    return lambda ev: {b: ev(w[b]) for b in BOOLS}


class G:
    """flask.g: attribute store"""

    def __init__(self):
        self.f = {}

    def setattr(self, eng, name, val):
        self.f[name] = val


def body(attr):
    def run(eng, e, a, kw):
        g = eng.lookup('__g__')
        return Obj('Response', {'status': 200, 'from_handler': True, 'saw': g.f.get(attr)})
    run.lazy = True            # func(*args, **kwargs): the view arguments are handed through unchanged, not inspected here
    return run


def opt_text(flag, name):
    """kwargs.get(name): a non-empty text when `flag`, else absent"""
    return lambda w: (Opaque(name), w[flag])


class Kwargs:
    """the view arguments: .get(name[, default]) - present (a non-empty text) or absent as the world decides"""

    def __init__(self, w, present):
        self.w, self.present = w, present          # name -> world flag

    def method(self, eng, name, args, kwargs, e):
        if name != 'get':
            raise Unsupported(f'kwargs.{name}')
        key = args[0]
        default = args[1] if len(args) > 1 else None
        if key in self.present and eng.branch(self.w[self.present[key]]):
            return KwText(key)
        return default


class KwText:
    """a non-empty text taken from the URL"""
    py_types = ('str',)

    def __init__(self, key):
        self.key = key

    def truthy(self):
        return True

    def method(self, eng, name, args, kwargs, e):
        if name == 'lower':
            return self
        if name == 'endswith':
            return eng.world['name_has_suffix']
        raise Unsupported(f'str.{name}')


def make_response(eng, e, a, kw):
    return Obj('Response', {'status': a[1], 'from_handler': False})


def common(attr):
    return {'func': body(attr), 'flask.make_response': make_response, 'attr:flask.g': lambda eng: eng.lookup('__g__'),
            'html.escape': lambda eng, e, a, kw: Opaque('escaped')}


def found(flag, what):
    def f(eng, e, a, kw):
        return Obj(what, {'pk': Opaque('pk')}) if eng.branch(eng.world[flag]) else None
    return f


def uses_stream():
    ok = '((has_spk and by_pk_found) or (not has_spk and has_sid and by_dir_found))'
    def stream_get(eng, e, a, kw):
        return found('by_pk_found' if 'pk' in kw else 'by_dir_found', 'Stream')(eng, e, a, kw)
    return Contract(
        key=f'{DEC}:uses_stream.decorated_function', props=['C16'],
        env=lambda w: {'args': (), 'kwargs': Kwargs(w, {'spk': 'has_spk', 'stream': 'has_sid'}), '__g__': G()},
        models=dict(common('stream'), **{'Stream.get': stream_get}),
        ensures=[('body_runs_iff_the_stream_exists', f'ran(result) == {ok}'),
                 ('body_sees_the_stream', f"saw(result, 'Stream') if {ok} else True"),
                 ('missing_id_is_400', 'result.status == 400 if (not has_spk and not has_sid) else True'),
                 ('unknown_stream_is_404', f'result.status == 404 if (not {ok} and (has_spk or has_sid)) else True')],
        canaries=['ran(result)'],
        witness_terms=wt,
    )


def uses_media_file():
    by_name = '(has_filename and has_sdir and by_dir_found and (file_found or file_mp4_found))'
    by_id = '(not has_filename and has_mfid and by_mfid_found)'
    calls = {'n': 0}

    def media_get(eng, e, a, kw):
        if 'pk' in kw:
            return found('by_mfid_found', 'MediaFile')(eng, e, a, kw)
        # first lookup: the name as given; second: with .mp4 appended (only reached when the first found nothing)
        second = isinstance(kw.get('name'), str) or type(kw.get('name')).__name__ == 'FString'
        return found('file_mp4_found' if second else 'file_found', 'MediaFile')(eng, e, a, kw)
    return Contract(
        key=f'{DEC}:uses_media_file.decorated_function', props=['C16'],
        env=lambda w: {'args': (), 'kwargs': Kwargs(w, {'filename': 'has_filename', 'stream': 'has_sdir', 'mfid': 'has_mfid'}),
                       '__g__': G()},
        models=dict(common('mediafile'), **{'Stream.get': found('by_dir_found', 'Stream'), 'MediaFile.get': media_get}),
        ensures=[('body_runs_iff_the_file_exists', f'ran(result) == ({by_name} or {by_id})'),
                 ('body_sees_the_file', f"saw(result, 'MediaFile') if ({by_name} or {by_id}) else True"),
                 ('refused_with_4xx', f'(result.status == 404 or result.status == 400) if not ({by_name} or {by_id}) else True'),
                 ('missing_id_is_400', 'result.status == 400 if (not has_filename and not has_mfid) else True')],
        canaries=['ran(result)'],
        witness_terms=wt,
    )


def uses_manifest():
    ok = '(has_name and name_known and (not has_mode or (mode_allowed if restricted else mode_primary)))'

    class ManifestMap:
        def getitem(self, eng, idx):
            from pyvc.engine import PyRaise
            if eng.branch(eng.world['name_known']):
                restr = Restrictions()
                return Obj('DashManifest', {'restrictions': restr})
            raise PyRaise('KeyError')

    class Restrictions:
        def getitem(self, eng, idx):
            from pyvc.engine import PyRaise
            if idx == 'mode' and eng.branch(eng.world['restricted']):
                return Modes('mode_allowed')
            raise PyRaise('KeyError')

    class Modes:
        def __init__(self, flag):
            self.flag = flag

        def contains(self, eng, item):
            return eng.world[self.flag]
    return Contract(
        key=f'{DEC}:uses_manifest.decorated_function', props=['C16'],
        env=lambda w: {'args': (), 'kwargs': Kwargs(w, {'manifest': 'has_name', 'mode': 'has_mode'}), '__g__': G(),
                       'manifest_map': ManifestMap()},
        models=dict(common('manifest'), **{'primary_profiles.keys': lambda eng, e, a, kw: Modes('mode_primary')}),
        ensures=[('body_runs_iff_the_manifest_exists_and_supports_the_mode', f'ran(result) == {ok}'),
                 ('body_sees_the_manifest', f"saw(result, 'DashManifest') if {ok} else True"),
                 ('refused_with_404', f'result.status == 404 if not {ok} else True')],
        canaries=['ran(result)'],
        witness_terms=wt,
    )


def uses_mps():
    ok = '(has_mps_name and mps_found)'
    return Contract(
        key=f'{DEC}:uses_multi_period_stream.decorated_function', props=['C16', 'C12'],
        env=lambda w: {'args': (), 'kwargs': Kwargs(w, {'mps_name': 'has_mps_name'}), '__g__': G()},
        models=dict(common('mp_stream'), **{'MultiPeriodStream.get_one': found('mps_found', 'MultiPeriodStream')}),
        ensures=[('body_runs_iff_the_stream_exists', f'ran(result) == {ok}'),
                 ('body_sees_the_stream', f"saw(result, 'MultiPeriodStream') if {ok} else True"),
                 ('missing_name_is_400', 'result.status == 400 if not has_mps_name else True'),
                 ('unknown_name_is_404', 'result.status == 404 if (has_mps_name and not mps_found) else True')],
        canaries=['ran(result)'],
        witness_terms=wt,
    )


def _world():
    w = world()
    w['manifest_map'] = None
    return w


GROUP = Group(
    name='lookup', world=world,
    contracts=[uses_stream(), uses_media_file(), uses_manifest(), uses_mps()],
    assumptions=[
        'C16: Stream.get / MediaFile.get / MultiPeriodStream.get_one return the row or None (SQLAlchemy, not verified); view '
        'arguments taken from the URL are non-empty texts when present; flask.g is a per-request attribute store; '
        'functools.wraps keeps the wrapped function\'s behaviour',
    ],
    not_covered=['uses_keypair, modifies_user_model, spa_handler (management pages)'],
)
