"""Contracts for dashlive/utils/date_time.py (C19; used by C01/C08 through the tick conversions)."""
import z3
from pyvc.vals import *          # noqa: F401,F403
from pyvc.contract import Contract, Loop, Lemma, Group
from pyvc.models.text import Formatted, DigitStr, Joined

DTF = 'dashlive/utils/date_time.py'
MILLION = 1000000


def iso_parse(x):
    """Structure of the text toIsoDuration builds -> (hrs|None, mins|None, secs, (num, ndigits)|None)."""
    if not isinstance(x, Joined):
        raise Unsupported('toIsoDuration result is not a join of formatted pieces')
    parts = list(x.parts)
    if not parts or parts[0] != 'PT' or parts[-1] != 'S':
        raise Unsupported('unexpected duration text structure')
    parts = parts[1:-1]
    h = m = None
    if parts and isinstance(parts[0], Formatted) and parts[0].fmt == '%dH':
        h = parts.pop(0).value
    if parts and isinstance(parts[0], Formatted) and parts[0].fmt == '%dM':
        m = parts.pop(0).value
    if not parts or not isinstance(parts[0], Formatted) or parts[0].fmt != '%d':
        raise Unsupported('unexpected duration text structure (seconds)')
    s = parts.pop(0).value
    frac = None
    if parts:
        if len(parts) != 2 or parts[0] != '.' or not isinstance(parts[1], DigitStr):
            raise Unsupported('unexpected duration text structure (fraction)')
        frac = parts[1]
    return h, m, s, frac


def world():
    w = {}

    def iso_value(x):
        h, m, s, frac = iso_parse(x)
        v = zreal(s)
        if h is not None:
            v = v + 3600 * zreal(h)
        if m is not None:
            v = v + 60 * zreal(m)
        if frac is not None:
            v = v + zreal(frac.num) / (10 ** frac.ndigits)
        return v

    def iso_fields_ok(x):
        """xs:duration lexical constraints the statement names: seconds and minutes below 60, nothing negative,
        a fraction (if printed) has at least one digit and no trailing zero."""
        h, m, s, frac = iso_parse(x)
        c = [zint(s) >= 0, zint(s) < 60]
        if h is not None:
            c.append(zint(h) >= 0)
        if m is not None:
            c += [zint(m) >= 0, zint(m) < 60]
        if frac is not None:
            if frac.ndigits < 1:
                return z3.BoolVal(False)
            c += [zint(frac.num) >= 0, zint(frac.num) < 10 ** frac.ndigits, pymod(zint(frac.num), z3.IntVal(10)) != 0]
        return z3.And(*c)

    w.update(iso_value=iso_value, iso_fields_ok=iso_fields_ok, micros=lambda td: zint(td.us),
             zabs=lambda x: z3.If(zreal(x) >= 0, zreal(x), -zreal(x)),
             zmax=lambda a, b: z3.If(zint(a) >= zint(b), zint(a), zint(b)),
             zmin=lambda a, b: z3.If(zint(a) <= zint(b), zint(a), zint(b)))
    w['__bases__'] = {}
    w['td_us'] = lambda td: zint(td.us) if isinstance(td, TD) else z3.IntVal(-1)
    w['tz_h'], w['tz_m'] = z3.Int('tz_h'), z3.Int('tz_m')
    w['delta'], w['delta_norm'] = TD.decomposed('delta')
    return w


def wt(names):
    def mk(w):
        def f(ev):
            out = {k: ev(z3.Real(k) if k == 'secs' else z3.Int(k)) for k in names if k != 'delta_us'}
            if 'delta_us' in names:
                out['delta_us'] = ev(zint(w['delta'].us)) if 'delta_us' not in [str(d) for d in []] else None
            return out
        return f
    return mk


TO_ISO_DURATION = Contract(
    key=f'{DTF}:toIsoDuration', props=['C19'],
    env=lambda w: {'secs': z3.Real('secs')},
    requires=[('nonneg', 'secs >= 0')],
    loops={0: Loop(invariant=[], variant=[], unroll=5)},
    ensures=[('fields', 'iso_fields_ok(result)'),
             ('value', 'zabs(iso_value(result) - old(secs)) * 2000 <= 1')],
    canaries=['iso_value(result) == old(secs)'],
    witness_terms=wt(['secs']),
    variant='float',
)

TO_ISO_DURATION_TD = Contract(
    key=f'{DTF}:toIsoDuration', props=['C19'],
    env=lambda w: {'secs': w['delta']},
    requires=[('nonneg', 'micros(secs) >= 0')], defs=['delta_norm'],
    loops={0: Loop(invariant=[], variant=[], unroll=5)},
    ensures=[('fields', 'iso_fields_ok(result)'),
             ('value', 'zabs(iso_value(result) * 1000000 - micros(old(secs))) * 2000 <= 1000000')],
    witness_terms=wt(['delta_us']),
    variant='timedelta',
)

TIMECODE_TO_TIMEDELTA = Contract(
    key=f'{DTF}:timecode_to_timedelta', props=['C19', 'C01', 'C06'],
    env=lambda w: {'timecode': z3.Int('timecode'), 'timescale': z3.Int('timescale')},
    requires=[('ts_pos', 'timescale >= 1')],
    ensures=[('exact', 'micros(result) == (timecode * 1000000) // timescale')],
    result=lambda eng, frame: TD(fresh('td_us')),
    canaries=['micros(result) * timescale == timecode * 1000000'],
    witness_terms=wt(['timecode', 'timescale']),
)

TIMEDELTA_TO_TIMECODE = Contract(
    key=f'{DTF}:timedelta_to_timecode', props=['C19', 'C01', 'C09'],
    env=lambda w: {'delta': w['delta'], 'timescale': z3.Int('timescale')},
    requires=[('ts_pos', 'timescale >= 1')], defs=['delta_norm'],
    ensures=[('exact', 'result == (timescale * micros(delta)) // 1000000')],
    result=lambda eng, frame: fresh('timecode'),
    canaries=['result * 1000000 == timescale * micros(delta)'],
    witness_terms=wt(['delta_us', 'timescale']),
)

MULTIPLY_TIMEDELTA = Contract(
    key=f'{DTF}:multiply_timedelta', props=['C19'],
    env=lambda w: {'delta': w['delta'], 'num': z3.Int('num')},
    requires=[], defs=['delta_norm'],
    ensures=[('exact', 'result == (num * micros(delta)) // 1000000')],
    result=lambda eng, frame: fresh('secs'),
    canaries=['result * 1000000 == num * micros(delta)'],
    witness_terms=wt(['delta_us', 'num']),
)

SCALE_TIMEDELTA = Contract(
    key=f'{DTF}:scale_timedelta', props=['C19', 'C01'],
    env=lambda w: {'delta': w['delta'], 'num': z3.Int('num'), 'denom': z3.Int('denom')},
    requires=[('denom_pos', 'denom >= 1')], defs=['delta_norm'],
    ensures=[('exact', 'result * denom == (num * micros(delta)) // 1000000')],
    result=lambda eng, frame: fresh('scaled', REAL),
    canaries=['result * denom * 1000000 == num * micros(delta)'],
    witness_terms=wt(['delta_us', 'num', 'denom']),
)


# ----------------------------------------------------------------------------- lemmas over the contracts
def _vars():
    return z3.Int('tc'), z3.Int('ts'), z3.Int('u')


def lemma_tick_roundtrip(w):
    """timedelta_to_timecode(timecode_to_timedelta(tc, ts), ts) in {tc-1, tc} for 1 <= ts <= 10^6, tc >= 0."""
    tc, ts, u = _vars()
    us = floordiv(tc * MILLION, ts)
    back = floordiv(ts * us, z3.IntVal(MILLION))
    return [ts >= 1, ts <= MILLION, tc >= 0], z3.And(back <= tc, back >= tc - 1)


def lemma_tick_roundtrip_canary(w):
    """the same claim without the timescale bound is false (tc=2, ts=10^7 -> 0): must not be provable"""
    tc, ts, u = _vars()
    us = floordiv(tc * MILLION, ts)
    back = floordiv(ts * us, z3.IntVal(MILLION))
    return [ts >= 1, tc >= 0], z3.And(back <= tc, back >= tc - 1)


def lemma_us_roundtrip(w):
    """timecode_to_timedelta(timedelta_to_timecode(u, ts), ts) loses less than one tick (10^6/ts us, at least 1 us)."""
    tc, ts, u = _vars()
    t = floordiv(ts * u, z3.IntVal(MILLION))
    back = floordiv(t * MILLION, ts)
    return [ts >= 1, u >= 0], z3.And(back <= u, (u - back) * ts < MILLION + ts)


def lemma_monotone_tc(w):
    tc, ts, u = _vars()
    tc2 = z3.Int('tc2')
    return [ts >= 1, tc <= tc2], floordiv(tc * MILLION, ts) <= floordiv(tc2 * MILLION, ts)


def lemma_monotone_us(w):
    tc, ts, u = _vars()
    u2 = z3.Int('u2')
    return [ts >= 1, u <= u2], floordiv(ts * u, z3.IntVal(MILLION)) <= floordiv(ts * u2, z3.IntVal(MILLION))


# ----------------------------------------------------------------------------- UTC offsets: FixedOffsetTimeZone("+hh:mm")
TZ = 'dashlive/utils/timezone.py'


class TzMatch:
    """the match of tzinfo_re = ^(?P<delta>[+-])(?P<hour>\\d+):(?P<minute>\\d+)$ on a text `<sign><h digits>:<m digits>`"""

    def __init__(self, sign):
        self.sign = sign

    def method(self, eng, name, args, kwargs, e):
        from pyvc.models.text import SignedDigits
        if name == 'group' and args == ['delta']:
            return self.sign
        if name == 'group' and args == ['hour']:
            return SignedDigits('', z3.Int('tz_h'))
        if name == 'group' and args == ['minute']:
            return SignedDigits('', z3.Int('tz_m'))
        raise Unsupported(f'match.{name}{args}')


def tz_contract(sign):
    k = '-' if sign == '-' else ''
    return Contract(
        key=f'{TZ}:FixedOffsetTimeZone.__init__', variant='west' if sign == '-' else 'east', props=['C19'],
        env=lambda w: {'self': Obj('FixedOffsetTimeZone', {}), 'delta_str': Opaque('offset-text')},
        requires=[('digits', 'tz_h >= 0 and tz_m >= 0')],
        models={'self.tzinfo_re.match': lambda eng, e, a, kw: TzMatch(sign)},
        mod_types={'self.__offset': 'td', 'self.__name': 'opaque'},
        modifies=['self.__offset', 'self.__name'],
        # ISO 8601 / RFC 3339: the sign applies to the whole offset, hours AND minutes
        ensures=[('offset_is_signed_hours_and_minutes', f'td_us(self.__offset) == {k}(60 * tz_h + tz_m) * 60000000'),
                 ('name_is_the_text', 'self.__name is delta_str')],
        canaries=['td_us(self.__offset) == 1'],
        witness_terms=lambda w: (lambda ev: {'tz_h': ev(z3.Int('tz_h')), 'tz_m': ev(z3.Int('tz_m'))}),
    )


TZ_NOMATCH = Contract(
    key=f'{TZ}:FixedOffsetTimeZone.__init__', variant='not-an-offset', props=['C19', 'C16'],
    env=lambda w: {'self': Obj('FixedOffsetTimeZone', {}), 'delta_str': Opaque('offset-text')},
    models={'self.tzinfo_re.match': lambda eng, e, a, kw: None},
    raises={'ValueError': 'True'},
    witness_terms=lambda w: (lambda ev: {}),
)
TZ_CONTRACTS = [tz_contract('+'), tz_contract('-'), TZ_NOMATCH]


GROUP = Group(
    name='dt', world=world,
    contracts=[TO_ISO_DURATION, TO_ISO_DURATION_TD, TIMECODE_TO_TIMEDELTA, TIMEDELTA_TO_TIMECODE,
               MULTIPLY_TIMEDELTA, SCALE_TIMEDELTA] + TZ_CONTRACTS,
    lemmas=[Lemma('tick_roundtrip', ['C19'], lemma_tick_roundtrip),
            Lemma('tick_roundtrip_unbounded_ts', ['C19'], lemma_tick_roundtrip_canary, canary=True),
            Lemma('us_roundtrip', ['C19'], lemma_us_roundtrip),
            Lemma('monotone_timecode_to_timedelta', ['C19', 'C09'], lemma_monotone_tc),
            Lemma('monotone_timedelta_to_timecode', ['C19', 'C09'], lemma_monotone_us)],
    assumptions=[
        'C19: float arithmetic is treated as exact real arithmetic in toIsoDuration / scale_timedelta '
        '(the float-vs-real gap is the bounded stand-in `c19_float_grid`, not counted as proved)',
        'C19: datetime.timedelta is integer microseconds with normalised days/seconds/microseconds',
    ],
    bounded=[{'name': 'c19', 'props': ['C19'], 'cmd': ['/venv/bin/python', 'bounded/c19.py', '{tier}', '--repo', '{repo}']}],
    trusted=['pyvc/models/text.py: %d / %03d formatting and the digit-string operations of the trailing-zero loop'],
    not_covered=['to_iso_datetime / from_isodatetime text round trip (regex, float(text)): bounded stand-in only; of the parse side only '
                 'the UTC offset (FixedOffsetTimeZone: the regular expression match is modelled as sign, hour digits, minute digits) is under contract',
                 'toIsoDuration on str input (float(text))', 'template filters isoDuration/isoDateTime are pass-through'],
)
