"""Contracts for dashlive/drm/playready.py (C11, reduced scope): GUID byte order, the PlayReady key-seed algorithm
(SHA-256 uninterpreted) and the AES-ECB checksum structure."""
import z3
from pyvc.vals import *          # noqa: F401,F403
from pyvc.contract import Contract, Loop, Lemma, Group
from pyvc.models.bytesmodel import BSeq, uf, bytes_eq, b2a_hex

PR = 'dashlive/drm/playready.py'


def bv(name, n):
    return [z3.BitVec(f'{name}{i}', 8) for i in range(n)]


def le_order(items):
    """RFC 4122 bytes_le of a 16-byte big-endian UUID: first three fields byte-swapped"""
    b = items
    return [b[3], b[2], b[1], b[0], b[5], b[4], b[7], b[6]] + list(b[8:16])


def world():
    w = {'bytes_eq': bytes_eq, '__bases__': {}}

    def guid_le(x):
        if x.kind == 'hex':
            y = [c for c in x.items if not isinstance(c, str)]
            pairs = [(y[2 * i], y[2 * i + 1]) for i in range(16)]
            out = []
            for i, (h, l) in enumerate(le_order(pairs)):
                if i in (4, 6, 8, 10):
                    out.append('-')
                out += [h, l]
            return BSeq(out, 'hex')
        return BSeq(le_order(x.items), 'bytes')

    def keyseed_spec(key_id, seed):
        """Microsoft's published key-seed algorithm (playready-key-seed): with S = seed[:30], K = bytes_le(keyId):
        A = SHA256(S|K), B = SHA256(S|K|S), C = SHA256(S|K|S|K); key[i] = A[i]^A[i+16]^B[i]^B[i+16]^C[i]^C[i+16]"""
        S, K = seed.items[:30], le_order(key_id.items)
        A, B, C = uf('sha256', S + K, 32), uf('sha256', S + K + S, 32), uf('sha256', S + K + S + K, 32)
        return BSeq([A[i] ^ A[i + 16] ^ B[i] ^ B[i + 16] ^ C[i] ^ C[i + 16] for i in range(16)], 'bytearray')

    def checksum_spec(kid, key):
        return BSeq(uf('aes_ecb', key.items + le_order(kid.items), 16)[:8], 'bytes')

    w['wrm_len'] = z3.Int('wrm_len')
    w['is_wrm_text'] = lambda t: z3.BoolVal(isinstance(t, Obj) and t.f.get('of') == 'wrm')
    w['is_wrm_xml'] = lambda x: z3.BoolVal(isinstance(x, Obj) and isinstance(x.f.get('of'), Obj) and x.f['of'].f.get('of') == 'wrm')
    w.update(guid_le=guid_le, keyseed_spec=keyseed_spec, checksum_spec=checksum_spec, blen=lambda x: len(x.items))
    return w


def wt_bytes(names):
    def mk(w):
        def f(ev):
            out = {}
            for nm, n in names:
                out[nm] = [ev(z3.BitVec(f'{nm}{i}', 8)) for i in range(n)]
            return out
        return f
    return mk


def hex_guid(name):
    b = bv(name, 16)
    items = []
    for i, x in enumerate(b):
        if i in (4, 6, 8, 10):
            items.append('-')
        items += [z3.Extract(7, 4, x), z3.Extract(3, 0, x)]
    return BSeq(items, 'hex')


HEX_TO_LE_RAW = Contract(
    key=f'{PR}:PlayReady.hex_to_le_guid', variant='raw', props=['C11'], inline=True,
    env=lambda w: {'clz': Opaque('class'), 'guid': BSeq(bv('g', 16)), 'raw': True},
    ensures=[('bytes_le', 'bytes_eq(result, guid_le(old(guid)))')],
    witness_terms=wt_bytes([('g', 16)]),
)
HEX_TO_LE_RAW_BAD = Contract(
    key=f'{PR}:PlayReady.hex_to_le_guid', variant='raw-15-bytes', props=['C11'],
    env=lambda w: {'clz': Opaque('class'), 'guid': BSeq(bv('g', 15)), 'raw': True},
    raises={'ValueError': 'True'}, ensures=[('unreachable', 'False')],
    witness_terms=wt_bytes([('g', 15)]),
)
HEX_TO_LE_TEXT = Contract(
    key=f'{PR}:PlayReady.hex_to_le_guid', variant='text', props=['C11'],
    env=lambda w: {'clz': Opaque('class'), 'guid': hex_guid('g'), 'raw': False},
    ensures=[('bytes_le', 'bytes_eq(result, guid_le(old(guid)))')],
    witness_terms=wt_bytes([('g', 16)]),
)


def content_key(seed_len, kid_len=16):
    raises = {'ValueError': 'True'} if (seed_len < 30 or kid_len != 16) else {}
    return Contract(
        key=f'{PR}:PlayReady.generate_content_key', variant=f'kid{kid_len}-seed{seed_len}', props=['C11'],
        env=lambda w: {'clz': Opaque('class'), 'keyId': BSeq(bv('k', kid_len)), 'keySeed': BSeq(bv('s', seed_len))},
        raises=raises,
        ensures=[('key_seed_algorithm', 'bytes_eq(result, keyseed_spec(old(keyId), keySeed))')] if not raises
        else [('unreachable', 'False')],
        witness_terms=wt_bytes([('k', kid_len), ('s', seed_len)]),
    )


CONTENT_KEY = [content_key(30), content_key(33), content_key(29), content_key(30, 15)]

CHECKSUM = Contract(
    key=f'{PR}:PlayReady.generate_checksum', props=['C11'],
    env=lambda w: {'self': Obj('PlayReady', {}),
                   'keypair': Obj('KeyTuple', {'KID': Obj('KeyMaterial', {'raw': BSeq(bv('k', 16))}),
                                               'KEY': Obj('KeyMaterial', {'raw': BSeq(bv('y', 16))})})},
    ensures=[('aes_ecb_of_le_kid', 'bytes_eq(result, checksum_spec(keypair.KID.raw, keypair.KEY.raw))')],
    witness_terms=wt_bytes([('k', 16), ('y', 16)]),
)

# ----------------------------------------------------------------------------- what goes into the WRMHEADER template
class Utf16:
    """xml.encode('utf-16'): byte order mark FF FE, then the text"""
    py_types = ('bytes',)

    def __init__(self, rendered):
        self.rendered = rendered

    def getitem(self, eng, idx):
        if idx in (0, 1):
            return (0xFF, 0xFE)[idx]
        raise Unsupported('utf-16 byte')

    def getslice(self, eng, lo, hi):
        if lo == 2 and hi is None:
            return self.rendered
        raise Unsupported('utf-16 slice')


def render_template(eng, e, a, kw):
    return Obj('Rendered', {'template': a[0], 'context': dict(kw)})


def key_tuple(i, computed):
    return Obj('KeyTuple', {'KID': Obj('KeyMaterial', {'raw': BSeq(bv(f'k{i}_', 16)), 'hex': Opaque(f'kid{i}hex')}),
                            'KEY': Obj('KeyMaterial', {'raw': BSeq(bv(f'y{i}_', 16))}), 'ALG': 'AESCTR', 'computed': computed})


def wrmheader(nkeys, default, version):
    def env(w):
        keys = {f'kid{i}': key_tuple(i, computed=(i % 2 == 0)) for i in range(nkeys)}
        return {'self': Obj('PlayReady', {'security_level': 150, 'header_version': version, 'version': None,
                                          'TEST_LA_URL': Opaque('test_la_url')}),
                'la_url': None, 'default_kid': f'KID{default}', 'keys': keys, 'custom_attributes': None,
                '__keys__': keys}
    kid = lambda i: f'__keys__["kid{i}"].KID.raw'
    key = lambda i: f'__keys__["kid{i}"].KEY.raw'
    ens = [('template', f"result.template == 'drm/wrmheader{int(version * 10)}.xml'"),
           ('default_checksum', f"bytes_eq(result.context['checksum'], checksum_spec({kid(default)}, {key(default)}))"),
           ('default_kid', f"bytes_eq(result.context['default_kid'], guid_le({kid(default)})) and "
                           f"bytes_eq(result.context['default_key'], {key(default)})"),
           ('all_keys_listed', f"length(result.context['kids']) == {nkeys}")]
    for i in range(nkeys):
        ens.append((f'key{i}', f"bytes_eq(result.context['kids'][{i}]['kid'], guid_le({kid(i)})) and "
                               f"bytes_eq(result.context['kids'][{i}]['checksum'], checksum_spec({kid(i)}, {key(i)})) and "
                               f"result.context['kids'][{i}]['alg'] == 'AESCTR'"))
    return Contract(
        key=f'{PR}:PlayReady.generate_wrmheader', variant=f'{nkeys}keys-default{default}-v{version}', props=['C11'],
        env=env,
        models={'base64.b64encode': lambda eng, e, a, kw: Opaque('b64'),
                'la_url.format': lambda eng, e, a, kw: Opaque('la_url'),
                'render_template': render_template,
                're.sub': lambda eng, e, a, kw: a[2],
                'xml.encode': lambda eng, e, a, kw: Utf16(eng.lookup('xml'))},
        ensures=ens,
        canaries=[f"bytes_eq(result.context['checksum'], checksum_spec({kid((default + 1) % nkeys)}, {key((default + 1) % nkeys)}))"
                  if nkeys > 1 else 'False'],
        witness_terms=wt_bytes([(f'k{i}_', 16) for i in range(nkeys)] + [(f'y{i}_', 16) for i in range(nkeys)]),
    )


# ----------------------------------------------------------------------------- PlayReady Object framing: generate_pro -> parse_pro
LE_FORMATS = {'<HH': (2, 2), '<IH': (4, 2)}


class Chunks:
    """bytes built by concatenation: little-endian struct fields and opaque blobs with (symbolic) lengths"""
    py_types = ('bytes',)

    def __init__(self, items):
        self.items = items              # [('le', fmt, (values...)) | ('blob', name, length)]

    def len(self, eng):
        t = z3.IntVal(0)
        for it in self.items:
            t = t + (sum(LE_FORMATS[it[1]]) if it[0] == 'le' else zint(it[2]))
        return z3.simplify(t)

    def binop(self, eng, op, other, swapped):
        import ast as _ast
        if isinstance(op, _ast.Add) and isinstance(other, Chunks):
            return Chunks(other.items + self.items if swapped else self.items + other.items)
        raise Unsupported('bytes operation')

    def method(self, eng, name, args, kwargs, e):
        if name == 'decode' and len(self.items) == 1 and self.items[0][0] == 'blob':
            return Obj('Text', {'of': self.items[0][1]})
        raise Unsupported(f'bytes.{name}')


class ChunkStream:
    def __init__(self, chunks):
        self.items, self.k = list(chunks.items), 0

    def method(self, eng, name, args, kwargs, e):
        if name != 'read':
            raise Unsupported(f'stream.{name}')
        n = args[0]
        if self.k >= len(self.items):
            return b''
        it = self.items[self.k]
        have = sum(LE_FORMATS[it[1]]) if it[0] == 'le' else it[2]
        if z3.simplify(zint(n) - zint(have)).eq(z3.IntVal(0)):
            self.k += 1
            return Chunks([it])
        # a read that does not end on a chunk boundary: the framing lengths do not match what was written
        eng.oblige('safety', 'framing.read_matches_written_record', z3.BoolVal(False))
        from pyvc.engine import PathCut
        raise PathCut()


def le_pack(eng, e, a, kw):
    fmt = a[0]
    if fmt not in LE_FORMATS or len(a) - 1 != len(LE_FORMATS[fmt]):
        raise Unsupported(f'struct.pack({fmt!r})')
    for v, n in zip(a[1:], LE_FORMATS[fmt]):
        eng.oblige('safety', f'range:struct.pack({fmt})', z3.And(zint(v) >= 0, zint(v) < 256 ** n))
    if fmt == '<IH':
        eng.ghost_env['pro_length'], eng.ghost_env['pro_count'] = zint(a[1]), zint(a[2])
    return Chunks([('le', fmt, tuple(a[1:]))])


def le_unpack(eng, e, a, kw):
    fmt, data = a
    if isinstance(data, Chunks) and len(data.items) == 1 and data.items[0][0] == 'le' and data.items[0][1] == fmt:
        return tuple(v.as_long() if z3.is_expr(v) and z3.is_int_value(z3.simplify(v)) else v for v in
                     (z3.simplify(zint(x)) if z3.is_expr(x) else x for x in data.items[0][2]))
    eng.oblige('safety', 'framing.unpack_matches_written_record', z3.BoolVal(False))
    from pyvc.engine import PathCut
    raise PathCut()


def pro_contract():
    def sequel_env(eng, env_after, value):
        return dict(env_after, clz=Opaque('class:PlayReady'), src=ChunkStream(value))
    return Contract(
        key=f'{PR}:PlayReady.generate_pro', props=['C11', 'C10'],
        env=lambda w: {'self': Obj('PlayReady', {}), 'la_url': Opaque('la'), 'default_kid': Opaque('kid'), 'keys': Opaque('keys'),
                       'custom_attributes': None},
        requires=[('wrm_length', '0 <= wrm_len'),
                  # region: the record length is a 16-bit field (a longer WRMHEADER cannot be framed: struct.error)
                  ('region_16bit_record_length', 'wrm_len < 65536 - 10')],
        models={'self.generate_wrmheader': lambda eng, e, a, kw: Chunks([('blob', 'wrm', eng.world['wrm_len'])]),
                'struct.pack': le_pack, 'struct.unpack': le_unpack,
                'io.StringIO': lambda eng, e, a, kw: a[0], 'ElementTree.parse': lambda eng, e, a, kw: Obj('Xml', {'of': a[0]})},
        ctors={'PlayReadyRecord': lambda eng, a, kw: Obj('PlayReadyRecord', dict(kw))},
        sequel={'qual': 'PlayReady.parse_pro', 'env': sequel_env},
        ensures=[('one_record', 'length(result) == 1'),
                 ('record_type_and_length', 'result[0].record_type == 1 and result[0].length == wrm_len'),
                 ('header_is_the_wrmheader', 'is_wrm_text(result[0].header) and is_wrm_xml(result[0].xml)'),
                 ('object_length_and_count', 'pro_length == wrm_len + 10 and pro_count == 1')],
        canaries=['result[0].length == 0'],
        witness_terms=lambda w: (lambda ev: {'wrm_len': ev(w['wrm_len'])}),
    )


PRO = pro_contract()

WRMHEADER = [wrmheader(1, 0, 4.0), wrmheader(2, 0, 4.0), wrmheader(3, 1, 4.1), wrmheader(2, 1, 4.2)]
CHECKSUM_INLINE = Contract(key=f'{PR}:PlayReady.generate_checksum', variant='inline', props=[], inline=True)
CHECKSUM.applies = lambda frame: False                 # call sites analyse the real body
HEX_TO_LE_RAW.applies = lambda fr: fr.get('raw') is True and isinstance(fr.get('guid'), BSeq) and len(fr['guid'].items) == 16
HEX_TO_LE_RAW_BAD.applies = lambda fr: False
HEX_TO_LE_TEXT.applies = lambda fr: fr.get('raw') is False

GROUP = Group(
    name='playready', world=world,
    contracts=[HEX_TO_LE_RAW, HEX_TO_LE_RAW_BAD, HEX_TO_LE_TEXT] + CONTENT_KEY + [CHECKSUM] + WRMHEADER + [PRO, CHECKSUM_INLINE],
    assumptions=[
        'C11: SHA-256 and AES-ECB are uninterpreted functions of exactly their input bytes (pycryptodome trusted)',
        'C11: binascii.b2a_hex / a2b_hex are mutually inverse nibble splits; str(x, "ascii") keeps the characters',
        'C11: generate_wrmheader: base64 / str.format / re.sub / utf-16 encoding are opaque (the rendered document is not '
        'inspected); render_template receives exactly the context the contract describes',
        'C11: key ids are 16 bytes, key seeds 30 or 33 bytes in the proved variants (the code truncates to 30; the '
        'length checks are proved by the 29-byte and 15-byte variants)',
    ],
    trusted=['pyvc/models/bytesmodel.py (fixed-length byte / hex strings as bit-vector lists)'],
    not_covered=['the WRMHEADER XML text (Jinja template; generate_wrmheader is proved up to the context it hands to the '
                 'template: default key id / key / checksum, per-key list, template name) and its XML re-parse, ClearKey endpoint, '
                 'ContentProtection templates, generate_manifest_context location mapping'],
)
