"""Contracts for dashlive/mpeg/mp4.py (C04 reduced scope; C02 tfdt clause): per box class, encode then parse is the
identity on the fields and every written value fits its field.  Loop-free classes: mfhd, mehd, trex, tfdt, tfhd, trun
header, btrt, pasp; plus TrackFragmentDecodeTimeBox.__setattr__ (the 32 -> 64 bit switch)."""
import z3
from pyvc.vals import *          # noqa: F401,F403
from pyvc.contract import Contract, Loop, Lemma, Group
from pyvc.models.trace import Trace
from pyvc.engine import PyRaise

MP4 = 'dashlive/mpeg/mp4.py'
FIO_W, FIO_R = 'dashlive/utils/fio/field_writer.py', 'dashlive/utils/fio/field_reader.py'
U32, U64 = 2 ** 32, 2 ** 64


def world():
    w = {'__bases__': {}}
    for cls in ('MovieFragmentHeaderBox', 'MovieExtendsHeaderBox', 'TrackExtendsBox', 'TrackFragmentDecodeTimeBox',
                'TrackFragmentHeaderBox', 'TrackFragmentRunBox', 'TrackEncryptionBox', 'MediaHeaderBox', 'EventMessageBox', 'ContentProtectionSpecificBox', 'SegmentIndexBox',
                'SampleAuxiliaryInformationSizesBox', 'SampleAuxiliaryInformationOffsetsBox'):
        w['__bases__'][cls] = ['FullBox']
    w['ISO_EPOCH'] = DT(z3.IntVal(ISO_EPOCH_US))
    for nm in ('creation_s', 'modification_s', 'default_kid', 'payload', 'system_id', 'kid0', 'kid1', 'kid2', 'sz0', 'sz1', 'sz2', 'off0', 'off1', 'senc_pos',
               'aux_info_type', 'aux_info_type_parameter', 'default_sample_info_size'):
        w[nm] = z3.Int(nm)
    for k in range(2):
        for f in ('ref_type', 'ref_size', 'duration', 'starts_with_SAP', 'SAP_type', 'SAP_delta_time'):
            w[f'r{k}_{f}'] = z3.Int(f'r{k}_{f}')
    for nm in ('p0', 'fields_len', 'child0_size', 'child1_size', 'child2_size', 'pos0', 'total', 'size32', 'size64'):
        w[nm] = z3.Int(nm)
    w['has_attr'] = lambda o, k: z3.BoolVal(k in o.f)
    w['stream_end'] = lambda st: st.end()
    w['at_end'] = lambda st: z3.BoolVal(st.cursor is None)
    w['size_field'] = lambda st, pos: st.value_at(pos) if st.value_at(pos) is not None else z3.IntVal(-1)
    w['prefix_untouched'] = lambda st: z3.BoolVal(st.chunks[0][1] == ('existing',))

    for nm in ('tfhd_duration', 'tfhd_size', 'tfhd_flags', 'data_offset', 'first_sample_flags'):
        w[nm] = z3.Int(nm)
    for j in range(2):
        for f in ('duration', 'size', 'flags', 'composition_time_offset'):
            w[f's{j}_{f}'] = z3.Int(f's{j}_{f}')
    w['sample_duration'] = lambda smp: smp.f['duration'].val if isinstance(smp.f['duration'], Opt) else smp.f['duration']
    w['no_duration'] = lambda smp: (smp.f['duration'].isnone if isinstance(smp.f['duration'], Opt) else z3.BoolVal(smp.f['duration'] is None))

    def bytes_value(p):
        if isinstance(p, bytes):
            return z3.IntVal(int.from_bytes(p, 'big'))
        if isinstance(p, Obj) and 'data' in p.f:
            p = p.f['data']
        if hasattr(p, 'u'):
            return zint(p.u)
        from pyvc.engine import PyRaise
        raise PyRaise('TypeError')          # not bytes: the clause is not evaluable on this result
    w['bytes_value'] = bytes_value
    w['__bases__']['FullBox'] = ['Mp4Atom']
    # FieldWriter / FieldReader are the repository's own classes: constructed and run as real code (inlined)
    w['__inline_ctors__'] = {'FieldWriter': FIO_W, 'FieldReader': FIO_R, 'BitsFieldReader': 'dashlive/utils/fio/bits_field_reader.py'}
    w['consumed'] = lambda t: z3.BoolVal(t.cursor == len(t.fields) and t.partial == 0)
    w['nbytes'] = lambda t: t.total()
    for nm in ('moof_position', 'moof_size', 'mdat_header_size', 'base_data_offset', 'senc_position', 'sample0_offset', 'offset0'):
        w[nm] = z3.Int(nm)
    w['bdo_none'], w['has_bug_saio'] = z3.Bool('bdo_none'), z3.Bool('has_bug_saio')
    w['single'] = lambda x, v: (zint(x.items[0]) == zint(v)) if isinstance(x, PyList) and len(x.items) == 1 else z3.BoolVal(False)
    w['is_unset'] = lambda x: z3.BoolVal(x is None)
    return w


def box_contract(cls, fields, requires, version_values=(0, 1), extra_env=None, roundtrip=None, size=None, flags_bits=None):
    """FullBox.encode_fields(self, dest) followed by <cls>.parse(src=dest rewound, parent, options, initial_data={})"""
    names = ['version', 'flags'] + [f for f, _ in fields]

    def env(w):
        o = Obj(cls, {'version': z3.Int('version'), 'flags': z3.Int('flags'),
                      'options': Obj('Options', {'debug': False, 'log': Opaque('log')})})
        for f, srt in fields:
            o.f[f] = Opt(z3.Bool(f + '_none'), z3.Int(f)) if srt == 'opt' else z3.Int(f)
        if extra_env:
            extra_env(w, o)
        return {'self': o, 'dest': Trace()}

    def sequel_env(eng, env_after, value):
        t = env_after['dest']
        t.cursor, t.reading = 0, True
        parent = Obj('Mp4Atom', {'tfhd': Obj('TrackFragmentHeaderBox', {
            'default_sample_duration': z3.Int('tfhd_duration'), 'default_sample_size': z3.Int('tfhd_size'),
            'default_sample_flags': z3.Int('tfhd_flags')})})
        return {'clz': Opaque('class:' + cls), 'src': t, 'parent': parent, 'self': env_after['self'], 'dest': t,
                'kwargs': {'options': Obj('Options', {'debug': False, 'log': Opaque('log')}),
                           # what Mp4Atom.parse (box header, not under contract) hands on: the box spans the trace
                           'initial_data': {'position': 0, 'size': t.total()}}}
    rt = roundtrip or ' and '.join(f"result['{f}'] == old(self.{f})" for f in names)
    ens = [('roundtrip', rt), ('consumed', 'consumed(dest)')]
    if size:
        ens.append(('encoded_size', f'nbytes(dest) == {size}'))
    return Contract(
        key=f'{MP4}:FullBox.encode_fields', variant=cls, props=['C04'],
        env=env,
        requires=[('version', ' or '.join(f'self.version == {v}' for v in version_values)),
                  ('flags_24bit', '0 <= self.flags and self.flags < 16777216')] + requires,
        models={'clz.classname': lambda eng, e, a, kw: Opaque('name'),
                'Mp4Atom.parse': lambda eng, e, a, kw: kw['initial_data'],
                'parent.find_atom': lambda eng, e, a, kw: Obj('Mp4Atom', {'position': z3.Int('moof_position')}),
                'self.find_atom': lambda eng, e, a, kw: Obj('Mp4Atom', {'position': z3.Int('moof_position')})},
        sequel={'qual': f'{cls}.parse', 'env': sequel_env},
        modifies=['self.base_data_offset'] if cls == 'TrackFragmentHeaderBox' else [],
        ensures=ens,
        canaries=["result['version'] == 0"],
        witness_terms=lambda w: (lambda ev: {k: ev(z3.Int(k)) for k in names}),
    )


u32 = lambda f: (f'u32_{f}', f'0 <= self.{f} and self.{f} < {U32}')


def atom_contract(cls, fields, size):
    """plain Mp4Atom subclass (no version/flags): <cls>.encode_fields then <cls>.parse"""
    def env(w):
        o = Obj(cls, {f: z3.Int(f) for f in fields})
        o.f['options'] = Obj('Options', {'debug': False, 'log': Opaque('log')})
        return {'self': o, 'dest': Trace()}

    def sequel_env(eng, env_after, value):
        t = env_after['dest']
        t.cursor, t.reading = 0, True
        opts = Obj('Options', {'debug': False, 'log': Opaque('log')})
        return {'clz': Opaque('class:' + cls), 'src': t, 'parent': Obj('Mp4Atom', {}), 'self': env_after['self'], 'dest': t,
                'options': opts, 'kwargs': {'initial_data': {}}}
    return Contract(
        key=f'{MP4}:{cls}.encode_fields', props=['C04'], env=env,
        requires=[u32(f) for f in fields],
        models={'clz.classname': lambda eng, e, a, kw: Opaque('name'),
                'Mp4Atom.parse': lambda eng, e, a, kw: kw['initial_data']},
        sequel={'qual': f'{cls}.parse', 'env': sequel_env},
        ensures=[('roundtrip', ' and '.join(f"result['{f}'] == old(self.{f})" for f in fields)),
                 ('consumed', 'consumed(dest)'), ('encoded_size', f'nbytes(dest) == {size}')],
        canaries=[f"result['{fields[0]}'] == 0"],
        witness_terms=lambda w: (lambda ev: {k: ev(z3.Int(k)) for k in fields}),
    )


BTRT = atom_contract('BitRateBox', ['bufferSizeDB', 'maxBitrate', 'avgBitrate'], 12)
PASP = atom_contract('PixelAspectRatioBox', ['h_spacing', 'v_spacing'], 8)

MFHD = box_contract('MovieFragmentHeaderBox', [('sequence_number', 'int')], [u32('sequence_number')],
                    size='8')
MEHD = box_contract('MovieExtendsHeaderBox', [('fragment_duration', 'int')],
                    [('fits_version', f'0 <= self.fragment_duration and self.fragment_duration < ({U64} if self.version == 1 else {U32})')],
                    size='12 if self.version == 1 else 8')
TREX = box_contract('TrackExtendsBox', [(f, 'int') for f in ('track_id', 'default_sample_description_index',
                                                              'default_sample_duration', 'default_sample_size',
                                                              'default_sample_flags')],
                    [u32(f) for f in ('track_id', 'default_sample_description_index', 'default_sample_duration',
                                      'default_sample_size', 'default_sample_flags')], size='24')
TFDT = box_contract('TrackFragmentDecodeTimeBox', [('base_media_decode_time', 'int')],
                    [('fits_version', f'0 <= self.base_media_decode_time and self.base_media_decode_time < '
                                      f'({U64} if self.version == 1 else {U32})')],
                    size='12 if self.version == 1 else 8')

TFHD_FLAGS = {'base_data_offset_present': 0x1, 'sample_description_index_present': 0x2,
              'default_sample_duration_present': 0x8, 'default_sample_size_present': 0x10,
              'default_sample_flags_present': 0x20, 'duration_is_empty': 0x10000, 'default_base_is_moof': 0x20000}


def tfhd_env(w, o):
    o.f.update(TFHD_FLAGS)
    o.f['base_data_offset'] = z3.Int('base_data_offset')


def has(bit):
    return f'(self.flags // {bit}) % 2 == 1'


TFHD = box_contract(
    'TrackFragmentHeaderBox',
    [('track_id', 'int'), ('sample_description_index', 'int'), ('default_sample_duration', 'int'),
     ('default_sample_size', 'int'), ('default_sample_flags', 'int')],
    [u32('track_id'), u32('sample_description_index'), u32('default_sample_duration'), u32('default_sample_size'),
     u32('default_sample_flags'), ('bdo', f'0 <= self.base_data_offset and self.base_data_offset < {U64}')],
    extra_env=tfhd_env,
    roundtrip=("result['version'] == old(self.version) and result['flags'] == old(self.flags) and "
               "result['track_id'] == old(self.track_id) and "
               f"(result['base_data_offset'] == old(self.base_data_offset) if {has(1)} else result['base_data_offset'] == moof_position) and "
               f"result['sample_description_index'] == (old(self.sample_description_index) if {has(2)} else 0) and "
               f"result['default_sample_duration'] == (old(self.default_sample_duration) if {has(8)} else 0) and "
               f"result['default_sample_size'] == (old(self.default_sample_size) if {has(16)} else 0) and "
               f"result['default_sample_flags'] == (old(self.default_sample_flags) if {has(32)} else 0)"),
)
TFHD.witness_terms = lambda w: (lambda ev: {k: ev(z3.Int(k)) for k in ('version', 'flags', 'track_id', 'base_data_offset',
                                                                        'sample_description_index', 'default_sample_duration',
                                                                        'default_sample_size', 'default_sample_flags', 'moof_position')})

TRUN_FLAGS = {'data_offset_present': 0x1, 'first_sample_flags_present': 0x4, 'sample_duration_present': 0x100,
              'sample_size_present': 0x200, 'sample_flags_present': 0x400, 'sample_composition_time_offsets_present': 0x800}


def trun_env(w, o):
    o.f.update(TRUN_FLAGS)
    o.f.update(sample_count=0, samples=PyList([]), data_offset=z3.Int('data_offset'),
               first_sample_flags=z3.Int('first_sample_flags'))


# trun header with an empty sample list (the sample loop is list-bearing: not covered). ISO/IEC 14496-12 defines
# data_offset as a *signed* 32-bit integer and the parser reads it as one.
TRUN = box_contract(
    'TrackFragmentRunBox', [],
    [('data_offset_int32', 'self.data_offset >= -2147483648 and self.data_offset < 2147483648'),
     u32('first_sample_flags')],
    extra_env=trun_env,
    roundtrip=("result['version'] == old(self.version) and result['flags'] == old(self.flags) and result['sample_count'] == 0 and "
               f"result['data_offset'] == (old(self.data_offset) if {has(1)} else 0) and "
               f"result['first_sample_flags'] == (old(self.first_sample_flags) if {has(4)} else 0)"),
)
TRUN.modifies = ['self._first_field_pos']
TRUN.mod_types = {}
TRUN.witness_terms = lambda w: (lambda ev: {k: ev(z3.Int(k)) for k in ('version', 'flags', 'data_offset', 'first_sample_flags')})

# --- tenc: 3-byte is_encrypted, iv_size, 16-byte default key id (Binary: the writer unwraps .data)
def tenc_env(w, o):
    from pyvc.models.trace import Packed
    o.f.update(is_encrypted=z3.Int('is_encrypted'), iv_size=z3.Int('iv_size'),
               default_kid=Obj('Binary', {'data': Packed(16, z3.Int('default_kid'))}))


TENC = box_contract(
    'TrackEncryptionBox', [], [('is_encrypted_24bit', '0 <= self.is_encrypted and self.is_encrypted < 16777216'),
                               ('iv_size_8bit', '0 <= self.iv_size and self.iv_size < 256'),
                               ('kid_128bit', f'0 <= default_kid and default_kid < {2 ** 128}')],
    version_values=(0,), extra_env=tenc_env, size='24',
    roundtrip=("result['version'] == old(self.version) and result['flags'] == old(self.flags) and "
               "result['is_encrypted'] == old(self.is_encrypted) and result['iv_size'] == old(self.iv_size) and "
               "bytes_value(result['default_kid']) == default_kid"),
)
TENC.canaries = ["result['iv_size'] == 0"]
TENC.witness_terms = lambda w: (lambda ev: {k: ev(z3.Int(k)) for k in ('version', 'flags', 'is_encrypted', 'iv_size', 'default_kid')})

# --- mdhd: creation / modification time as seconds since 1904 (32 or 64 bit), timescale, duration, packed language
ISO_EPOCH_US = -2082844800 * 10 ** 6


def mdhd_env(w, o):
    o.f.update(creation_time=DT(ISO_EPOCH_US + 10 ** 6 * z3.Int('creation_s')),
               modification_time=DT(ISO_EPOCH_US + 10 ** 6 * z3.Int('modification_s')),
               language='und')


def fits_v(f):
    return (f'fits_{f}', f'0 <= {f} and {f} < ({U64} if self.version == 1 else {U32})')


MDHD = box_contract(
    'MediaHeaderBox', [('timescale', 'int'), ('duration', 'int')],
    [u32('timescale'), fits_v('self.duration'), fits_v('creation_s'), fits_v('modification_s')],
    extra_env=mdhd_env, size='36 if self.version == 1 else 24',
    roundtrip=("result['version'] == old(self.version) and result['flags'] == old(self.flags) and "
               "result['timescale'] == old(self.timescale) and result['duration'] == old(self.duration) and "
               "result['creation_time'] == old(self.creation_time) and "
               "result['modification_time'] == old(self.modification_time) and result['language'] == 'und'"),
)
MDHD.witness_terms = lambda w: (lambda ev: {k: ev(z3.Int(k)) for k in ('version', 'flags', 'timescale', 'duration', 'creation_s', 'modification_s')})

# --- emsg (C14: what an inband event carries): two null-terminated strings (fixed representative texts - the string
# codec runs on concrete bytes), timescale, presentation time (delta: 32 bit in v0, absolute 64 bit in v1), duration,
# id and an optional payload
EMSG_SCHEME, EMSG_VALUE = 'urn:scte:scte35:2014:xml+bin', '5'
EMSG_INTS = ('timescale', 'presentation_time_delta', 'presentation_time', 'event_duration', 'event_id')


def emsg_contract(payload):
    def env(w, o):
        from pyvc.models.trace import Packed
        o.f.update(scheme_id_uri=EMSG_SCHEME, value=EMSG_VALUE,
                   data=Packed(7, z3.Int('payload')) if payload else None)
    strings = len(EMSG_SCHEME) + 1 + len(EMSG_VALUE) + 1
    c = box_contract(
        'EventMessageBox', [(f, 'int') for f in EMSG_INTS],
        [u32('timescale'), u32('presentation_time_delta'), u32('event_duration'), u32('event_id'),
         ('u64_presentation_time', f'0 <= self.presentation_time and self.presentation_time < {U64}'),
         ('payload_7_bytes', f'0 <= payload and payload < {256 ** 7}')],
        extra_env=env, size=f'({4 + 20 + strings} if self.version == 1 else {4 + 16 + strings}) + {7 if payload else 0}',
        roundtrip=("result['version'] == old(self.version) and result['flags'] == old(self.flags) and "
                   "result['timescale'] == old(self.timescale) and result['event_duration'] == old(self.event_duration) and "
                   "result['event_id'] == old(self.event_id) and "
                   "(result['presentation_time'] == old(self.presentation_time) if self.version == 1 else "
                   "result['presentation_time_delta'] == old(self.presentation_time_delta)) and "
                   f"result['scheme_id_uri'] == '{EMSG_SCHEME}' and result['value'] == '{EMSG_VALUE}' and "
                   + ("bytes_value(result['data']) == payload" if payload else "is_unset(result['data'])")),
    )
    c.variant = f'EventMessageBox{"+payload" if payload else ""}'
    c.props = ['C04', 'C14']
    c.canaries = ["result['event_id'] == 0"]
    c.witness_terms = lambda w: (lambda ev: {k: ev(z3.Int(k)) for k in ('version', 'flags', 'payload') + EMSG_INTS})
    return c


EMSG = [emsg_contract(False), emsg_contract(True)]

# --- pssh (C10/C11 ingredient): system id, version-1 key id list, opaque data
def pssh_contract(nkids, with_data):
    def env(w, o):
        from pyvc.models.trace import Packed
        B = lambda name, n: Obj('Binary', {'data': Packed(n, z3.Int(name))})
        o.f.update(system_id=B('system_id', 16), key_ids=PyList([B(f'kid{k}', 16) for k in range(nkids)]),
                   data=B('payload', 7) if with_data else None)
    kid_terms = ''.join(f" and bytes_value(result['key_ids'][{k}]) == kid{k}" for k in range(nkids))
    c = box_contract(
        'ContentProtectionSpecificBox', [],
        [(f'b128_{n}', f'0 <= {n} and {n} < {2 ** 128}') for n in ['system_id'] + [f'kid{k}' for k in range(nkids)]] +
        [('payload_7_bytes', f'0 <= payload and payload < {256 ** 7}')],
        extra_env=env,
        size=f'4 + 16 + (4 + 16 * {nkids} if self.version == 1 else 0) + 4 + {7 if with_data else 0}',
        roundtrip=("result['version'] == old(self.version) and result['flags'] == old(self.flags) and "
                   "bytes_value(result['system_id']) == system_id and "
                   f"length(result['key_ids']) == ({nkids} if self.version == 1 else 0)"
                   + (f" and (True if self.version == 0 else (True{kid_terms}))" if nkids else '') + " and "
                   + ("bytes_value(result['data']) == payload" if with_data else "is_unset(result['data'])")),
    )
    c.variant = f'ContentProtectionSpecificBox+{nkids}kids{"+data" if with_data else ""}'
    c.props = ['C04', 'C11', 'C10']
    c.canaries = ["result['version'] == 0"]
    c.witness_terms = lambda w: (lambda ev: {k: ev(z3.Int(k)) for k in ['version', 'flags', 'system_id', 'payload'] + [f'kid{k}' for k in range(nkids)]})
    return c


PSSH = [pssh_contract(0, False), pssh_contract(1, True), pssh_contract(2, True), pssh_contract(3, False)]

# --- sidx (on-demand profile index): header + a list of 12-byte references packed from bit fields
SIDX_REF_FIELDS = [('ref_type', 1), ('ref_size', 31), ('duration', 32), ('starts_with_SAP', 1), ('SAP_type', 3), ('SAP_delta_time', 28)]
BFR = 'dashlive/utils/fio/bits_field_reader.py'


def sidx_contract(nrefs):
    def env(w, o):
        refs = []
        for k in range(nrefs):
            refs.append(Obj('SegmentReference', {f: z3.Int(f'r{k}_{f}') for f, _ in SIDX_REF_FIELDS}))
        o.f.update(reference_id=z3.Int('reference_id'), timescale=z3.Int('timescale'),
                   earliest_presentation_time=z3.Int('earliest_presentation_time'), first_offset=z3.Int('first_offset'),
                   references=PyList(refs))
    req = [u32('reference_id'), u32('timescale'), fits_v('self.earliest_presentation_time'), fits_v('self.first_offset')]
    rt = ("result['version'] == old(self.version) and result['flags'] == old(self.flags) and "
          "result['reference_id'] == old(self.reference_id) and result['timescale'] == old(self.timescale) and "
          "result['earliest_presentation_time'] == old(self.earliest_presentation_time) and "
          f"result['first_offset'] == old(self.first_offset) and length(result['references']) == {nrefs}")
    for k in range(nrefs):
        for f, bits in SIDX_REF_FIELDS:
            req.append((f'r{k}_{f}_{bits}bit', f'0 <= r{k}_{f} and r{k}_{f} < {2 ** bits}'))
            if bits == 1:
                rt += f" and result['references'][{k}].{f} == (r{k}_{f} == 1)"
            else:
                rt += f" and result['references'][{k}].{f} == r{k}_{f}"
    c = box_contract('SegmentIndexBox', [], req, extra_env=env, roundtrip=rt,
                     size=f'(32 if self.version == 1 else 24) + 12 * {nrefs}')
    c.variant = f'SegmentIndexBox+{nrefs}refs'
    c.props = ['C04', 'C06']
    c.ctors = {'SegmentReference': lambda eng, a, kw: Obj('SegmentReference', dict(kw))}
    from pyvc.models.trace import BITSTRING_MODELS
    c.models = dict(c.models, **BITSTRING_MODELS)
    c.canaries = ["result['timescale'] == 0"]
    names = ['version', 'flags', 'reference_id', 'timescale', 'earliest_presentation_time', 'first_offset'] + \
            [f'r{k}_{f}' for k in range(nrefs) for f, _ in SIDX_REF_FIELDS]
    c.witness_terms = lambda w: (lambda ev: {k: ev(z3.Int(k)) for k in names})
    return c


SIDX = [sidx_contract(0), sidx_contract(1), sidx_contract(2)]

# --- saiz (sizes of the per-sample auxiliary information): optional aux type, default size, per-sample table iff the default is 0
def saiz_contract(k, default_zero):
    def env(w, o):
        o.f.update(aux_info_type=z3.Int('aux_info_type'), aux_info_type_parameter=z3.Int('aux_info_type_parameter'),
                   default_sample_info_size=0 if default_zero else z3.Int('default_sample_info_size'),
                   sample_count=z3.Int('sample_count'), sample_info_sizes=PyList([z3.Int(f'sz{j}') for j in range(k)]))
    has_aux = '(old(self.flags) % 2 == 1)'
    req = [u32('aux_info_type'), u32('aux_info_type_parameter'), u32('sample_count')] + \
          [(f'sz{j}_u8', f'0 <= sz{j} and sz{j} < 256') for j in range(k)]
    if not default_zero:
        req.append(('default_size_u8', '1 <= self.default_sample_info_size and self.default_sample_info_size < 256'))
    rt = ("result['version'] == old(self.version) and result['flags'] == old(self.flags) and "
          f"(result['aux_info_type'] == old(self.aux_info_type) and result['aux_info_type_parameter'] == old(self.aux_info_type_parameter) "
          f"if {has_aux} else True) and result['default_sample_info_size'] == old(self.default_sample_info_size) and ")
    if default_zero:
        rt += f"result['sample_count'] == {k} and length(result['sample_info_sizes']) == {k}" + \
              ''.join(f" and result['sample_info_sizes'][{j}] == sz{j}" for j in range(k))
    else:
        rt += "result['sample_count'] == old(self.sample_count) and length(result['sample_info_sizes']) == 0"
    c = box_contract('SampleAuxiliaryInformationSizesBox', [], req, version_values=(0,), extra_env=env, roundtrip=rt,
                     size=f'4 + (8 if {has_aux} else 0) + 1 + 4 + {k if default_zero else 0}')
    c.variant = f'SampleAuxiliaryInformationSizesBox+{k}sizes-{"table" if default_zero else "default"}'
    c.props = ['C04', 'C03']
    c.modifies = ['self.sample_count']
    c.canaries = ["result['sample_count'] == 77"]
    names = ['version', 'flags', 'aux_info_type', 'aux_info_type_parameter', 'sample_count'] + [f'sz{j}' for j in range(k)] + \
            ([] if default_zero else ['default_sample_info_size'])
    c.witness_terms = lambda w: (lambda ev: {n: ev(z3.Int(n)) for n in names})
    return c


# --- JSON form of saiz / saio: aux_info_type goes out as '0x..' text and must come back as the same number
def aux_json_contract(cls, has_aux):
    def env(w):
        o = Obj(cls, {'_fields': PyList(['version', 'flags'] + (['aux_info_type'] if has_aux else [])), 'version': 0,
                      'flags': 1 if has_aux else 0})
        if has_aux:
            o.f['aux_info_type'] = z3.Int('aux_info_type')
        return {'self': o, 'exclude': Obj('Set', {})}

    def super_to_json(eng, e, a, kw):
        return {'version': 0, 'flags': 1 if has_aux else 0, '_type': 'dashlive.mpeg.mp4.' + cls}

    def sequel_env(eng, env_after, value):
        # the rebuilt box: a new object (its field registry is what ObjectWithFields.__init__ sets up - not under contract)
        return {'self': Obj(cls, {'_fields': env_after['self'].f['_fields']}), 'kwargs': dict(value), 'exclude': env_after['exclude']}

    def super_init(eng, e, a, kw):
        eng.lookup('self').f.update(kw)
    return Contract(
        key=f'{MP4}:{cls}._to_json', variant='aux' if has_aux else 'no-aux', props=['C04'], env=env,
        requires=[u32('aux_info_type')] if has_aux else [],
        models={'super(FullBox, self)._to_json': super_to_json, 'exclude.add': lambda eng, e, a, kw: None,
                'super().__init__': super_init},
        sequel={'qual': f'{cls}.__init__', 'env': sequel_env},
        ensures=[('aux_info_type_survives_json', 'self.aux_info_type == aux_info_type' if has_aux else "not has_attr(self, 'aux_info_type')"),
                 ('other_fields_kept', 'self.version == 0 and self.flags == ' + ('1' if has_aux else '0'))],
        canaries=['self.flags == 7'],
        witness_terms=lambda w: (lambda ev: {'aux_info_type': ev(z3.Int('aux_info_type'))}),
    )


AUX_JSON = [aux_json_contract(c, a) for c in ('SampleAuxiliaryInformationSizesBox', 'SampleAuxiliaryInformationOffsetsBox')
            for a in (True, False)]

# --- saio (offsets of the per-sample auxiliary information): optional aux type, 32- or 64-bit entries, the list as given
def saio_box_contract(k):
    def env(w, o):
        o.f.update(aux_info_type=z3.Int('aux_info_type'), aux_info_type_parameter=z3.Int('aux_info_type_parameter'),
                   offsets=PyList([z3.Int(f'off{j}') for j in range(k)]))
    has_aux = '(old(self.flags) % 2 == 1)'
    req = [u32('aux_info_type'), u32('aux_info_type_parameter')] + \
          [(f'off{j}_fits_version', f'0 <= off{j} and off{j} < ({U64} if self.version == 1 else {U32})') for j in range(k)]
    rt = ("result['version'] == old(self.version) and result['flags'] == old(self.flags) and "
          f"(result['aux_info_type'] == old(self.aux_info_type) and result['aux_info_type_parameter'] == old(self.aux_info_type_parameter) "
          f"if {has_aux} else True) and length(result['offsets']) == {k}" + ''.join(f" and result['offsets'][{j}] == off{j}" for j in range(k)))
    c = box_contract('SampleAuxiliaryInformationOffsetsBox', [], req, extra_env=env, roundtrip=rt,
                     size=f'4 + (8 if {has_aux} else 0) + 4 + {k} * (8 if self.version == 1 else 4)')
    c.variant = f'SampleAuxiliaryInformationOffsetsBox+{k}offsets'
    c.props = ['C04', 'C03']
    # an offsets list that is given (even an empty one) is written as it is; only `None` asks for the senc position
    c.models = dict(c.models, **{'self.find_first_cenc_sample': lambda eng, e, a, kw: Opt(z3.Bool('senc_missing'), z3.Int('senc_pos'))})
    c.canaries = ["length(result['offsets']) == 7"]
    names = ['version', 'flags', 'aux_info_type', 'aux_info_type_parameter'] + [f'off{j}' for j in range(k)]
    c.witness_terms = lambda w: (lambda ev: dict({n: ev(z3.Int(n)) for n in names + ['senc_pos']}, senc_missing=ev(z3.Bool('senc_missing'))))
    return c


SAIO_BOX = [saio_box_contract(0), saio_box_contract(1), saio_box_contract(2)]

SAIZ = [saiz_contract(0, True), saiz_contract(1, True), saiz_contract(3, True), saiz_contract(2, False)]

# --- trun with its sample table (k samples; every optional per-sample field governed by the trun flags)
def trun_samples_contract(k, flags_value):
    SF = ('duration', 'size', 'flags', 'composition_time_offset')

    def env(w, o):
        o.f.update(TRUN_FLAGS)
        samples = [Obj('TrackSample', dict({f: z3.Int(f's{j}_{f}') for f in SF}, parent=o)) for j in range(k)]
        o.f.update(sample_count=k, samples=PyList(samples), data_offset=z3.Int('data_offset'),
                   first_sample_flags=z3.Int('first_sample_flags'), flags=flags_value)
    req = [('data_offset_int32', 'self.data_offset >= -2147483648 and self.data_offset < 2147483648'), u32('first_sample_flags'),
           ('tfhd_defaults', f'0 <= tfhd_duration and tfhd_duration < {U32} and 0 <= tfhd_size and tfhd_size < {U32} and '
                             f'0 <= tfhd_flags and tfhd_flags < {U32}')]
    for j in range(k):
        for f in SF[:3]:
            req.append((f's{j}_{f}_u32', f'0 <= s{j}_{f} and s{j}_{f} < {U32}'))
        req.append((f's{j}_cto_fits_version', f'(-2147483648 <= s{j}_composition_time_offset and s{j}_composition_time_offset < 2147483648) '
                                              f'if self.version == 1 else (0 <= s{j}_composition_time_offset and s{j}_composition_time_offset < {U32})'))
    rt = ("result['version'] == old(self.version) and result['flags'] == old(self.flags) and "
          f"result['sample_count'] == {k} and length(result['samples']) == {k} and "
          f"result['data_offset'] == (old(self.data_offset) if {has(1)} else 0) and "
          f"result['first_sample_flags'] == (old(self.first_sample_flags) if {has(4)} else 0)")
    offset = "result['data_offset']"
    for j in range(k):
        smp = f"result['samples'][{j}]"
        dur = f"(sample_duration({smp}) == s{j}_duration if {has(0x100)} else " \
              f"(sample_duration({smp}) == tfhd_duration if tfhd_duration != 0 else no_duration({smp})))"
        size = f"{smp}.size == (s{j}_size if {has(0x200)} else tfhd_size)"
        fl = f"(s{j}_flags if {has(0x400)} else tfhd_flags)"
        if j == 0:
            fl = f"(old(self.first_sample_flags) if {has(4)} else {fl})"
        cto = f"({smp}.composition_time_offset == s{j}_composition_time_offset if {has(0x800)} else True)"
        rt += f" and {dur} and {size} and {smp}.flags == {fl} and {cto} and {smp}.index == {j} and {smp}.offset == {offset}"
        offset = f"({offset} + {smp}.size)"
    c = box_contract('TrackFragmentRunBox', [], req, extra_env=env, roundtrip=rt)
    c.variant = f'TrackFragmentRunBox+{k}samples+flags{flags_value:03x}'
    c.modifies = ['self._first_field_pos']
    c.mod_types = {}
    c.ctors = {'TrackSample': lambda eng, a, kw: Obj('TrackSample', dict(kw))}
    c.canaries = ["result['samples'][0].size == 0"]
    names = ['version', 'data_offset', 'first_sample_flags', 'tfhd_duration', 'tfhd_size', 'tfhd_flags'] + \
            [f's{j}_{f}' for j in range(k) for f in SF]
    c.witness_terms = lambda w: (lambda ev: dict({n: ev(z3.Int(n)) for n in names}, flags=flags_value))
    return c


def _trun_flag_sets():
    bits = (0x1, 0x4, 0x100, 0x200, 0x400, 0x800)
    for m in range(64):
        yield sum(b for j, b in enumerate(bits) if (m >> j) & 1)


# every combination of the six trun flags (concrete), two samples each; one sample for the all-fields case
TRUN_SAMPLES = [trun_samples_contract(2, f) for f in _trun_flag_sets()] + [trun_samples_contract(1, 0xF05)]

# inline helpers reached through self.encode_box_fields(dest)
INLINE = [Contract(key=f'{MP4}:{cls}.encode_box_fields', props=[], inline=True)
          for cls in ('MovieFragmentHeaderBox', 'MovieExtendsHeaderBox', 'TrackExtendsBox', 'TrackFragmentDecodeTimeBox',
                      'TrackFragmentHeaderBox', 'TrackFragmentRunBox', 'TrackEncryptionBox', 'MediaHeaderBox', 'EventMessageBox', 'ContentProtectionSpecificBox', 'SegmentIndexBox',
                      'SampleAuxiliaryInformationSizesBox', 'SampleAuxiliaryInformationOffsetsBox')] + \
         [Contract(key=f'{MP4}:FullBox.parse', props=[], inline=True),
          Contract(key=f'{MP4}:TrackFragmentRunBox.output_box_fields', props=[], inline=True),
          Contract(key='dashlive/utils/binary.py:Binary.__len__', props=[], inline=True),
          Contract(key='dashlive/utils/date_time.py:to_iso_epoch', props=[], inline=True),
          Contract(key='dashlive/utils/date_time.py:from_iso_epoch', props=[], inline=True),
          Contract(key=f'{MP4}:TrackSample.encode', props=[], inline=True),
          Contract(key=f'{MP4}:TrackSample.parse', props=[], inline=True),
          Contract(key=f'{MP4}:SegmentReference.encode', props=[], inline=True),
          Contract(key=f'{MP4}:SegmentReference.parse', props=[], inline=True),
          Contract(key=f'{FIO_W}:FieldWriter.writebits', props=[], inline=True),
          Contract(key=f'{FIO_W}:FieldWriter.done', props=[], inline=True),
          Contract(key=f'{BFR}:BitsFieldReader.read', props=[], inline=True),
          Contract(key=f'{BFR}:BitsFieldReader.get', props=[], inline=True),
          Contract(key=f'{FIO_W}:FieldWriter.write', props=[], inline=True),
          Contract(key=f'{FIO_R}:FieldReader.read', props=[], inline=True),
          Contract(key=f'{FIO_R}:FieldReader.get', props=[], inline=True),
          Contract(key=f'{FIO_R}:FieldReader.skip', props=[], inline=True)]


# ----------------------------------------------------------------------------- tfdt: 32 -> 64 bit switch (C02)
def setattr_models():
    def obj_setattr(eng, e, args, kw):
        args[0].f[args[1]] = args[2]

    def super_setattr(eng, e, args, kw):
        eng.lookup('self').f[args[0]] = args[1]
    return {'object.__setattr__': obj_setattr, 'super().__setattr__': super_setattr,
            'self.update_size': lambda eng, e, a, kw: None}


TFDT_SETATTR = Contract(
    key=f'{MP4}:TrackFragmentDecodeTimeBox.__setattr__', variant='base_media_decode_time', props=['C02', 'C04'],
    env=lambda w: {'self': Obj('TrackFragmentDecodeTimeBox', {'version': z3.Int('version'),
                                                              'base_media_decode_time': z3.Int('bmdt')}),
                   'name': 'base_media_decode_time', 'value': z3.Int('value')},
    requires=[('version', 'self.version == 0 or self.version == 1'), ('nonneg', f'0 <= value and value < {U64}')],
    models=setattr_models(),
    modifies=['self.version', 'self.base_media_decode_time'],
    ensures=[('stored', 'self.base_media_decode_time == value'),
             ('widened', f'self.version == (1 if (old(self.version) == 1 or value >= {U32}) else 0)'),
             ('encodable', f'self.version == 1 or self.base_media_decode_time < {U32}')],
    canaries=['self.version == 0'],
    witness_terms=lambda w: (lambda ev: {k: ev(z3.Int(k)) for k in ('version', 'bmdt', 'value')}),
)

# ----------------------------------------------------------------------------- the box header parser (C04 / C16)
class HeaderSource:
    """A readable source of `total` bytes positioned at `pos0`, whose next bytes are a box header: 32-bit size, four type
    bytes (concrete per variant), then - if asked for - a 64-bit size and / or 16 uuid bytes.  read(n) returns fewer than
    n bytes when the source ends (the case a truncated upload exercises)."""

    def __init__(self, w, type_bytes):
        self.w, self.type_bytes, self.cursor = w, type_bytes, w['pos0']

    def avail(self):
        return self.w['total'] - self.cursor

    def method(self, eng, name, args, kwargs, e):
        w = self.w
        if name == 'tell':
            return self.cursor
        if name == 'seek':
            if len(args) == 2 and args[0] == 0 and args[1] == 2:
                self.cursor = w['total']
            elif len(args) == 1:
                self.cursor = zint(args[0])
            else:
                raise Unsupported('seek form')
            return self.cursor
        if name == 'read' and isinstance(args[0], int):
            n = args[0]
            off = z3.simplify(self.cursor - w['pos0'])
            enough = eng.branch(self.avail() >= n)
            if not enough:
                got = ShortBytes(self.avail())
                self.cursor = w['total']
                return got
            self.cursor = self.cursor + n
            if off.eq(z3.IntVal(0)) and n == 8:
                return HeaderBytes(w['size32'], self.type_bytes)
            if n == 8:
                return Packed8(w['size64'])
            return UuidBytes()
        raise Unsupported(f'source.{name}')


class ShortBytes:
    py_types = ('bytes',)

    def __init__(self, n):
        self.n = n                      # 0 <= n < what was asked for

    def len(self, eng):
        return self.n

    def truthy(self):
        return self.n > 0


class HeaderBytes:
    py_types = ('bytes',)

    def __init__(self, size32, type_bytes):
        self.size32, self.type_bytes = size32, type_bytes

    def len(self, eng):
        return 8

    def truthy(self):
        return True


class Packed8(HeaderBytes):
    def __init__(self, v):
        self.v = v


class UuidBytes(HeaderBytes):
    def __init__(self):
        pass

    def len(self, eng):
        return 16


def header_unpack(eng, e, a, kw):
    fmt, data = a
    if fmt == '>I4s' and isinstance(data, HeaderBytes) and not isinstance(data, (Packed8, UuidBytes)):
        return (data.size32, data.type_bytes)
    if fmt == '>Q' and isinstance(data, Packed8):
        return (data.v,)
    if fmt == '>Q' and isinstance(data, ShortBytes):
        raise PyRaise('struct.error')          # unpack requires a buffer of 8 bytes
    raise Unsupported(f'struct.unpack({fmt!r}) of {type(data).__name__}')


def header_contract(label, type_bytes):
    ascii_ok = all(c < 128 for c in type_bytes)
    is_uuid = type_bytes == b'uuid'
    none_when = 'total - pos0 < 8 or (size32 == 1 and (total - pos0 < 16 or size64 == 0))' + ('' if ascii_ok else ' or True')
    hdr = '(16 if size32 == 1 else 8)' + (' + 16' if is_uuid else '')
    return Contract(
        key=f'{MP4}:Mp4Atom.parse', variant=label, props=['C04', 'C16'],
        env=lambda w: {'cls': Opaque('class:Mp4Atom'), 'src': HeaderSource(w, type_bytes), 'parent': None,
                       'options': Obj('Options', {'log': Opaque('log')}), 'kwargs': {}},
        requires=[('source', f'pos0 >= 0 and total >= pos0 and 0 <= size32 and size32 < {U32} and 0 <= size64 and size64 < {U64}'),
                  # region: a uuid box header is followed by its 16 uuid bytes (the code does not check their length)
                  ('region_uuid_complete', 'True' if not is_uuid else 'total - pos0 >= (32 if size32 == 1 else 24)')],
        models={'struct.unpack': header_unpack, 'options.log.debug': lambda eng, e, a, kw: None,
                "b''.join": lambda eng, e, a, kw: Opaque('header-bytes'), 'binascii.b2a_hex': lambda eng, e, a, kw: Opaque('hex')},
        ensures=[('unreadable_header_ends_the_scan', f'is_unset(result) == ({none_when})'),
                 ('position', f"True if ({none_when}) else result['position'] == pos0"),
                 ('size', f"True if ({none_when}) else result['size'] == (total - pos0 if size32 == 0 else (size64 if size32 == 1 else size32))"),
                 ('header_size', f"True if ({none_when}) else result['header_size'] == {hdr}"),
                 # what lets the scan loop of Mp4Atom.load advance (cursor += size): a header that is returned never has size 0
                 ('a_returned_header_has_a_positive_size', f"True if ({none_when}) else result['size'] >= 1")],
        canaries=['is_unset(result)' if ascii_ok else 'not is_unset(result)'],
        witness_terms=lambda w: (lambda ev: {k: ev(z3.Int(k)) for k in ('pos0', 'total', 'size32', 'size64')}),
    )


HEADER = [header_contract('mdat', b'mdat'), header_contract('uuid', b'uuid'), header_contract('non-ascii-type', b'\xff\xfe\xfd\xfc')]


# ----------------------------------------------------------------------------- C03: two-pass encode, sizes back-patched
def encode_contract(nchildren, depth):
    """Mp4Atom.encode (not pre-encoded): position, size, the back-patched size field, child placement.  The recursive
    child.encode calls are replaced by this very contract (induction over the depth of the tree): a child writes
    child.size >= 8 bytes starting at the current end, its first four bytes hold child.size."""
    from pyvc.models.trace import SizedStream

    def env(w):
        kids = [Obj('Mp4Atom', {'atom_type': 'chld'}) for _ in range(nchildren)]
        o = Obj('Mp4Atom', {'atom_type': 'moof', '_encoded': None, '_children': PyList(kids) if nchildren else None,
                            '_fullname': Opaque('name'), 'position': z3.Int('old_position'), 'size': z3.Int('old_size'),
                            'options': Obj('Options', {'log': Opaque('log'), 'strict': False})})
        return {'self': o, 'dest': SizedStream(z3.Int('p0')), 'depth': depth, '__kids__': PyList(kids)}

    def encode_fields(eng, e, a, kw):
        kw['dest'].append_abstract(eng.world['fields_len'], ('fields',))

    def child_encode(eng, e, a, kw):
        child = eng.eval(e.func.value)
        out = kw['dest']
        k = [id(x) for x in eng.lookup('__kids__').items].index(id(child))
        size = eng.world[f'child{k}_size']
        child.f['position'] = out.method(eng, 'tell', [], {}, e)
        child.f['size'] = size
        out.append_abstract(4, ('value', size))
        out.append_abstract(size - 4, ('child-body', k))
        if kw.get('depth') != depth + 1:
            eng.oblige('call', 'child.encode.depth', z3.BoolVal(False))
    total = '8 + fields_len' + ''.join(f' + child{k}_size' for k in range(nchildren))
    ens = [('position_is_where_it_was_written', 'self.position == p0'),
           ('size_covers_header_fields_children', f'self.size == {total}'),
           ('stream_ends_after_the_box', 'stream_end(dest) == p0 + self.size and at_end(dest)'),
           ('size_field_back_patched', 'size_field(dest, p0) == self.size'),
           ('what_was_there_is_untouched', 'prefix_untouched(dest)')]
    for k in range(nchildren):
        prev = 'p0 + 8 + fields_len' if k == 0 else f'__kids__[{k - 1}].position + __kids__[{k - 1}].size'
        ens.append((f'child{k}_follows', f'__kids__[{k}].position == {prev}'))
    return Contract(
        key=f'{MP4}:Mp4Atom.encode', variant=f'{nchildren}children-depth{depth}', props=['C03', 'C04'], env=env,
        requires=[('stream', 'p0 >= 0 and fields_len >= 0'),
                  ('children', ' and '.join([f'child{k}_size >= 8' for k in range(nchildren)] or ['True'])),
                  ('region_32bit_size', f'{total} < {U32}')],
        models={'self.options.log.debug': lambda eng, e, a, kw: None, 'self.classname': lambda eng, e, a, kw: Opaque('cls'),
                'self.encode_fields': encode_fields, 'child.encode': child_encode,
                'self.post_encode_all': lambda eng, e, a, kw: None},
        modifies=['self.position', 'self.size'],
        ensures=ens,
        canaries=['self.size == 8'],
        witness_terms=lambda w: (lambda ev: {k: ev(z3.Int(k)) for k in ['p0', 'fields_len', 'old_position', 'old_size'] +
                                             [f'child{k}_size' for k in range(nchildren)]}),
    )


ENCODE = [encode_contract(0, 1), encode_contract(2, 0), encode_contract(3, 2)]


# ----------------------------------------------------------------------------- C03: offsets after re-encoding
def stream_models(extra=None):
    m = {'dest.tell': lambda eng, e, a, kw: fresh('tell'), 'dest.seek': lambda eng, e, a, kw: None,
         'object.__delattr__': lambda eng, e, a, kw: a[0].f.pop(a[1], None)}
    m.update(extra or {})
    return m


def trun_post_env(w):
    tfhd = Obj('TrackFragmentHeaderBox', {'base_data_offset': z3.Int('base_data_offset')})
    moof = Obj('MovieFragmentBox', {'position': z3.Int('moof_position'), 'size': z3.Int('moof_size'),
                                    'traf': Obj('TrackFragmentBox', {'tfhd': tfhd})})
    o = Obj('TrackFragmentRunBox', dict(TRUN_FLAGS, flags=z3.Int('flags'), data_offset=z3.Int('data_offset'),
                                        position=z3.Int('position'), header_size=z3.Int('header_size'),
                                        _first_field_pos=z3.Int('first_field_pos'), _fullname=Opaque('name'),
                                        options=Obj('Options', {'log': Opaque('log')})))
    return {'self': o, 'dest': Opaque('stream'), '__moof__': moof,
            '__mdat__': Obj('MediaDataBox', {'header_size': z3.Int('mdat_header_size')})}


TRUN_POST_ENCODE = Contract(
    key=f'{MP4}:TrackFragmentRunBox.post_encode', props=['C03'],
    env=trun_post_env,
    requires=[('flags_24bit', '0 <= self.flags and self.flags < 16777216'),
              ('layout', 'moof_position >= 0 and moof_size >= 8 and mdat_header_size >= 8'),
              # region: the track's base data offset does not lie behind the payload (otherwise the code asserts)
              ('region_base_not_after_payload', 'base_data_offset <= moof_position + moof_size + mdat_header_size')],
    models=stream_models({'self.find_atom': lambda eng, e, a, kw: eng.lookup('__moof__'),
                          'moof.find_peer': lambda eng, e, a, kw: eng.lookup('__mdat__'),
                          'self.encode_fields': lambda eng, e, a, kw: None,
                          'self.output_box_fields': lambda eng, e, a, kw: None}),
    modifies=['self.data_offset', 'self.flags', 'self._first_field_pos'],
    ensures=[('addresses_first_payload_byte',
              '(self.flags // 1) % 2 == 1 and base_data_offset + self.data_offset == moof_position + moof_size + mdat_header_size '
              'if not ((old(self.flags) // 1) % 2 == 0 and base_data_offset == moof_position + moof_size + mdat_header_size) else '
              'self.flags == old(self.flags)'),
             ('offset_nonneg', 'self.data_offset >= 0 if (self.flags // 1) % 2 == 1 and self.data_offset != old(self.data_offset) else True'),
             ('other_flags_kept', 'self.flags // 2 == old(self.flags) // 2')],
    canaries=['self.data_offset == old(self.data_offset)'],
    witness_terms=lambda w: (lambda ev: {k: ev(z3.Int(k)) for k in ('flags', 'data_offset', 'base_data_offset', 'moof_position',
                                                                    'moof_size', 'mdat_header_size', 'position', 'header_size')}),
)


def saio_env(offsets):
    def env(w):
        senc = Obj('SampleEncryptionBox', {'position': z3.Int('senc_position'),
                                           'samples': PyList([Obj('Sample', {'offset': z3.Int('sample0_offset')})])})
        tfhd = Obj('TrackFragmentHeaderBox', {'base_data_offset': Opt(z3.Bool('bdo_none'), z3.Int('base_data_offset'))})
        o = Obj('SampleAuxiliaryInformationOffsetsBox', {
            'offsets': None if offsets == 'none' else PyList([z3.Int('offset0')]),
            'position': z3.Int('position'), '_fullname': Opaque('name'),
            'options': Obj('Options', {'log': Opaque('log')}), 'parent': Obj('TrackFragmentBox', {})})
        return {'self': o, 'dest': Opaque('stream'), '__senc__': senc, '__tfhd__': tfhd,
                '__moof__': Obj('MovieFragmentBox', {'position': z3.Int('moof_position')}), '__bug__': z3.Bool('has_bug_saio')}
    return env


def find_child(eng, e, a, kw):
    return eng.lookup('__senc__') if a[0] == 'senc' else eng.lookup('__tfhd__')


def saio_contract(offsets):
    base = '(moof_position if bdo_none else base_data_offset)'
    want = f'senc_position + sample0_offset - {base}'
    cur = 'offset0' if offsets != 'none' else None
    if offsets == 'none':
        ens = [('offset', f'is_unset(self.offsets) if has_bug_saio else single(self.offsets, {want})')]
    else:
        ens = [('offset', f'single(self.offsets, offset0 if (has_bug_saio or offset0 == {want}) else {want})')]
    return Contract(
        key=f'{MP4}:SampleAuxiliaryInformationOffsetsBox.post_encode', variant=f'offsets-{offsets}', props=['C03'],
        env=saio_env(offsets),
        models=stream_models({'self.parent.find_child': find_child, 'self.find_atom': lambda eng, e, a, kw: eng.lookup('__moof__'),
                              'self.options.has_bug': lambda eng, e, a, kw: eng.lookup('__bug__'),
                              'self.encode': lambda eng, e, a, kw: None}),
        modifies=['self.offsets'],
        ensures=ens,
        canaries=['has_bug_saio'],
        witness_terms=lambda w: (lambda ev: dict({k: ev(z3.Int(k)) for k in ('senc_position', 'sample0_offset', 'base_data_offset',
                                                                             'moof_position', 'offset0', 'position')},
                                                 bdo_none=ev(z3.Bool('bdo_none')), has_bug_saio=ev(z3.Bool('has_bug_saio')))),
    )


SAIO = [saio_contract('none'), saio_contract('one')]
FIND_FIRST = Contract(key=f'{MP4}:SampleAuxiliaryInformationOffsetsBox.find_first_cenc_sample', props=[], inline=True)

GROUP = Group(
    name='mp4', world=world,
    contracts=[MFHD, MEHD, TREX, TFDT, TFHD, TRUN, TENC, MDHD] + EMSG + PSSH + SIDX + SAIZ + SAIO_BOX + AUX_JSON + ENCODE + HEADER + TRUN_SAMPLES + [BTRT, PASP, TFDT_SETATTR, TRUN_POST_ENCODE] + SAIO + [FIND_FIRST] + INLINE,
    assumptions=[
        'C04: FieldWriter.__init__/write and FieldReader.__init__/read/get/skip (dashlive/utils/fio) are analysed as real code '
        '(inlined at every call, for the format codes the boxes under contract use); struct.pack / struct.unpack (stdlib) and '
        'the byte stream are modelled (pyvc/models/trace.py) for the codes B H I Q i q; a value read byte-wise is the '
        'big-endian byte decomposition of the value written',
        'C04: Mp4Atom.parse (box header) is skipped through its `initial_data` shortcut; the proof is about the FullBox '
        'version/flags header and the class fields only',
        'C04: field values are assumed legal for the box version/flags (the `requires` of each variant): that is the '
        'statement\'s quantifier',
    ],
    trusted=['pyvc/models/trace.py (byte trace, struct.pack/unpack models, byte decomposition)'],
    not_covered=['list-bearing boxes beyond the fixed shapes proved (trun with 1-2 samples under all 64 flag combinations, sidx with '
                 '0-2 references, pssh with 0-3 key ids, saiz with a 0/1/3-entry table): saio offsets tables, senc, stsd, sample entries, descriptors, '
                 'Mp4Atom.load (the scan loop; the box header parser Mp4Atom.parse IS covered), lazy loading and pre-encoded boxes, the JSON round trip '
                 'beyond aux_info_type of saiz / saio, tree edits (append/insert/remove and update_size)'],
)
