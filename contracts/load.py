"""Contract for Representation.load (C06: the index every static manifest and on-demand byte range is built from).

The atom list is a symbolic sequence: position apos(i), size asize(i), type atype(i) (an integer code per fourcc),
for moof atoms the first sequence number seqno(i), the decode time tfdt(i) (optional box) and the total sample
duration SD(i) of the fragment.  The three loops over `atom.traf.trun.samples` are summarised by their effect
(`x += sample.duration` over all samples adds SD(i)); process_moov is abstract.
Region: the file is `ftyp (moov|sidx|free)* (moof (mdat|sidx|free|moov)*)+` with consecutive atoms - what the
repository's fragmented-MP4 inputs look like; any other top-level box (styp, emsg, prft, uuid ...) is left out of
every segment by the code (known finding C06-load-unknown-top-level-box).
"""
import ast
import z3
from pyvc.vals import *          # noqa: F401,F403
from pyvc.contract import Contract, Loop, Lemma, Group
from pyvc.engine import PyRaise

REP = 'dashlive/mpeg/dash/representation.py'
CODES = {'ftyp': 1, 'moof': 2, 'sidx': 3, 'moov': 4, 'mdat': 5, 'free': 6}


class AtomType:
    """atom.atom_type: a fourcc known only through an integer code (0 = some other box)"""

    def __init__(self, code):
        self.code = code

    def compare(self, eng, op, other, swapped):
        if isinstance(other, str) and isinstance(op, (ast.Eq, ast.NotEq)):
            r = zint(self.code) == CODES.get(other, -1)
            return z3.Not(r) if isinstance(op, ast.NotEq) else r
        raise Unsupported('atom type comparison')


class Samples:
    """atom.traf.trun.samples of moof atom i: only iterated to add up durations"""

    def __init__(self, w, i):
        self.w, self.i = w, i

    def len(self, eng):
        return self.w['nsamples'](zint(self.i))

    def iterate(self, eng, n, k):
        # summarised loop: every `X += sample.duration` adds SD(i); the defaulting of a missing per-sample duration
        # (`if not sample.duration: sample.duration = ...`) is outside the region: every sample has a duration >= 1
        # (layout: SD(i) >= nsamples(i))
        for st in n.body:
            if isinstance(st, ast.AugAssign) and isinstance(st.op, ast.Add) and ast.unparse(st.value) == f'{n.target.id}.duration':
                cur = eng.eval(st.target)
                eng.store(st.target, zint(cur) + self.w['SD'](zint(self.i)))
            elif isinstance(st, ast.If) and ast.unparse(st.test) == f'not {n.target.id}.duration':
                continue
            else:
                raise Unsupported('sample loop body is not a duration sum')


class ContentType:
    def __init__(self, is_video):
        self.is_video = is_video

    def compare(self, eng, op, other, swapped):
        if other == 'video' and isinstance(op, (ast.Eq, ast.NotEq)):
            return z3.Not(self.is_video) if isinstance(op, ast.NotEq) else self.is_video
        raise Unsupported('content type comparison')


def world():
    w = {'na': z3.Int('na'), 'verbose': 0, 'moov_timescale': z3.Int('moov_timescale')}
    for f in ('apos', 'asize', 'atype', 'seqno', 'atfdt', 'SD', 'nsamples', 'nmoof', 'st', 'et', 'cum'):
        w[f] = z3.Function(f, INT, INT)
    w['has_tfdt'] = z3.Function('has_tfdt', INT, BOOL)
    i = z3.Int('i!ld')
    na, apos, asize, atype, nmoof = w['na'], w['apos'], w['asize'], w['atype'], w['nmoof']
    is_moof = lambda k: atype(k) == CODES['moof']
    ext = lambda k: z3.Or(*[atype(k) == CODES[c] for c in ('sidx', 'moov', 'mdat', 'free')])
    # definitions by recursion over the atom list (state after atoms 0..k-1):
    #   nmoof(k) number of moof atoms, cum(k) sum of their sample durations,
    #   st(k) / et(k) decode time at which the last fragment seen starts / ends (tfdt if present, else it continues)
    st, et, cum, SD = w['st'], w['et'], w['cum'], w['SD']
    start_of = lambda k: z3.If(w['has_tfdt'](k), w['atfdt'](k), et(k))
    w['layout'] = z3.And(
        na >= 1, atype(0) == CODES['ftyp'], nmoof(0) == 0, st(0) == 0, et(0) == 0, cum(0) == 0,
        z3.ForAll([i], z3.Implies(z3.And(0 <= i, i < na), z3.And(
            st(i + 1) == z3.If(is_moof(i), start_of(i), st(i)),
            et(i + 1) == z3.If(is_moof(i), start_of(i) + SD(i), et(i)),
            cum(i + 1) == cum(i) + z3.If(is_moof(i), SD(i), 0)))),
        z3.ForAll([i], z3.Implies(z3.And(0 <= i, i < na), z3.And(
            apos(i) >= 0, asize(i) >= 8, apos(i + 1) == apos(i) + asize(i),
            z3.Implies(i >= 1, z3.Or(is_moof(i), ext(i))),
            nmoof(i + 1) == nmoof(i) + z3.If(is_moof(i), 1, 0),
            z3.Implies(is_moof(i), z3.And(w['SD'](i) >= w['nsamples'](i), w['nsamples'](i) >= 1, w['atfdt'](i) >= 0))))))
    # fm: index of the first moof (na when there is none); first_time: the decode time the first fragment starts at
    fm = w['fm'] = z3.Int('fm')
    w['first_moof_def'] = z3.And(0 < fm, fm <= na, z3.Or(fm == na, is_moof(fm)),
                                 z3.ForAll([i], z3.Implies(z3.And(0 <= i, i < fm), z3.Not(is_moof(i)))))
    w['first_time'] = st(fm + 1)
    w['is_moof'] = lambda k: is_moof(zint(k))
    w['optval'] = lambda x: x.val if isinstance(x, Opt) else x
    w['__bases__'] = {}
    return w


SEG_FIELDS = {'pos': INT, 'size': INT, 'duration': 'opt_int', 'src': INT}


def atoms_obj(w):
    def traf(i):
        return Obj('TrackFragmentBox', {
            'trun': Obj('TrackFragmentRunBox', {'samples': Samples(w, i)}),
            'tfdt': Obj('TrackFragmentDecodeTimeBox', {'base_media_decode_time': w['atfdt'](i)}), '__i__': i})
    return SeqFn('atoms', {
        'position': w['apos'], 'size': w['asize'], 'atom_type': lambda i: AtomType(w['atype'](i)),
        'mfhd': lambda i: Obj('MovieFragmentHeaderBox', {'sequence_number': w['seqno'](i)}),
        'traf': traf, '__i__': lambda i: i}, w['na'], 'Mp4Atom')


def ctor_segment(eng, args, kw):
    return Obj('Segment', {'pos': kw['pos'], 'size': kw['size'], 'duration': None, 'src': eng.env.get('_it0', 0)})


def ctor_representation(eng, args, kw):
    return Obj('Representation', {
        'id': kw['id'], 'filename': kw['filename'], 'version': kw['version'],
        'segments': ArrList('segments', SEG_FIELDS, length=z3.IntVal(0), elem_cls='Segment'),
        'encrypted': False, 'content_type': ContentType(z3.Bool('is_video')), 'timescale': 1, 'start_number': 1,
        'start_time': 0, 'mediaDuration': 0, 'segment_duration': None, 'max_bitrate': None, 'bitrate': None,
        'kids': PyList([]), 'default_kid': None})


def model_find_child(eng, e, a, kw):
    """atom.traf.find_child('tfdt'): the tfdt box or None"""
    traf = eng.eval(e.func.value)
    i = traf.f['__i__']
    return Opt(z3.Not(eng.world['has_tfdt'](zint(i))), z3.IntVal(1))      # only tested against None


def model_process_moov(eng, e, a, kw):
    rv = eng.eval(e.func.value)
    rv.f['timescale'] = eng.world['moov_timescale']
    return None


def model_pssh(eng, atom):
    raise PyRaise('AttributeError')       # clear media: no pssh box in the fragments


def model_max_sizes(eng, e, a, kw):
    m = fresh('max_size')
    eng.assume(m >= 8)
    return m


model_max_sizes.lazy = True


def load_witness(w):
    def wt(ev):
        na = ev(w['na'])
        out = {'na': na, 'fm': ev(w['fm']), 'is_video': ev(z3.Bool('is_video')), 'moov_timescale': ev(z3.Int('moov_timescale'))}
        if isinstance(na, int) and 1 <= na <= 24:
            for f in ('apos', 'asize', 'atype', 'seqno', 'atfdt', 'SD', 'nsamples'):
                out[f] = [ev(w[f](z3.IntVal(k))) for k in range(na)]
            out['has_tfdt'] = [ev(w['has_tfdt'](z3.IntVal(k))) for k in range(na)]
        return out
    return wt


LOAD = Contract(
    key=f'{REP}:Representation.load', props=['C06', 'C16'],
    env=lambda w: {'clz': Opaque('class:Representation'), 'filename': Opaque('filename'), 'atoms': atoms_obj(w), 'verbose': 0},
    requires=[('layout', 'layout'), ('first_moof_def', 'first_moof_def'), ('moov_timescale', 'moov_timescale >= 1'),
              # regions of the arithmetic at the end of load (known finding C16-load-degenerate-index otherwise):
              ('region_last_fragment_not_before_first', 'nmoof(na) < 2 or st(na) >= first_time')],
    ctors={'Segment': ctor_segment, 'Representation': ctor_representation, 'KeyMaterial': lambda eng, a, kw: Opaque('key')},
    models={'os.path.basename': lambda eng, e, a, kw: Opaque('basename'),
            'os.path.splitext': lambda eng, e, a, kw: (Opaque('stem'), Opaque('ext')),
            'rep_id.lower': lambda eng, e, a, kw: Opaque('id'),
            'set': lambda eng, e, a, kw: Opaque('set'),
            'atom.traf.find_child': model_find_child,
            'rv.process_moov': model_process_moov,
            'getattr:Mp4Atom.pssh': model_pssh,
            'rv.add_field': lambda eng, e, a, kw: None,
            'max': model_max_sizes},
    loops={0: Loop(
        ghost={},
        invariant=[
            ('it', '0 <= _it0 and _it0 <= na'),
            ('nm', 'nmoof(_it0) >= 0 and cum(_it0) >= 0'),
            ('count', 'length(rv.segments) == (0 if _it0 == 0 else 1 + nmoof(_it0))'),
            ('tiling', 'True if _it0 == 0 else (rv.segments[0].pos == apos(0) and '
                       'rv.segments[length(rv.segments) - 1].pos + rv.segments[length(rv.segments) - 1].size == apos(_it0))'),
            ('chain', 'forall(lambda k: rv.segments[k].pos == rv.segments[k - 1].pos + rv.segments[k - 1].size and '
                      'is_moof(rv.segments[k].src) and rv.segments[k].pos == apos(rv.segments[k].src) and '
                      '0 <= rv.segments[k].src and rv.segments[k].src < _it0 and nmoof(rv.segments[k].src) == k - 1, 1, length(rv.segments))'),
            ('durations', 'forall(lambda k: not is_none(rv.segments[k].duration) and '
                          'optval(rv.segments[k].duration) == SD(rv.segments[k].src) and '
                          'cum(rv.segments[k].src) == (0 if k == 1 else cum(rv.segments[k - 1].src + 1)), 1, length(rv.segments))'),
            ('cum_now', 'cum(_it0) == (0 if length(rv.segments) <= 1 else cum(rv.segments[length(rv.segments) - 1].src + 1))'),
            ('first_moof', '(is_none(segment_start_number) and is_none(representation_start_time) and segment_end_time == 0 '
                           'and nmoof(_it0) == 0 and rv.start_number == 1) if _it0 <= fm '
                           'else (nmoof(_it0) >= 1 and et(fm) == 0 and not is_none(segment_start_number) and '
                           'rv.start_number == optval(segment_start_number) and '
                           'optval(segment_start_number) == seqno(fm) and not is_none(representation_start_time) and '
                           'optval(representation_start_time) == first_time and rv.segments[1].src == fm)'),
            ('times', 'segment_start_time == st(_it0) and segment_end_time == et(_it0) and segment_end_time >= 0 and '
                      'segment_start_time >= 0 and default_sample_duration >= 0 and rv.timescale >= 1'),
        ],
        types={'segment_start_number': 'opt_int', 'representation_start_time': 'opt_int', 'moov': 'opt_int',
               'rv.start_number': 'int', 'rv.timescale': 'int'},
        variant=['_hi0 - _it0']),
        5: Loop(invariant=[('it', '1 <= _it5 and _it5 <= length(rv.segments)'),
                           ('sum', 'rv.mediaDuration == (0 if _it5 == 1 else cum(rv.segments[_it5 - 1].src + 1))')],
                types={'rv.mediaDuration': 'int'}, variant=['_hi5 - _it5'])},
    raises={'ZeroDivisionError': 'nmoof(na) >= 2 and ((st(na) - first_time) // (nmoof(na) - 1) == 0 or cum(na) == 0)'},
    ensures=[
        ('init_segment', 'result.segments[0].pos == apos(0)'),
        ('count', 'length(result.segments) == 1 + nmoof(na)'),
        ('tiling', 'forall(lambda k: result.segments[k].pos == result.segments[k - 1].pos + result.segments[k - 1].size, '
                   '1, length(result.segments)) and '
                   'result.segments[length(result.segments) - 1].pos + result.segments[length(result.segments) - 1].size == apos(na)'),
        ('media_segments_start_on_moof', 'forall(lambda k: is_moof(result.segments[k].src) and '
                                         'result.segments[k].pos == apos(result.segments[k].src), 1, length(result.segments))'),
        ('durations', 'forall(lambda k: optval(result.segments[k].duration) == SD(result.segments[k].src), 1, length(result.segments))'),
        ('start', '(result.start_number == 1 and result.start_time == 0 and nmoof(na) == 0) if fm == na else '
                  '(result.start_number == seqno(fm) and result.start_time == first_time and result.segments[1].src == fm and '
                  'first_time == (atfdt(fm) if has_tfdt(fm) else 0))'),
        # total duration == the stored media duration; nominal segment duration == mean distance between fragment starts
        # (last fragment excluded, it may be short) - what rep.py's contracts call R and sd
        ('media_duration', 'True if nmoof(na) == 1 else result.mediaDuration == cum(na)'),     # known finding: one fragment
        ('segment_duration', '(is_none(result.segment_duration) and result.mediaDuration == 0) if nmoof(na) < 2 else '
                             '(result.segment_duration == (st(na) - first_time) // (nmoof(na) - 1) and result.segment_duration >= 1 '
                             'and result.timescale >= 1 and result.mediaDuration >= 1)'),
    ],
    canaries=['length(result.segments) == 1'],
    witness_terms=load_witness,
)

GROUP = Group(
    name='load', world=world, contracts=[LOAD],
    assumptions=[
        'C06: the atoms handed to Representation.load are consecutive top-level boxes (pos(i+1) = pos(i) + size(i)) as '
        'Mp4Atom.load produces them (not itself under contract); region: ftyp first, then only moov/sidx/free/mdat/moof',
        'C06: the loops over trun.samples are summarised: they add the fragment\'s total sample duration SD(i); region: every '
        'sample has a duration >= 1 after the parser\'s tfhd defaulting (the trex-default path of load is not covered); '
        'process_moov, Representation.__init__, key-id collection and frame-rate bookkeeping are abstract',
    ],
    not_covered=['mediaDuration / segment_duration / bitrate arithmetic at the end of load beyond exception-freedom under its '
                 'region', 'encrypted files (pssh / kids)', 'top-level boxes other than ftyp moov moof mdat sidx free'],
)
