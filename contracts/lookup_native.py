"""Native builders for the `lookup` group: the decorators are extracted from the source text and run with stand-ins for the
database lookups (what exists is decided by the witness)."""
import html
import logging
from types import SimpleNamespace as NS

from contracts.auth_native import extract

BOOLS = ('has_spk', 'has_sid', 'by_pk_found', 'by_dir_found', 'has_filename', 'has_sdir', 'file_found', 'file_mp4_found', 'has_mfid',
         'by_mfid_found', 'has_name', 'name_known', 'has_mode', 'restricted', 'mode_allowed', 'mode_primary', 'has_mps_name',
         'mps_found', 'name_has_suffix')


class Stream(NS):
    pass


class MediaFile(NS):
    pass


class DashManifest(NS):
    pass


class MultiPeriodStream(NS):
    pass


def build(key, variant, i):
    qual = key.split(':')[1].split('.')[0]
    b = {k: bool(i.get(k, False)) for k in BOOLS}
    g = NS()
    made = []

    def make_response(text, status):
        made.append(status)
        return NS(status=status, from_handler=False)
    fl = NS(g=g, make_response=make_response)
    attr = {'uses_stream': 'stream', 'uses_media_file': 'mediafile', 'uses_manifest': 'manifest', 'uses_multi_period_stream': 'mp_stream'}[qual]

    def body(*a, **kw):
        return NS(status=200, from_handler=True, saw=getattr(g, attr, None))
    ns = {'flask': fl, 'html': html, 'logging': logging, 'Iterable': None}
    kwargs = {}
    if qual == 'uses_stream':
        ns['Stream'] = NS(get=lambda pk=None, directory=None: (Stream(pk=1) if (b['by_pk_found'] if pk is not None else b['by_dir_found']) else None))
        if b['has_spk']:
            kwargs['spk'] = 7
        if b['has_sid']:
            kwargs['stream'] = 'dir'
    elif qual == 'uses_media_file':
        ns['Stream'] = NS(get=lambda directory=None: Stream(pk=1) if b['by_dir_found'] else None)

        def media_get(pk=None, stream_pk=None, name=None):
            if pk is not None:
                return MediaFile(pk=pk) if b['by_mfid_found'] else None
            return MediaFile(pk=2) if (b['file_mp4_found'] if name.endswith('.mp4') else b['file_found']) else None
        ns['MediaFile'] = NS(get=media_get)
        if b['has_filename']:
            kwargs['filename'] = 'Seg1'
        if b['has_sdir']:
            kwargs['stream'] = 'dir'
        if b['has_mfid']:
            kwargs['mfid'] = 9
    elif qual == 'uses_manifest':
        name = 'hand_made.mpd' if b['name_has_suffix'] else 'hand_made'
        restrictions = {'mode': ({'live'} if b['mode_allowed'] else {'other'})} if b['restricted'] else {}
        ns['manifest_map'] = {'hand_made.mpd': DashManifest(restrictions=restrictions)} if b['name_known'] else {}
        ns['primary_profiles'] = {'live': 1} if b['mode_primary'] else {'other': 1}
        if b['has_name']:
            kwargs['manifest'] = name
        if b['has_mode']:
            kwargs['mode'] = 'live'
    else:
        ns['MultiPeriodStream'] = NS(get_one=lambda name=None: MultiPeriodStream(pk=3) if b['mps_found'] else None)
        if b['has_mps_name']:
            kwargs['mps_name'] = 'mps'
    dec = extract(qual, ns)
    env = dict(b, ran=lambda r: r.from_handler is True, saw=lambda r, what: type(getattr(r, 'saw', None)).__name__ == what)
    return {'env': env, 'old_env': dict(env), 'call': lambda: dec(body)(**kwargs)}
