"""Native builder for get_http_range: the module cannot be imported offline (flask_login missing), so
the function is extracted mechanically from the source text and run inside a Flask request context."""
import ast
import os

import flask

REPO = os.environ.get('PYVC_REPO', '/repo')


def extract():
    path = os.path.join(REPO, 'dashlive/server/requesthandler/base.py')
    src = open(path).read()
    tree = ast.parse(src)
    for cls in tree.body:
        if isinstance(cls, ast.ClassDef) and cls.name == 'RequestHandlerBase':
            for fn in cls.body:
                if isinstance(fn, ast.FunctionDef) and fn.name == 'get_http_range':
                    code = ast.get_source_segment(src, fn)
                    import textwrap
                    ns = {'flask': flask}
                    exec(textwrap.dedent(code), ns)
                    return ns['get_http_range']
    raise KeyError('get_http_range')


def header_from(i):
    if not i['present']:
        return None
    if not i['bytes_prefix']:
        return 'items=0-1'
    if i['has_comma']:
        return 'bytes=0-1,3-4'
    ar = int(i['arity'])
    if ar == 1:
        return 'bytes=5'
    if ar >= 3:
        return 'bytes=1-2-3'
    def part(nm):
        if i[nm + '_empty']:
            return ''
        return str(int(i[nm + '_val'])) if i[nm + '_num'] else 'x'
    return f"Bytes={part('p')}-{part('q')} "


def predicates(h, N):
    e = {'N': N, 'present': h is not None}
    hh = (h or '').lower().strip()
    e['bytes_prefix'] = hh.startswith('bytes=')
    e['has_comma'] = ',' in hh
    parts = hh[6:].split('-')
    e['arity'] = len(parts)
    p, q = (parts + ['', ''])[:2] if len(parts) != 2 else parts
    def num(x):
        try:
            return True, int(x, 10)
        except ValueError:
            return False, 0
    e['p_empty'], e['q_empty'] = p == '', q == ''
    (e['p_num'], e['p_val']), (e['q_num'], e['q_val']) = num(p), num(q)
    e['str_model'] = True
    e['single_range'] = bool(e['bytes_prefix'] and not e['has_comma'] and e['arity'] == 2 and (
        (e['p_empty'] and e['q_num']) or (not e['p_empty'] and e['p_num'] and (e['q_empty'] or e['q_num']))))
    pv, qv = e['p_val'], e['q_val']
    if e['p_empty']:
        e['satisfiable'] = qv >= 1 and N >= 1
        e['first'], e['last'] = max(0, N - qv), N - 1
    elif e['q_empty']:
        e['satisfiable'] = pv < N
        e['first'], e['last'] = pv, N - 1
    else:
        e['satisfiable'] = pv < N and qv >= pv
        e['first'], e['last'] = pv, min(qv, N - 1)
    return e


def extract_on_demand(ghr):
    """OnDemandMedia.get, extracted from the source text, with the module globals it reads replaced by stand-ins"""
    import contextlib
    import io
    import logging
    import textwrap
    path = os.path.join(REPO, 'dashlive/server/requesthandler/media_requests.py')
    src = open(path).read()
    tree = ast.parse(src)
    for cls in tree.body:
        if isinstance(cls, ast.ClassDef) and cls.name == 'OnDemandMedia':
            for fn in cls.body:
                if isinstance(fn, ast.FunctionDef) and fn.name == 'get':
                    fn.returns = None
                    for a in fn.args.args:
                        a.annotation = None
                    ns = {'flask': flask, 'logging': logging}
                    exec(compile(ast.fix_missing_locations(ast.Module(body=[fn], type_ignores=[])), path, 'exec'), ns)
                    return ns
    raise KeyError('OnDemandMedia.get')


def build_on_demand(variant, i):
    import contextlib
    import io
    from types import SimpleNamespace as NS
    ghr = extract()
    ns = extract_on_demand(ghr)
    N = int(i['N'])
    h = i['header'] if 'header' in i else header_from(i)
    env = predicates(h, N)
    if N > 2_000_000:
        raise ValueError('witness body too large to realise')
    blob = bytes((7 * k + 3) % 251 for k in range(N))
    env['hdr_is'] = lambda d, key, *parts: d.get(key) == ''.join(str(p) for p in parts)
    env['is_slice'] = lambda d, lo, hi: d == blob[lo:hi] and len(d) == hi - lo
    opened = []

    @contextlib.contextmanager
    def open_file(start=None, buffer_size=4096):
        f = io.BytesIO(blob)
        f.seek(start or 0)
        opened.append(start)
        yield f
    ns['current_media_file'] = NS(blob=NS(size=N), open_file=open_file)
    me = NS(get_http_range=lambda n: ghr(None, n))
    app = flask.Flask('replay')

    def call():
        with app.test_request_context('/x', headers=({'Range': h} if h is not None else {})):
            r = ns['get'](me, 'stream', 'file', variant)
            return NS(status=r.status_code, data=r.get_data(), headers=dict(r.headers))
    return {'env': env, 'call': call}


def build(key, variant, i):
    if key.endswith('OnDemandMedia.get'):
        return build_on_demand(variant, i)
    fn = extract()
    N = int(i['N'])
    h = i['header'] if 'header' in i else header_from(i)
    env = predicates(h, N)
    env['content_length'] = N
    env['hdr_is'] = lambda d, key, *parts: d.get(key) == ''.join(str(p) for p in parts)
    env['is_empty_dict'] = lambda d: d == {}
    env['keys_are'] = lambda d, *ks: sorted(d) == sorted(ks)
    app = flask.Flask('replay')

    def call():
        with app.test_request_context('/x', headers=({'Range': h} if h is not None else {})):
            return fn(None, N)
    return {'env': env, 'call': call}
