"""C15 (reduced scope): the role / CSRF guards and where they are applied.

  login_required(...) / jwt_login_required(...) / csrf_token_required(...): the wrapped handler body runs exactly when
        the session (or JWT) user is authenticated, has the admin flag when `admin` is asked for and the permission
        group when one is asked for (resp. the CSRF check passed); otherwise a 401 / login page / redirect is returned
        and the body does NOT run - so nothing behind it can change state.
  Guard table (lemmas generated from the source on every run): every state-changing handler method listed in the
        property's anchors carries the guard the documentation assigns to it (class-level `decorators` + method
        decorators).  Flask's MethodView applying `decorators` to the view is a framework assumption.
The statement's "database content and blob store are unchanged after the request" is reduced to "the handler body is
not entered"; handler bodies themselves are not under contract."""
import ast
import os
import z3
from pyvc.vals import *          # noqa: F401,F403
from pyvc.contract import Contract, Loop, Lemma, Group
from pyvc.engine import PyRaise, Source

DEC = 'dashlive/server/requesthandler/decorators.py'
CSRF_BOOLS = ('cookie_present', 'cookie_empty', 'token_used', 'issued_for_cookie', 'issued_for_service', 'issued_for_origin',
              'unmodified', 'strict_origin', 'origin_header')
BOOLS = ('authenticated', 'is_admin', 'in_group', 'token_in_json', 'token_in_args', 'token_in_form', 'is_post', 'is_put', 'is_json',
         'csrf_ok', 'ajax', 'has_next_url')


def world():
    w = {b: z3.Bool(b) for b in BOOLS}
    w['has_payload'] = z3.Or(w['is_post'], w['is_put'])
    for b in CSRF_BOOLS:
        w[b] = z3.Bool(b)
    w['recorded'] = lambda st: z3.BoolVal(len(st.added) == 1)
    w['__bases__'] = {}
    return w


def wt(w):
    return lambda ev: {b: ev(w[b]) for b in BOOLS}


def handler(eng, *a, **kw):
    eng.ghost_env['body_ran'] = True
    return Obj('Response', {'status': 200, 'from_handler': True})


def make_handler(eng):
    return lambda *a, **kw: handler(eng, *a, **kw)


def user(w):
    return Obj('User', {'is_authenticated': w['authenticated'], 'is_admin': w['is_admin']})


def login_contract(qual, user_name, admin, permission, refuse_model, html=False):
    def env(w):
        e = {'html': html, 'admin': admin, 'permission': Opaque('Group.MEDIA') if permission else None,
             'args': (), 'kwargs': {}, user_name: user(w)}
        return e
    allowed = 'authenticated' + (' and is_admin' if admin else '') + (' and in_group' if permission else '')
    models = {f'{user_name}.has_permission': lambda eng, e, a, kw: eng.world['in_group'],
              'func': lambda eng, e, a, kw: handler(eng),
              # the decision must not depend on the request method (GET / HEAD / DELETE are guarded like POST / PUT)
              'attr:flask.request.method': lambda eng: MethodText(eng.world['has_payload'])}
    models.update(refuse_model)
    return Contract(
        key=f'{DEC}:{qual}.decorator.decorated_function', variant=f'admin={admin},permission={permission}' + (',html' if html else ''), props=['C15'],
        env=env, models=models,
        ensures=[('body_runs_iff_authorised', f'ran(result) == ({allowed})'),
                 ('refused_with_401', f'True if ({allowed}) else result.status == 401')],
        canaries=['ran(result)'],
        witness_terms=wt,
    )


REFUSE_LOGIN = {'needs_login_response': lambda eng, e, a, kw: Obj('Response', {'status': 401, 'from_handler': False})}
REFUSE_JWT = {'jsonify_no_content': lambda eng, e, a, kw: Obj('Response', {'status': a[0], 'from_handler': False})}
LOGIN = [login_contract('login_required', 'current_user', adm, perm, REFUSE_LOGIN, html=h) for h in (False, True)
         for adm in (False, True) for perm in (False, True)]
JWT_LOGIN = [login_contract('jwt_login_required', 'jwt_current_user', adm, perm, REFUSE_JWT) for adm in (False, True) for perm in (False, True)]


# ----------------------------------------------------------------------------- csrf_token_required
class Lookup:
    """flask.request.args / form / get_json(): .get('csrf_token'[, None]) gives the token or None"""

    def __init__(self, present):
        self.present = present

    def method(self, eng, name, args, kwargs, e):
        if name == 'get' and args and args[0] == 'csrf_token':
            return Opt(z3.Not(self.present), Opaque('token'))
        raise Unsupported(f'lookup.{name}')


def default_next_url(repo):
    """the default value of csrf_token_required's next_url parameter, as the checked tree spells it (a lambda)"""
    import ast as _ast
    import os
    tree = _ast.parse(open(os.path.join(repo, DEC)).read())
    fn = next(n for n in tree.body if isinstance(n, _ast.FunctionDef) and n.name == 'csrf_token_required')
    names = [a.arg for a in fn.args.args]
    dflt = fn.args.defaults[names.index('next_url') - (len(names) - len(fn.args.defaults))]
    if not isinstance(dflt, _ast.Lambda):
        raise Unsupported('csrf_token_required: the default next_url is not a lambda')
    return Closure(dflt, {})


def csrf_contract(optional, real_default=False):
    def env(w):
        if real_default:
            # a handler METHOD of a view with URL parameters, decorated without a next_url: the decorator calls its default
            # with (self, **view_args)
            return {'service': 'streams', 'optional': optional, 'args': (Obj('View', {}),), 'kwargs': {'mps_name': Opaque('name')},
                    'next_url': default_next_url(w.get('__repo__', '/repo'))}
        return {'service': 'streams', 'optional': optional, 'args': (), 'kwargs': {},
                'next_url': lambda *a, **k: Opt(z3.Not(w['has_next_url']), Opaque('url'))}

    def check(eng, e, a, kw):
        if not eng.branch(eng.world['csrf_ok']):
            raise PyRaise('CsrfFailureException')
        return None
    found = '(token_in_args or (has_payload and ((is_json and token_in_json) or token_in_form)))'
    runs = f'(({found}) and csrf_ok)' + (f' or not ({found})' if optional else '')
    return Contract(
        key=f'{DEC}:csrf_token_required.decorator.decorated_function',
        variant=f'optional={optional}' + (',default-next-url,view-arguments' if real_default else ''), props=['C15', 'C16'] if real_default else ['C15'],
        env=env,
        models={'attr:flask.request.method': lambda eng: MethodText(eng.world['has_payload']),
                'attr:flask.request.is_json': lambda eng: eng.world['is_json'],
                'flask.request.get_json': lambda eng, e, a, kw: Lookup(eng.world['token_in_json']),
                'attr:flask.request.args': lambda eng: Lookup(eng.world['token_in_args']),
                'attr:flask.request.form': lambda eng: Lookup(eng.world['token_in_form']),
                'CsrfProtection.check': check, 'is_ajax': lambda eng, e, a, kw: eng.world['ajax'],
                'jsonify': lambda eng, e, a, kw: Obj('Response', {'status': a[1], 'from_handler': False}),
                'flask.flash': lambda eng, e, a, kw: None,
                'flask.make_response': lambda eng, e, a, kw: Obj('Response', {'status': a[1], 'from_handler': False}),
                'flask.redirect': lambda eng, e, a, kw: Obj('Response', {'status': 302, 'from_handler': False}),
                'func': lambda eng, e, a, kw: handler(eng)},
        ensures=[('body_runs_iff_token_checked', f'ran(result) == ({runs})'),
                 ('refused', f'True if ({runs}) else (result.status == 401 or result.status == 302)')],
        canaries=['ran(result)'],
        witness_terms=wt,
    )


class MethodText:
    """flask.request.method: only `in {'POST', 'PUT'}` is observed"""

    def __init__(self, has_payload):
        self.has_payload = has_payload

    def compare(self, eng, op, other, swapped):
        w = eng.world
        if isinstance(op, ast.Eq) and other in ('POST', 'PUT'):
            return w['is_post'] if other == 'POST' else z3.And(w['is_put'], z3.Not(w['is_post']))
        raise Unsupported('method text comparison')


CSRF = [csrf_contract(False), csrf_contract(True), csrf_contract(False, real_default=True)]


# ----------------------------------------------------------------------------- CsrfProtection.check (token algebra)
CSRF_PY = 'dashlive/server/requesthandler/csrf.py'
CSRF_BOOLS = ('cookie_present', 'cookie_empty', 'token_used', 'issued_for_cookie', 'issued_for_service', 'issued_for_origin',
              'unmodified', 'strict_origin', 'origin_header')


class TokenText:
    """the submitted token text: 8 characters of salt followed by the signature text.  Whether the signature part is the
    HMAC of (this cookie, this service[, this origin], its salt) is symbolic: issued_for_cookie / _service / _origin /
    unmodified (HMAC-SHA1 is assumed injective and unforgeable: equal texts iff equal inputs)"""

    def __init__(self, part='all'):
        self.part = part

    def getslice(self, eng, lo, hi):
        if lo is None and hi == 8:
            return TokenText('salt')
        if lo == 8 and hi is None:
            return TokenText('sig')
        raise Unsupported('token slice')

    def compare(self, eng, op, other, swapped):
        w = eng.world
        if self.part == 'sig' and isinstance(other, SigText) and isinstance(op, (ast.Eq, ast.NotEq)):
            parts = other.parts
            # the computed signature covers: cookie, service, [origin when strict], the token's own salt
            ok = [w['unmodified'], w['issued_for_cookie'], w['issued_for_service']]
            if 'origin' in parts:
                ok.append(w['issued_for_origin'])
            if 'cookie' not in parts or 'service' not in parts or 'salt' not in parts:
                ok.append(z3.BoolVal(False))          # a signature that leaves one of them out proves nothing
            eq = z3.And(*ok)
            return z3.Not(eq) if isinstance(op, ast.NotEq) else eq
        raise Unsupported('token comparison')


class SigText:
    def __init__(self, parts):
        self.parts = parts


class Hmac:
    def __init__(self, parts):
        self.parts = list(parts)

    def method(self, eng, name, args, kwargs, e):
        if name == 'update':
            self.parts.append(args[0])
            return None
        if name == 'digest':
            return SigText(list(self.parts))
        raise Unsupported(f'hmac.{name}')


class Cookies:
    def getitem(self, eng, key):
        w = eng.world
        if not eng.branch(w['cookie_present']):
            raise PyRaise('KeyError')
        return CookieText()


class CookieText:
    def truthy(self):
        return z3.Not(z3.Bool('cookie_empty'))


class TokenStore:
    """Token.get_one(jti=t, token_type=CSRF) / db.session.add(Token(jti=t, ...)): the set of used tokens, observed at t only"""

    def __init__(self):
        self.added = []


def csrf_check_contract():
    def env(w):
        return {'cls': Opaque('class:CsrfProtection'), 'service': 'service', 'csrf_token': Opaque('quoted-token'),
                '__store__': TokenStore(), 'KEY_LIFETIMES': {'csrf': TD(z3.IntVal(3600 * 10**6))}}

    def tag(name):
        return lambda eng, e, a, kw: name

    def bytes_of(eng, e, a, kw):
        v = a[0]
        return {'CookieText': 'cookie', 'TokenText': 'salt'}.get(type(v).__name__, v if isinstance(v, str) else 'other')

    def canonical(eng, jti, what):
        # a token is identified by its decoded text: two spellings of one token (percent-encoding) must share one key
        eng.oblige('call', f'{what}.key_is_the_decoded_token', z3.BoolVal(isinstance(jti, TokenText) and jti.part == 'all'))

    def get_one(eng, e, a, kw):
        canonical(eng, kw.get('jti'), 'Token.get_one')
        return Opt(z3.Not(eng.world['token_used']), Obj('Token', {}))

    def add(eng, e, a, kw):
        canonical(eng, a[0].f.get('jti') if isinstance(a[0], Obj) else None, 'db.session.add')
        eng.lookup('__store__').added.append(a[0])

    class Headers:
        def getitem(self, eng, key):
            if not eng.branch(eng.world['origin_header']):
                raise PyRaise('KeyError')
            return 'origin'
    accepted = 'cookie_present and not cookie_empty and not token_used and unmodified and issued_for_cookie and issued_for_service ' \
               'and (issued_for_origin or not strict_origin)'
    return Contract(
        key=f'{CSRF_PY}:CsrfProtection.check', props=['C15'], env=env,
        models={'attr:flask.request.cookies': lambda eng: Cookies(), 'attr:cls.CSRF_COOKIE_NAME': lambda eng: 'csrf',
                'attr:CsrfProtection.CSRF_COOKIE_NAME': lambda eng: 'csrf',
                'urllib.parse.unquote': lambda eng, e, a, kw: TokenText(), 'str': lambda eng, e, a, kw: a[0],
                'attr:flask.request.headers': lambda eng: Headers(), 'attr:flask.request.url': lambda eng: Opaque('url'),
                'urllib.parse.urlparse': lambda eng, e, a, kw: Obj('Url', {'scheme': 'http', 'netloc': 'host'}),
                "'{}://{}'.format": lambda eng, e, a, kw: 'origin',
                'Token.get_one': get_one, 'datetime.datetime.now': lambda eng, e, a, kw: DT(z3.Int('now_us')),
                'db.session.add': add, 'db.session.commit': lambda eng, e, a, kw: None,
                'attr:Token.CSRF_SALT_LENGTH': lambda eng: 8,
                'attr:TokenType.CSRF.value': lambda eng: 'csrf', 'attr:TokenType.CSRF': lambda eng: 'csrf',
                "cfg.get('STRICT_CSRF_ORIGIN', 'False').lower": lambda eng, e, a, kw: StrictText(),
                "attr:flask.current_app.config": lambda eng: {'DASH': {'CSRF_SECRET': 'secret'}},
                'hmac.new': lambda eng, e, a, kw: Hmac(a[:2]), 'bytes': bytes_of, 'attr:hashlib.sha1': lambda eng: 'sha1',
                'base64.b64encode': lambda eng, e, a, kw: a[0]},
        ctors={'Token': lambda eng, a, kw: Obj('Token', dict(kw))},
        raises={'CsrfFailureException': f'not ({accepted})'},
        ensures=[('accepted_token_is_recorded_as_used', 'recorded(__store__)')],
        post_on_raise={'CsrfFailureException': [('a_fresh_token_is_burnt_even_if_wrong',
                                                 'recorded(__store__) == (cookie_present and not cookie_empty and not token_used)')]},
        canaries=['False'],
        witness_terms=lambda w: (lambda ev: {b: ev(z3.Bool(b)) for b in CSRF_BOOLS}),
    )


class StrictText:
    def compare(self, eng, op, other, swapped):
        if other == 'true' and isinstance(op, ast.Eq):
            return eng.world['strict_origin']
        raise Unsupported('strict flag comparison')


CSRF_CHECK = csrf_check_contract()


# ----------------------------------------------------------------------------- guard table (from the AST, every run)
RH = 'dashlive/server/requesthandler/'
MEDIA = ('login_required', 'permission=models.Group.MEDIA')
# (file, class, method, what must be among the effective decorators: (decorator name, argument text that must occur))
GUARDS = [
    (RH + 'streams.py', 'AddStream', 'post', MEDIA), (RH + 'streams.py', 'AddStream', 'put', MEDIA),
    (RH + 'streams.py', 'EditStream', 'post', MEDIA), (RH + 'streams.py', 'EditStream', 'delete', MEDIA),
    (RH + 'streams.py', 'DeleteStream', '*', MEDIA), (RH + 'streams.py', 'EditStreamDefaults', 'post', MEDIA),
    (RH + 'media_management.py', 'UploadHandler', 'post', MEDIA), (RH + 'media_management.py', 'MediaInfo', 'delete', MEDIA),
    (RH + 'media_management.py', 'EditMedia', 'post', MEDIA), (RH + 'media_management.py', 'DeleteMedia', '*', MEDIA),
    (RH + 'media_management.py', 'IndexMediaFile', 'get', MEDIA), (RH + 'media_management.py', 'ValidateMediaChanges', 'post', MEDIA),
    (RH + 'keypairs.py', 'KeyHandler', 'post', MEDIA), (RH + 'keypairs.py', 'KeyHandler', 'put', MEDIA),
    (RH + 'keypairs.py', 'DeleteKeyHandler', 'post', MEDIA), (RH + 'keypairs.py', 'DeleteKeyHandler', 'delete', MEDIA),
    (RH + 'multi_period_streams.py', 'AddStream', 'put', MEDIA),
    # multi_period_streams.EditStream.post / delete: known findings C15-mps-edit-{post,delete}-any-user (jwt_required() admits
    # every logged-in user, no media-group check) - replayed from known_findings.json, not part of the table
    (RH + 'user_management.py', 'ListUsers', 'put', ('jwt_login_required', 'admin=True')),
    (RH + 'user_management.py', 'EditUser', 'delete', ('jwt_login_required', 'admin=True')),
    (RH + 'user_management.py', 'EditUser', 'post', ('jwt_login_required', '')),
]


from contracts.auth_scan import effective_decorators      # noqa: E402


def guard_lemma(relpath, cls_name, method, need):
    def build(w):
        repo = w.get('__repo__', '/repo')
        decs = effective_decorators(repo, relpath, cls_name, method)
        ok = decs is not None and any(d.startswith(need[0] + '(') and need[1] in d for d in decs)
        return [], z3.BoolVal(bool(ok))
    return Lemma(f'guarded.{os.path.basename(relpath)[:-3]}.{cls_name}.{method}', ['C15'], build)


GUARD_LEMMAS = [guard_lemma(*g) for g in GUARDS]

GROUP = Group(
    name='auth', world=lambda: dict(world(), ran=lambda r: z3.BoolVal(bool(r.f.get('from_handler')))),
    contracts=LOGIN + JWT_LOGIN + CSRF + [CSRF_CHECK], lemmas=GUARD_LEMMAS,
    assumptions=[
        'C15: flask.views.MethodView applies the class attribute `decorators` (and Python applies method decorators) to every '
        'request for the handler: framework / language semantics, not verified',
        'C15: current_user / jwt_current_user carry is_authenticated, is_admin and has_permission(group) of the requesting '
        'user (flask_login / flask_jwt_extended, not verified); needs_login_response / jsonify_no_content build 401 responses',
        'C15: "state unchanged" is reduced to "handler body not entered"',
        'C15: CsrfProtection.check: HMAC-SHA1 over (secret, cookie, service[, origin], salt) is injective and unforgeable - the '
        'submitted signature equals the computed one iff the token is unmodified and was issued for this cookie, service (and '
        'origin in strict mode); the store of used tokens is observed at the submitted token only and keyed by the decoded token text (obligation at '
        'both store accesses); quote / unquote are inverse',
    ],
    not_covered=['the handler bodies (what they change), JWT / session establishment, CsrfProtection.generate_token '
                 '(the issuing side), token pruning, uses_* loaders'],
)
