"""Contract for RequestHandlerBase.get_http_range (C13, C16) against an RFC 7233 spec function."""
import z3
from pyvc.vals import *          # noqa: F401,F403
from pyvc.contract import Contract, Loop, Lemma, Group
from pyvc.models.strings import Headers, FString

BASE = 'dashlive/server/requesthandler/base.py'


def world():
    w = {'N': z3.Int('N')}
    for b in ('present', 'bytes_prefix', 'has_comma', 'p_empty', 'q_empty', 'p_num', 'q_num'):
        w[b] = z3.Bool(b)
    for i in ('arity', 'p_val', 'q_val'):
        w[i] = z3.Int(i)
    w['str_model'] = z3.And(w['arity'] >= 1, w['p_val'] >= 0, w['q_val'] >= 0,
                            z3.Implies(w['p_empty'], z3.Not(w['p_num'])), z3.Implies(w['q_empty'], z3.Not(w['q_num'])),
                            # a comma in the header sits in one of the two parts, and int() rejects a comma
                            z3.Implies(z3.And(w['has_comma'], w['arity'] == 2), z3.And(
                                z3.Not(z3.And(w['p_num'], w['q_num'])),
                                z3.Implies(w['p_empty'], z3.Not(w['q_num'])),
                                z3.Implies(w['q_empty'], z3.Not(w['p_num'])))))
    # "the header is one RFC 7233 byte-range-spec or suffix-byte-range-spec with the unit bytes"
    w['single_range'] = z3.And(
        w['bytes_prefix'], z3.Not(w['has_comma']), w['arity'] == 2,
        z3.Or(z3.And(w['p_empty'], w['q_num']),
              z3.And(z3.Not(w['p_empty']), w['p_num'], z3.Or(w['q_empty'], w['q_num']))))
    N, p, q = w['N'], w['p_val'], w['q_val']
    suffix, open_end = w['p_empty'], z3.And(z3.Not(w['p_empty']), w['q_empty'])
    # RFC 7233 2.1: satisfiable iff first-byte-pos < length (and last >= first), or a non-zero suffix of a non-empty body
    w['satisfiable'] = z3.If(suffix, z3.And(q >= 1, N >= 1), z3.If(open_end, p < N, z3.And(p < N, q >= p)))
    w['first'] = z3.If(suffix, z3.If(N - q >= 0, N - q, 0), p)
    w['last'] = z3.If(z3.Or(suffix, open_end), N - 1, z3.If(q <= N - 1, q, N - 1))

    def fmt_is(x, *parts):
        """the f-string x was built from exactly these constant pieces and values"""
        if not isinstance(x, FString) or len(x.parts) != len(parts):
            return z3.BoolVal(False)
        conj = []
        for a, b in zip(x.parts, parts):
            if isinstance(a, str) or isinstance(b, str):
                if a != b:
                    return z3.BoolVal(False)
            else:
                conj.append(zint(a) == zint(b))
        return z3.And(*conj) if conj else z3.BoolVal(True)

    w['hdr_is'] = lambda d, key, *parts: fmt_is(d.get(key), *parts) if isinstance(d, dict) else z3.BoolVal(False)
    w['is_empty_dict'] = lambda d: isinstance(d, dict) and not d
    w['keys_are'] = lambda d, *ks: isinstance(d, dict) and sorted(d) == sorted(ks)
    w['is_slice'] = lambda d, lo, hi: z3.And(zint(d.lo) == zint(lo), zint(d.hi) == zint(hi)) if isinstance(d, Slice) else z3.BoolVal(False)
    w['__bases__'] = {}
    return w


def wt(w):
    def f(ev):
        return {k: ev(w[k]) for k in ('N', 'present', 'bytes_prefix', 'has_comma', 'arity', 'p_empty', 'q_empty',
                                      'p_num', 'q_num', 'p_val', 'q_val')}
    return f


GET_HTTP_RANGE = Contract(
    key=f'{BASE}:RequestHandlerBase.get_http_range', props=['C13', 'C16'],
    env=lambda w: {'self': Obj('RequestHandlerBase', {}), 'content_length': w['N']},
    requires=[('length', 'content_length >= 0'), ('str_model', 'str_model')],
    models={'attr:flask.request.headers': lambda eng: Headers(eng.world)},
    raises={'ValueError': 'present and not single_range'},
    ensures=[
        ('absent', '(result[0] is None and result[1] is None and result[2] == 200 and is_empty_dict(result[3])) '
                   'if not present else True'),
        ('status', '(result[2] == (206 if satisfiable else 416)) if present else True'),
        ('slice', '(result[0] == first and result[1] == last and 0 <= result[0] and result[0] <= result[1] '
                  'and result[1] < N) if present and satisfiable else True'),
        ('content_range_206', "(keys_are(result[3], 'Accept-Ranges', 'Content-Range') and "
                              "hdr_is(result[3], 'Content-Range', 'bytes ', first, '-', last, '/', N)) "
                              'if present and satisfiable else True'),
        ('content_range_416', "hdr_is(result[3], 'Content-Range', 'bytes */', N) if present and not satisfiable else True"),
    ],
    canaries=['result[2] == 200', 'result[2] != 416'],
    witness_terms=wt,
)


MRQ = 'dashlive/server/requesthandler/media_requests.py'


class OpenedFile:
    """current_media_file.open_file(start=s): a context manager whose __enter__ gives a reader over the blob's N bytes,
    positioned at s (Blob.open_file is not under contract: stated assumption)"""

    def __init__(self, N, start):
        self.N, self.start = N, start

    def enter(self, eng):
        from pyvc.models.bufreader import FileModel
        eng.oblige('safety', 'open_file.start.nonneg', zint(self.start) >= 0)
        return FileModel(self.N, zint(self.start))


def make_response(eng, e, a, kw):
    v = a[0]
    if isinstance(v, tuple) and len(v) == 3:
        return Obj('Response', {'data': v[0], 'status': v[1], 'headers': v[2]})
    if isinstance(v, tuple) and len(v) == 2 or len(a) == 2:
        body, status = (v if isinstance(v, tuple) else (a[0], a[1]))
        return Obj('Response', {'data': body, 'status': status, 'headers': {}})
    raise Unsupported('flask.make_response shape')


def on_demand_contract(ext, mime):
    return Contract(
        key=f'{MRQ}:OnDemandMedia.get', variant=ext, props=['C13', 'C06', 'C16'],
        env=lambda w: {'self': Obj('RequestHandlerBase', {}), 'stream': Opaque('stream'), 'filename': Opaque('filename'),
                       'ext': ext,
                       'current_media_file': Obj('MediaFile', {'blob': Obj('Blob', {'size': w['N']})})},
        requires=[('length', 'N >= 0'), ('str_model', 'str_model')],
        models={'attr:flask.request.headers': lambda eng: Headers(eng.world),
                'current_media_file.open_file': lambda eng, e, a, kw: OpenedFile(eng.world['N'], kw['start']),
                'flask.make_response': make_response},
        ensures=[
            ('bad_request', '(result.status == 400) == ((not present) or (not single_range))'),
            ('partial_content', '(result.status == 206 and is_slice(result.data, first, last + 1) and '
                                "hdr_is(result.headers, 'Content-Range', 'bytes ', first, '-', last, '/', N) and "
                                f"result.headers['Content-Type'] == '{mime}') "
                                'if present and single_range and satisfiable else True'),
            ('not_satisfiable', "(result.status == 416 and result.data == b'' and "
                                "hdr_is(result.headers, 'Content-Range', 'bytes */', N)) "
                                'if present and single_range and not satisfiable else True'),
        ],
        canaries=['result.status == 400', 'result.status != 416'],
        witness_terms=wt,
    )


ON_DEMAND = [on_demand_contract('m4a', 'audio/mp4'), on_demand_contract('m4v', 'video/mp4'), on_demand_contract('mp4', 'application/mp4')]
GHR_INLINE = Contract(key=f'{BASE}:RequestHandlerBase.get_http_range', variant='inline', props=[], inline=True)
GET_HTTP_RANGE.applies = lambda frame: False      # at the handler's call site the real body is analysed (inlined)


def lemma_consumer_slice(w):
    """media_requests.py:276 `data[start:end + 1]` with len(data) == N, and :82 `reader.read(1 + end - start)`
    from `start`: under get_http_range's postcondition both are exactly bytes start..end of the body."""
    N, a, b = w['N'], z3.Int('start'), z3.Int('end')
    post = z3.And(N >= 0, 0 <= a, a <= b, b < N)
    lo = z3.If(a <= N, a, N)
    hi = z3.If(b + 1 <= N, b + 1, N)
    hi = z3.If(hi >= lo, hi, lo)
    return [post], z3.And(lo == a, hi == b + 1, hi - lo == 1 + b - a, 1 + b - a >= 1, a + (1 + b - a) <= N)


GROUP = Group(
    name='httprange', world=world, contracts=[GET_HTTP_RANGE] + ON_DEMAND + [GHR_INLINE],
    lemmas=[Lemma('consumer_slice', ['C13'], lemma_consumer_slice)],
    assumptions=[
        'C13: OnDemandMedia.get is analysed with the real body of get_http_range inlined at its call site; '
        'current_media_file.open_file(start=s) is assumed to yield a reader over the blob (N = blob.size bytes) positioned at s; '
        'flask.make_response((body, status, headers)) is assumed to build the response from exactly those three values',
        'C13: the Range header is modelled by the predicates the code observes (pyvc/models/strings.py); '
        'a part of split("-") contains no "-", so int(part, 10) >= 0 when it succeeds; a comma in the header lies in '
        'one of the parts and int() rejects it',
        'C13: str.lower()/strip() only normalise; the spec is stated over the normalised header',
    ],
    trusted=['pyvc/models/strings.py (Headers, HdrStr, SplitParts, PartStr, FString)'],
    not_covered=['Flask header access and make_response (modelled); Blob.open_file (assumed: a reader over the blob positioned '
                 'at `start`); the media-segment consumer generate_media_segment (data[start:end+1]) is covered only by lemma '
                 'consumer_slice over the contract; it applies the slice also on 416 (body of a 416 is unspecified)'],
)
