"""Contracts for dashlive/mpeg/dash/timing.py (C08, C09, C16): DashTiming.calculate_live_params.

Time values: `now`, availabilityStartTime, publishTime are UTC instants in integer microseconds since the
epoch (DT); elapsedTime / firstAvailableTime / leeway are integer microseconds (TD).  The calendar functions
month_start / year_start (day number -> day number of the first of the month / year) are uninterpreted with the
axioms below (assumed contract on the Gregorian calendar; validated natively for 1970-2100 as a bounded check).
"""
import z3
from pyvc.vals import *          # noqa: F401,F403
from pyvc.contract import Contract, Loop, Lemma, Group

TIMING = 'dashlive/mpeg/dash/timing.py'
SEC = 1000000
DAY = 86400 * SEC


def calendar_axioms(ms, ys):
    d, e = z3.Ints('d!cal e!cal')
    return z3.And(
        z3.ForAll([d], z3.And(ms(d) <= d, d - ms(d) <= 30, ys(d) <= d, d - ys(d) <= 365, ys(d) <= ms(d))),
        z3.ForAll([d, e], z3.Implies(z3.And(ms(d) <= e, e <= d), ms(e) == ms(d))),
        z3.ForAll([d, e], z3.Implies(z3.And(ys(d) <= e, e <= d), ys(e) == ys(d))))


def world():
    w = {}
    w['now_dt'], w['now_norm'] = DT.decomposed('now')
    w['now'] = zint(w['now_dt'].us)
    for nm in ('ref_sd', 'ref_ts', 'ref_dur', 'ref_n', 'opt_depth', 'opt_mup', 'opt_leeway', 'opt_ast'):
        w[nm] = z3.Int(nm)
    for nm in ('depth_none', 'mup_none', 'leeway_none'):
        w[nm] = z3.Bool(nm)
    w['NOW'] = w['now']
    w['month_start'] = z3.Function('month_start', INT, INT)
    w['year_start'] = z3.Function('year_start', INT, INT)
    w['calendar'] = calendar_axioms(w['month_start'], w['year_start'])
    w.update(
        us=lambda x: zint(x.us), micros=lambda x: zint(x.us),
        # the clock, by components (NOW == DAY*now_day + SEC*now_sec + now_usec):
        NOW_S=DAY * z3.Int('now_day') + SEC * z3.Int('now_sec'),      # floor to the second
        NOW_DAY0=DAY * z3.Int('now_day'),                              # midnight
        now_day=z3.Int('now_day'), now_sec=z3.Int('now_sec'),
        optval=lambda x: x.val if isinstance(x, Opt) else x,
        zmin=lambda a, b: z3.If(zint(a) <= zint(b), zint(a), zint(b)),
        zmax=lambda a, b: z3.If(zint(a) >= zint(b), zint(a), zint(b)))
    w['__bases__'] = {}
    w['__ctors__'] = {'UTC': lambda eng, a, kw: Opaque('UTC')}
    return w


def ref_obj(w):
    return Obj('StreamTimingReference', {'media_duration': w['ref_dur'], 'timescale': w['ref_ts'],
                                         'segment_duration': w['ref_sd'], 'num_media_segments': w['ref_n'],
                                         'media_name': Opaque('name')})


def options_obj(w, start):
    ast = DT(w['opt_ast']) if start == 'explicit' else start
    return Obj('OptionsContainer', {
        'mode': 'live', 'availabilityStartTime': ast,
        'timeShiftBufferDepth': Opt(w['depth_none'], w['opt_depth']),
        'minimumUpdatePeriod': Opt(w['mup_none'], w['opt_mup']),
        'leeway': Opt(w['leeway_none'], w['opt_leeway'])})


def self_obj(w):
    day, sec, _ = w['now_dt'].parts
    return Obj('DashTiming', {'mode': 'live', 'now': w['now_dt'], 'publishTime': DT(DAY * day + SEC * sec, (day, sec, 0)),
                              'stream_reference': ref_obj(w), 'leeway': TD(z3.IntVal(0)),
                              'DEFAULT_TIMESHIFT_BUFFER_DEPTH': 60})


def wt(w):
    def f(ev):
        return {k: ev(w[k]) for k in ('now', 'ref_sd', 'ref_ts', 'opt_depth', 'opt_mup', 'opt_leeway', 'opt_ast',
                                      'depth_none', 'mup_none', 'leeway_none')}
    return f


# the availabilityStartTime each symbolic start must resolve to (statement: "epoch, today, month and year resolve to
# one and the same instant for all requests within a UTC day after its first minute; now follows the clock at 60 s")
AST_SPEC = {
    'epoch': '0',
    'today': 'NOW_DAY0 - (86400000000 if now_sec < 60 else 0)',
    'month': 'month_start(now_day) * 86400000000 - '
             '(86400000000 if NOW_S - month_start(now_day) * 86400000000 < 86400000000 else 0)',
    'year': 'year_start(now_day) * 86400000000 - '
            '(86400000000 if NOW_S - year_start(now_day) * 86400000000 < 86400000000 else 0)',
    'now': 'NOW_S - 60000000',
    'explicit': 'opt_ast - (86400000000 if opt_ast == NOW else 0)',
}

MODIFIES = ['self.timeShiftBufferDepth', 'self.availabilityStartTime', 'self.elapsedTime', 'self.minimumUpdatePeriod',
            'self.firstAvailableTime', 'self.leeway', 'self.publishTime']


def live_params(start):
    req = [('now_epoch', 'NOW >= 86400000000'), ('now_components', 'now_norm'),           # any instant after 1970-01-02 (the code subtracts a day at most)
           ('calendar', 'calendar'),
           ('ref', 'ref_ts >= 1 and ref_sd >= 1'),
           # the state DashTiming.__init__ hands over (obliged at that call site)
           ('init_state', 'us(self.publishTime) == NOW_S and us(self.leeway) == 0 and us(self.now) == NOW and us(now) == NOW')]
    if start == 'explicit':
        req += [('ast_le_now', 'opt_ast <= NOW'), ('ast_whole_second', 'opt_ast % 1000000 == 0')]
    AST = 'us(self.availabilityStartTime)'
    ens = [
        ('ast_value', f'{AST} == {AST_SPEC[start]}'),
        ('ast_le_now', f'{AST} <= NOW'),
        ('elapsed', f'us(self.elapsedTime) == NOW - {AST}'),
        ('publish_whole_second', 'us(self.publishTime) % 1000000 == 0'),
        ('publish_in_range', f'{AST} <= us(self.publishTime) and us(self.publishTime) <= NOW'),
        ('depth_range', f'0 <= optval(self.timeShiftBufferDepth) and '
                        f'optval(self.timeShiftBufferDepth) * 1000000 <= NOW - {AST}'),
        ('depth_value', f'optval(self.timeShiftBufferDepth) == zmin(60 if (depth_none or opt_depth <= 0) else opt_depth, '
                        f'(NOW - {AST}) // 1000000)'),
        ('first_available', f'us(self.firstAvailableTime) == NOW - {AST} - optval(self.timeShiftBufferDepth) * 1000000 '
                            'and us(self.firstAvailableTime) >= 0'),
        ('leeway', 'us(self.leeway) == (0 if leeway_none else opt_leeway * 1000000)'),
        ('mup_disabled', 'is_none(self.minimumUpdatePeriod) == (not mup_none and opt_mup <= 0)'),
        ('mup_positive', 'True if is_none(self.minimumUpdatePeriod) else optval(self.minimumUpdatePeriod) >= 1'),
        ('mup_value', 'True if (mup_none or opt_mup <= 0) else optval(self.minimumUpdatePeriod) == opt_mup'),
        ('publish_value', f'us(self.publishTime) == NOW_S if is_none(self.minimumUpdatePeriod) else '
                          f'us(self.publishTime) == {AST} + ((NOW - {AST}) // (optval(self.minimumUpdatePeriod) * 1000000)) '
                          '* optval(self.minimumUpdatePeriod) * 1000000'),
    ]
    if start != 'explicit':
        ens.append(('at_least_a_minute_old', f'NOW - {AST} >= 60000000'))
    return Contract(
        key=f'{TIMING}:DashTiming.calculate_live_params', variant=start,
        props=['C08', 'C09', 'C16'],
        env=lambda w: {'self': self_obj(w), 'now': w['now_dt'], 'options': options_obj(w, start)},
        requires=req, modifies=MODIFIES, ensures=ens,
        mod_types={'self.timeShiftBufferDepth': 'opt_int', 'self.availabilityStartTime': 'dt', 'self.elapsedTime': 'td',
                   'self.minimumUpdatePeriod': 'opt_int', 'self.firstAvailableTime': 'td', 'self.leeway': 'td',
                   'self.publishTime': 'dt'},
        canaries=['optval(self.timeShiftBufferDepth) == 60'],
        witness_terms=wt,
    )


LIVE = [live_params(s) for s in ('epoch', 'today', 'month', 'year', 'now', 'explicit')]
for _c in LIVE:
    _c.applies = (lambda v: (lambda fr: (fr['options'].f['availabilityStartTime'] == v) if v != 'explicit'
                             else isinstance(fr['options'].f['availabilityStartTime'], DT)))(_c.variant)

from contracts import dt as DT_GROUP      # noqa: E402

VOD_PARAMS = Contract(
    key=f'{TIMING}:DashTiming.calculate_vod_params', props=['C06'],
    env=lambda w: {'self': Obj('DashTiming', {'mode': 'vod', 'now': w['now_dt'], 'stream_reference': ref_obj(w),
                                              'publishTime': DT(z3.Int('pt0')), 'leeway': TD(z3.IntVal(0))}),
                   'now': w['now_dt'], 'options': Obj('OptionsContainer', {'mode': 'vod'})},
    requires=[('ref', 'ref_ts >= 1 and ref_dur >= 0')],
    modifies=['self.availabilityStartTime', 'self.timeShiftBufferDepth', 'self.elapsedTime', 'self.firstAvailableTime',
              'self.mediaDuration', 'self.minimumUpdatePeriod'],
    mod_types={'self.availabilityStartTime': 'none', 'self.timeShiftBufferDepth': 'int', 'self.elapsedTime': 'td',
               'self.firstAvailableTime': 'td', 'self.mediaDuration': 'td', 'self.minimumUpdatePeriod': 'none'},
    ensures=[('media_duration', 'us(self.mediaDuration) == (ref_dur * 1000000) // ref_ts'),
             # "equals the timing-reference duration to the millisecond": less than 1 us below ref_dur/ref_ts seconds
             ('to_the_millisecond', 'us(self.mediaDuration) * ref_ts <= ref_dur * 1000000 and '
                                    'ref_dur * 1000000 < (us(self.mediaDuration) + 1) * ref_ts'),
             ('static', 'self.availabilityStartTime is None and self.minimumUpdatePeriod is None and '
                        'self.timeShiftBufferDepth == 0 and us(self.elapsedTime) == 0 and us(self.firstAvailableTime) == 0')],
    canaries=['us(self.mediaDuration) == 0'],
    witness_terms=lambda w: (lambda ev: {'now': ev(w['now']), 'ref_dur': ev(w['ref_dur']), 'ref_ts': ev(w['ref_ts']), 'ref_sd': 1}),
)


def init_contract(mode, start='epoch'):
    def env(w):
        opts = options_obj(w, start)
        opts.f['mode'] = mode
        return {'self': Obj('DashTiming', {'DEFAULT_TIMESHIFT_BUFFER_DEPTH': 60}), 'now': w['now_dt'],
                'stream_ref': ref_obj(w), 'options': opts}
    ens = [('publish', 'us(self.publishTime) == NOW_S' if mode == 'vod' else 'True'),
           ('fields', f"self.mode == '{mode}' and us(self.now) == NOW"),
           ('leeway_default', 'us(self.leeway) == 0' if mode == 'vod' else 'True')]
    if mode == 'live':
        ens += [('live_ast_le_now', 'us(self.availabilityStartTime) <= NOW'),
                ('live_first_available', 'us(self.firstAvailableTime) >= 0 and us(self.firstAvailableTime) <= us(self.elapsedTime)')]
    else:
        ens += [('vod_duration', 'us(self.mediaDuration) == (ref_dur * 1000000) // ref_ts')]
    return Contract(
        key=f'{TIMING}:DashTiming.__init__', variant=mode, props=['C08' if mode == 'live' else 'C06', 'C16'],
        env=env,
        requires=[('now_epoch', 'NOW >= 86400000000'), ('now_components', 'now_norm'), ('calendar', 'calendar'),
                  ('ref', 'ref_ts >= 1 and ref_sd >= 1 and ref_dur >= 0')],
        modifies=['self.mode', 'self.now', 'self.publishTime', 'self.stream_reference', 'self.leeway'] + MODIFIES +
                 ['self.mediaDuration'],
        ensures=ens,
        witness_terms=wt,
    )


INIT = [init_contract('live'), init_contract('vod')]


# ----------------------------------------------------------------------------- two-state lemmas over the contracts
def _two_clocks(w, text):
    """the clause `text` (over the clock components) at two instants now1 <= now2"""
    from pyvc.engine import Engine
    t = zint(Engine.spec_term(w, text))
    nd, ns, nu = z3.Int('now_day'), z3.Int('now_sec'), z3.Int('now_usec')
    c1 = [z3.Int(f'{v}1') for v in ('now_day', 'now_sec', 'now_usec')]
    c2 = [z3.Int(f'{v}2') for v in ('now_day', 'now_sec', 'now_usec')]
    t1 = z3.substitute(t, (nd, c1[0]), (ns, c1[1]), (nu, c1[2]))
    t2 = z3.substitute(t, (nd, c2[0]), (ns, c2[1]), (nu, c2[2]))
    n1 = DAY * c1[0] + SEC * c1[1] + c1[2]
    n2 = DAY * c2[0] + SEC * c2[1] + c2[2]
    norm = z3.And(*[z3.And(0 <= c[1], c[1] < 86400, 0 <= c[2], c[2] < SEC) for c in (c1, c2)], n1 <= n2, n1 >= DAY)
    return t1, t2, c1, c2, n1, n2, norm


def lemma_ast_monotone(start):
    def build(w):
        a1, a2, c1, c2, n1, n2, norm = _two_clocks(w, AST_SPEC[start])
        return [w['calendar'], norm], a1 <= a2
    return build


def lemma_ast_same_day(start):
    """epoch / today / month / year resolve to one instant for all requests within a UTC day after its first minute"""
    def build(w):
        a1, a2, c1, c2, n1, n2, norm = _two_clocks(w, AST_SPEC[start])
        return [w['calendar'], norm, c1[0] == c2[0], c1[1] >= 60], a1 == a2
    return build


def lemma_ast_now_follows(w):
    a1, a2, c1, c2, n1, n2, norm = _two_clocks(w, AST_SPEC['now'])
    return [norm], z3.And(a1 == DAY * c1[0] + SEC * c1[1] - 60 * SEC, n1 - a1 >= 60 * SEC, n1 - a1 < 61 * SEC)


def lemma_publish_on_period(w):
    """from the postcondition publish_value (publishTime = A + ((now - A) // p) * p, p the period in microseconds):
    publishTime is A plus a whole number k >= 0 of periods, lies in [A, now] and lags now by less than one period
    (so by less than p + 1 s)"""
    A, p, n, P, k = z3.Ints('A p n P k')
    pc = [p >= 1, A <= n, k == floordiv(n - A, p * SEC), P == A + k * p * SEC]
    return pc, z3.And(k >= 0, A <= P, P <= n, n - P < p * SEC, n - P < (p + 1) * SEC)


def lemma_publish_monotone(w):
    """with availabilityStartTime A and period p fixed, publishTime(now) = A + ((now - A) // p) * p never decreases
    (p = None: floor to the second)"""
    A, p, n1, n2 = z3.Ints('A p n1 n2')
    P = lambda n: A + floordiv(n - A, p * SEC) * p * SEC
    return [p >= 1, A <= n1, n1 <= n2], z3.And(P(n1) <= P(n2), n1 - pymod(n1, z3.IntVal(SEC)) <= n2 - pymod(n2, z3.IntVal(SEC)))


GROUP = Group(
    name='timing', world=world, contracts=LIVE + [VOD_PARAMS] + INIT,
    lemmas=[Lemma(f'ast_monotone_{s}', ['C08', 'C09'], lemma_ast_monotone(s)) for s in ('today', 'month', 'year', 'now')] +
           [Lemma(f'ast_same_within_day_{s}', ['C08'], lemma_ast_same_day(s)) for s in ('epoch', 'today', 'month', 'year')] +
           [Lemma('ast_now_follows_clock', ['C08'], lemma_ast_now_follows),
            Lemma('publish_time_on_period_and_lag', ['C08'], lemma_publish_on_period),
            Lemma('publish_time_monotone', ['C08', 'C09'], lemma_publish_monotone)],
    assumptions=[
        'C08: datetime values are timezone-aware UTC instants (datetime.now(tz=UTC()) at the call sites), modelled as '
        'integer microseconds; .replace(microsecond=0) / (hour=0,...) are floor to second / day',
        'C08: Gregorian calendar assumed through month_start / year_start axioms (first of month/year <= day, at most 30 / '
        '365 days earlier, constant between the first and the day); validated natively 1970-2100 (bounded)',
        'C08: float arithmetic (total_seconds(), 2.0*sd/ts, //) treated as exact real arithmetic; round() as nearest integer',
        'C08: now >= 1970-01-02; an explicit availabilityStartTime is <= now and on a whole second (region; see known '
        'finding C08-fractional-start)',
    ],
    bounded=[{'name': 'c08_calendar', 'props': ['C08'], 'cmd': ['/venv/bin/python', 'bounded/c08_calendar.py']}],
    trusted=['datetime/timedelta model of pyvc (DESIGN.md 2.2)'],
    not_covered=['ast_from_string / option parsing (regex, from_isodatetime)',
                 'generate_manifest_context (copies fields)'],
)

GROUP.callees = [DT_GROUP.TIMECODE_TO_TIMEDELTA]
