"""Which contract groups serve which property."""
PROPERTY_GROUPS = {
    'C01': ['rep', 'dt', 'mps'],
    'C02': ['rep', 'mp4'],
    'C03': ['mp4', 'rep'],
    'C04': ['mp4'],
    'C05': ['xml'],
    'C06': ['rep', 'timing', 'dt', 'load', 'httprange'],
    'C08': ['timing'],
    'C09': ['timing', 'rep', 'dt', 'errors', 'xml', 'mps'],
    'C10': ['drm', 'mp4', 'playready'],
    'C11': ['playready', 'mp4', 'drm', 'clearkey', 'xml'],
    'C12': ['mps', 'lookup'],
    'C13': ['httprange', 'rep'],
    'C14': ['events', 'scte35', 'mp4'],
    'C15': ['auth'],
    'C16': ['events', 'bufreader', 'httprange', 'rep', 'timing', 'mps', 'errors', 'mp4', 'load', 'timesource', 'lookup', 'auth'],
    'C19': ['dt'],
    'C20': ['bufreader'],
}

COMMON_ASSUMPTIONS = [
    'Python int is modelled as mathematical integer (exact: Python ints are unbounded)',
    'f-strings and %-formatted log/exception texts are opaque: their operand expressions are not evaluated',
    'objects passed as separate parameters are not aliased unless the contract says so',
]
