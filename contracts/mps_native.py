"""Native builders for the `mps` group: handler / manifest-context methods extracted from source (their modules
cannot be imported offline) and run against light-weight stand-ins for the database objects."""
import datetime
from types import SimpleNamespace as NS

import flask

from contracts.rep_native import extract_method, make_rep, spec_env
from dashlive.mpeg.dash.reference import StreamTimingReference

US = datetime.timedelta(microseconds=1)
MCX = 'dashlive/server/requesthandler/manifest_context.py'
MRQ = 'dashlive/server/requesthandler/media_requests.py'


def build_get(i, init=False):
    import logging
    g = lambda k: int(i[k])
    stream = NS(pk=g('stream_pk'))
    period = None if i['period_missing'] else NS(parent_pk=g('period_parent_pk'), stream=stream, pk=g('ppk'))
    seen = {}

    def media_get(stream_pk=None, name=None):
        return None if i['media_missing'] else NS(stream_pk=stream_pk, name=name)

    def calc(mode, args, stream_):
        if i['bad_options']:
            raise ValueError('bad option')
        return NS(for_stream=stream_)

    def generate(**kw):
        return flask.make_response(('ok', 200, {'X-Generated': '1'})), kw
    app = flask.Flask('replay')
    fn = extract_method(MRQ, 'ServeMpsInitSeg' if init else 'ServeMpsMedia', 'get', {
        'flask': flask, 'logging': logging, 'current_mps': NS(pk=g('mps_pk')),
        'models': NS(Period=NS(get=lambda pk=None: period), MediaFile=NS(get=media_get))})
    me = NS(calculate_options=calc)
    me.generate_media_segment = lambda **kw: seen.update(kw=kw, g_period=flask.g.period, g_stream=flask.g.stream) or flask.make_response(('ok', 200))
    env = {k: g(k) for k in ('ppk', 'mps_pk', 'period_parent_pk', 'stream_pk', 'seg_num')}
    env.update({k: bool(i[k]) for k in ('period_missing', 'bad_options', 'media_missing')})

    me.generate_init_segment = lambda media, mode, options: seen.update(init=(media, mode, options)) or flask.make_response(('ok', 200))

    def call_init():
        with app.test_request_context('/x'):
            r = fn(me, 'vod', 'mps', g('ppk'), 'file', 'mp4')
            media, mode, options = seen.get('init', (None, None, None))
            return NS(status=r.status_code, media=media, mode=mode, options=options)
    if init:
        return {'env': env, 'old_env': dict(env), 'call': call_init}

    def call():
        with app.test_request_context('/x'):
            r = fn(me, 'vod', 'mps', g('ppk'), 'file', 'mp4', g('seg_num'), None)
            return NS(status=r.status_code, generated_for=seen.get('kw'), g_period=seen.get('g_period'), g_stream=seen.get('g_stream'))
    return {'env': env, 'old_env': dict(env), 'call': call}


def build_create_period(i):
    import logging
    EPOCH = datetime.datetime(1970, 1, 1, tzinfo=datetime.timezone.utc)
    g = lambda k: int(i[k])
    seen = {}
    if abs(g('ast_us')) > 10**17:
        raise ValueError('instant out of range for a native datetime')
    timing = NS(availabilityStartTime=EPOCH + datetime.timedelta(microseconds=g('ast_us')), timeShiftBufferDepth=g('depth'))
    opts = NS(abr=True, mode='live', encrypted=False, segmentTimeline=False, useBaseUrls=True,
              availabilityStartTime='epoch', timeShiftBufferDepth=g('opt_depth'))

    def adp(kind):
        a = NS(content_type=kind, lang='und', encrypted=False, got_params=None, event_streams=[])
        a.append_cgi_params = lambda p: setattr(a, 'got_params', p)
        return a

    def cgi(audio=None, video=None):
        seen.update(ast=opts.availabilityStartTime, depth=opts.timeShiftBufferDepth)
        return NS(video={'k': 'video'}, audio={'k': 'audio'}, text={'k': 'text'}, manifest={}, patch={}, time={})
    me = NS(options=opts, cgi_params=None, locationURL=None,
            calculate_video_adaptation_set=lambda stream, max_items=None: adp('video'),
            calculate_audio_adaptation_sets=lambda stream: [adp('audio'), adp('audio')],
            calculate_text_adaptation_sets=lambda stream, lang: [adp('text')],
            update_timing=lambda t: None, calculate_cgi_parameters=cgi)

    class Period(NS):
        def __init__(self, **kw):
            super().__init__(adaptationSets=[], event_streams=[], baseURL='http://x/', **kw)

        def finish_setup(self, **kw):
            pass
    fl = NS(url_for=lambda *a, **k: '/base/', request=NS(url='http://x/m.mpd'))
    fn = extract_method(MCX, 'ManifestContext', 'create_period', {
        'flask': fl, 'logging': logging, 'Period': Period, 'AdaptationSet': object, 'EventFactory': NS(create_event_generators=lambda o: []),
        'is_https_request': lambda: False, 'objects': NS(dict_to_cgi_params=lambda d: ''), 'models': NS(Stream=object, Period=object, Key=object),
        'DrmContext': object, 'KeyMaterial': object, 'Set': set})
    us = lambda dt: (dt - EPOCH) // datetime.timedelta(microseconds=1) if isinstance(dt, datetime.datetime) else -1
    env = {'ast_us': g('ast_us'), 'depth': g('depth'), 'opt_depth': g('opt_depth'), 'self': me, 'instant_us': us,
           'params_of': lambda period, k, kind: len(period.adaptationSets) > k and period.adaptationSets[k].got_params == {'k': kind}
           and period.adaptationSets[k].content_type == kind}
    return {'env': env, 'old_env': dict(env), 'call': lambda: fn(me, NS(directory='d'), timing, None),
            'post_env': lambda: {'ast_at_url_time': seen.get('ast'), 'depth_at_url_time': seen.get('depth')}}


def build_context_init(variant, i):
    import logging
    import math
    from fractions import Fraction
    EPOCH = datetime.datetime(1970, 1, 1, tzinfo=datetime.timezone.utc)
    US = datetime.timedelta(microseconds=1)
    g = lambda k: int(i[k])
    if max(abs(g('clock_us')), abs(g('publish_us')), abs(g('media_us')), abs(g('drift')) * 10**6) > 10**17 or g('mup_d') < 1:
        raise ValueError('instant out of range for a native datetime')
    patch = variant == 'live-patch'

    class Clock(datetime.datetime):
        @classmethod
        def now(cls, tz=None):
            return EPOCH + g('clock_us') * US

    class DashTiming:
        def __init__(self, now, ref, options):
            self.now, self.ref, self.options = now, ref, options
            self.publishTime = EPOCH + g('publish_us') * US
            self.timeShiftBufferDepth = g('tsbd')
            self.minimumUpdatePeriod = Fraction(g('mup_n'), g('mup_d'))
    opts = NS(clockDrift=None if i['drift_none'] else g('drift'), mode='live', utcMethod=None, patch=patch)
    ref = NS(media_duration_timedelta=lambda: g('media_us') * US)
    stream = NS(directory='dir', title='title', timing_reference=ref)
    mft = NS(name='manifest-name')
    me = NS()

    def create_period(stream_, timing, db_period=None):
        me.cgi_params = NS(patch={})
        return NS(stream=stream_, timing=timing, db_period=db_period)
    me.create_period = create_period
    fn = extract_method(MCX, 'ManifestContext', '__init__', {
        'flask': NS(url_for=lambda route, **kw: NS(route=route, **kw)), 'logging': logging, 'math': math,
        'datetime': NS(datetime=Clock, timedelta=datetime.timedelta, timezone=datetime.timezone), 'UTC': lambda: datetime.timezone.utc,
        'DashTiming': DashTiming, 'PatchLocation': lambda **kw: NS(**kw), 'TimeSourceContext': object,
        'primary_profiles': {'live': 'profile-live', 'vod': 'profile-vod', 'odvod': 'profile-odvod'},
        'additional_profiles': {'dvb': 'profile-dvb'}, 'objects': NS(dict_to_cgi_params=lambda d: ''), 'models': NS()})
    us = lambda dt: (dt - EPOCH) // US if isinstance(dt, datetime.datetime) else -1
    env = {k: g(k) for k in ('clock_us', 'drift', 'publish_us', 'tsbd', 'mup_n', 'mup_d', 'media_us')}
    env.update(drift_none=bool(i['drift_none']), self=me, options=opts, manifest=mft, stream=stream, multi_period=None,
               instant_us=us, has_field=lambda o, k: hasattr(o, k))
    return {'env': env, 'old_env': dict(env), 'call': lambda: fn(me, opts, mft, stream, None)}


def build(key, variant, i):
    qual = key.split(':')[1]
    if qual == 'ManifestContext.__init__':
        return build_context_init(variant, i)
    if qual == 'ManifestContext.create_period':
        return build_create_period(i)
    if qual == 'ServeMpsMedia.get':
        return build_get(i)
    if qual == 'ServeMpsInitSeg.get':
        return build_get(i, init=True)
    if qual == 'MediaRequestBase.generate_media_segment':
        from contracts.rep_native import build_gms
        kind = variant.split('-')[1]
        rep, ref = make_rep(i, 'vod')
        env = spec_env(rep, ref, i)
        ps, tref = int(i['ps_us']), int(i['tref'])
        tr = ps * tref // 10**6
        env['T0'] = tr * rep.timescale // tref if rep.timescale != tref else tr
        env.update(ps_us=ps, tref=tref, T0_def=True)
        msi = extract_method(MRQ, 'ServeMpsMedia', 'calculate_media_segment_index', {'flask': flask, 'models': NS(Period=object)})
        period = NS(start=datetime.timedelta(microseconds=ps), stream=NS(timing_reference=NS(timescale=tref)))

        def setup():
            flask.g.period = period
        return build_gms('vod-' + '-'.join(variant.split('-')[1:]), i, 'vod', rep, ref, env, msi=msi, setup=setup)
    if qual == 'ServeMpsMedia.calculate_media_segment_index':
        rep, ref = make_rep(i, 'vod')
        env = spec_env(rep, ref, i)
        ps, tref = int(i['ps_us']), int(i['tref'])
        tr = ps * tref // 10**6
        env['T0'] = tr * rep.timescale // tref if rep.timescale != tref else tr
        env.update(ps_us=ps, tref=tref, T0_def=True, representation=rep,
                   seg_num=int(i['seg_num']) if variant == 'number' else None,
                   seg_time=int(i['seg_time']) if variant == 'time' else None)
        fn = extract_method(MRQ, 'ServeMpsMedia', 'calculate_media_segment_index', {'flask': flask, 'models': NS(Period=object)})
        app = flask.Flask('replay')
        period = NS(start=datetime.timedelta(microseconds=ps), stream=NS(timing_reference=NS(timescale=tref)))

        def call():
            with app.app_context():
                flask.g.period = period
                return tuple(fn(None, 'vod', rep, None, env['seg_num'], env['seg_time']))
        return {'env': env, 'call': call}
    # ---- period tiling
    durs = [int(x) for x in i['pdur']]
    PS = [0]
    for x in durs:
        PS.append(PS[-1] + x)
    mp = NS(name='mps', periods=[NS(duration=datetime.timedelta(microseconds=x), stream=NS(timing_reference=None), index=k)
                                 for k, x in enumerate(durs)])
    mp.total_duration = lambda: datetime.timedelta(microseconds=PS[-1])
    me = NS(now=datetime.datetime(2024, 1, 1, tzinfo=datetime.timezone.utc), options=NS(segmentTimeline=bool(i.get('segmentTimeline', False))),
            periods=[])
    me.create_period = lambda stream, timing, db_period: NS(id=f'p{db_period.index}', start=None, duration=db_period.duration)
    fake_timing = lambda now, ref, options: NS(availabilityStartTime=me.now - datetime.timedelta(microseconds=int(i.get('mE', 0))),
                                               firstAvailableTime=datetime.timedelta(microseconds=int(i.get('mF', 0))),
                                               elapsedTime=datetime.timedelta(microseconds=int(i.get('mE', 0))))
    meth = 'create_all_vod_periods' if qual.endswith('vod_periods') else 'create_all_live_periods'
    fn = extract_method(MCX, 'ManifestContext', meth, {'DashTiming': fake_timing, 'StreamTimingReference': StreamTimingReference,
                                                       'models': NS(MultiPeriodStream=object, Period=object)})
    env = {'np': len(durs), 'pdur': lambda k: durs[k] if 0 <= k < len(durs) else 0, 'PS': lambda k: PS[k] if 0 <= k < len(PS) else 0,
           'periods_valid': len(durs) >= 1 and all(x >= 1 for x in durs), 'mp_total': PS[-1],
           'mF': int(i.get('mF', 0)), 'mE': int(i.get('mE', 0)), 'self': me, 'multi_period': mp,
           'optval': lambda x: x, 'micros': lambda td: td // US}

    def post_env():
        out = []
        for p in me.periods:
            pid, _, loop = p.id.partition('_')
            out.append(NS(start=None if p.start is None else p.start // US,
                          duration=None if p.duration is None else p.duration // US,
                          src=int(pid[1:]), loop=int(loop or 0)))
        return {'self': NS(periods=out)}
    return {'env': env, 'old_env': dict(env), 'call': lambda: fn(me, mp), 'post_env': post_env}


def finding_mps_number_before_start(i):
    """C12/C16: a multi-period media request for a number below startNumber is not refused: the computed segment
    index is <= 0 (the init segment, or a negative index) and is handed on to the fragment loader."""
    case = build('x:ServeMpsMedia.calculate_media_segment_index', 'number', i)
    try:
        mod_seg, origin, num = case['call']()
    except ValueError as err:
        return False, f'refused: {err}'
    n = case['env']['n']
    return not (1 <= mod_seg <= n), f'number {num}: segment index {mod_seg} returned (stored media segments are 1..{n})'


def finding_mps_time_request_asserts(i):
    """C12/C16: a multi-period media request addressed by $Time$ (route mps-media-seg-by-time) always fails:
    ServeMpsMedia.calculate_media_segment_index hands back seg_num (None for a time request) as the segment number and
    generate_media_segment asserts it is not None."""
    case = build('x:MediaRequestBase.generate_media_segment', 'mps-time-audio', i)
    try:
        r = case['call']()
    except AssertionError as err:
        return True, f'seg_time={i["seg_time"]}: AssertionError in generate_media_segment (unhandled: HTTP 500)'
    return False, f'served with status {r.status}'
