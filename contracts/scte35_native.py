"""Native builders for the `scte35` group: real objects, real BitsFieldWriter / BitsFieldReader."""
import io
from types import SimpleNamespace as NS

import bitstring

from dashlive.scte35 import descriptors
from dashlive.scte35.break_duration import BreakDuration
from dashlive.scte35.splice_insert import SpliceInsert
from dashlive.scte35.splice_time import SpliceTime
from dashlive.utils.fio import BitsFieldReader, BitsFieldWriter


def reader_for(w):
    data = w.toBytes() if w.bitpos() % 8 == 0 else (w.bits + bitstring.Bits(uint=0, length=8 - w.bitpos() % 8)).bytes
    r = BitsFieldReader('replay', io.BytesIO(data), {}, size=len(data))
    return r, 8 * len(data)


def build(key, variant, i):
    qual = key.split(':')[1]
    b = lambda k: bool(i.get(k))
    g = lambda k: int(i.get(k, 0))
    env = {'is_unset': lambda x: x is None, 'optval': lambda x: x,
           'same_opt': lambda got, x: got == x,
           'consumed': lambda st: st['reader'].bitpos() == st['written'], 'nbits': lambda st: st['written']}
    st = {}
    env['__bits__'] = st
    if qual == 'SpliceTime.encode':
        obj = SpliceTime(pts=None if variant == 'unspecified' else g('pts'))
        parse = lambda r: SpliceTime.parse(r)
    elif qual == 'BreakDuration.encode':
        obj = BreakDuration(auto_return=b('auto_return'), duration=g('duration'))
        parse = lambda r: BreakDuration.parse(r)
    elif qual == 'SpliceInsert.encode':
        kw = dict(splice_event_id=g('splice_event_id'), splice_event_cancel_indicator=b('cancel'),
                  out_of_network_indicator=b('out_of_network'), splice_immediate_flag=b('immediate'),
                  splice_time={'pts': g('pts')}, unique_program_id=g('unique_program_id'), avail_num=g('avail_num'),
                  avails_expected=g('avails_expected'))
        if variant == 'break':
            kw['break_duration'] = {'auto_return': b('auto_return'), 'duration': g('duration')}
        else:
            kw['break_duration'] = None
        obj = SpliceInsert(**kw)
        parse = lambda r: SpliceInsert.parse(r)
    elif qual == 'SegmentationDescriptor.encode_fields':
        kw = dict(segmentation_event_id=g('segmentation_event_id'), segmentation_event_cancel_indicator=b('cancel'),
                  program_segmentation_flag=not variant.startswith('no-program'),
                  delivery_not_restricted_flag=b('delivery_not_restricted'), web_delivery_allowed_flag=b('web_delivery_allowed'),
                  no_regional_blackout_flag=b('no_regional_blackout'), archive_allowed_flag=b('archive_allowed'),
                  device_restrictions=g('device_restrictions'),
                  segmentation_duration=None if b('duration_none') else g('segmentation_duration'),
                  segmentation_type=g('segmentation_type'), segment_num=g('segment_num'), segments_expected=g('segments_expected'),
                  sub_segment_num=g('sub_segment_num'), sub_segments_expected=g('sub_segments_expected'))
        if variant.startswith('no-program'):
            kw['components'] = []
        obj = descriptors.SegmentationDescriptor(**kw)
        parse = None
    elif qual == 'MpegSectionTable.encode':
        from dashlive.scte35.binarysignal import BinarySignal
        from dashlive.utils.buffered_reader import BufferedReader
        seg = descriptors.SegmentationDescriptor(
            segmentation_event_id=g('segmentation_event_id'), delivery_not_restricted_flag=b('delivery_not_restricted'),
            web_delivery_allowed_flag=b('web_delivery_allowed'), no_regional_blackout_flag=b('no_regional_blackout'),
            archive_allowed_flag=b('archive_allowed'), device_restrictions=g('device_restrictions'),
            segmentation_duration=None if b('duration_none') else g('segmentation_duration'),
            segmentation_type=g('segmentation_type'), segment_num=g('segment_num'), segments_expected=g('segments_expected'),
            sub_segment_num=g('sub_segment_num'), sub_segments_expected=g('sub_segments_expected'))
        sig = BinarySignal(
            sap_type=g('sap_type'), protocol_version=g('protocol_version'), encryption_algorithm=g('encryption_algorithm'),
            pts_adjustment=g('pts_adjustment'), cw_index=g('cw_index'), tier=g('tier'),
            splice_insert=SpliceInsert(splice_event_id=g('splice_event_id'), out_of_network_indicator=b('out_of_network'),
                                       splice_immediate_flag=b('immediate'), splice_time={'pts': g('pts')},
                                       break_duration={'auto_return': b('auto_return'), 'duration': g('duration')},
                                       unique_program_id=g('unique_program_id'), avail_num=g('avail_num'),
                                       avails_expected=g('avails_expected')),
            descriptors=[seg])
        env['self'] = sig
        import copy
        old = dict(env, self=copy.deepcopy(sig))

        def call_signal():
            data = sig.encode()
            st['written'] = 8 * len(data)
            src = BufferedReader(None, data=data)
            rv = BinarySignal.parse(src, size=len(data))
            st['reader'] = NS(bitpos=lambda: 8 * src.tell())
            return rv
        return {'env': env, 'old_env': old, 'call': call_signal}
    elif qual == 'TimeDescriptor.encode_fields':
        obj = descriptors.TimeDescriptor(TAI_seconds=g('TAI_seconds'), TAI_ns=g('TAI_ns'), UTC_offset=g('UTC_offset'))
        parse = None
    else:
        raise KeyError(qual)
    env['self'] = obj
    import copy
    old = dict(env, self=copy.deepcopy(obj))

    def call():
        w = BitsFieldWriter(obj)
        if parse is not None:
            obj.encode(w)
        else:
            obj.encode_fields(w)
        st['written'] = w.bitpos()
        r, _ = reader_for(w)
        st['reader'] = r
        if parse is not None:
            return parse(r)
        kwargs = {}
        rr = r.duplicate('replay', kwargs)
        st['reader'] = rr
        type(obj).parse_fields(rr, kwargs)
        env['__kwargs__'] = kwargs
        return kwargs
    return {'env': env, 'old_env': old, 'call': call, 'post_env': lambda: {'__kwargs__': env.get('__kwargs__', {})}}
