"""Native builders for the `playready` group (needs the sqlalchemy_jsonfield test double on sys.path)."""
from types import SimpleNamespace as NS

from dashlive.drm.playready import PlayReady


def b(i, name):
    return bytes(int(x) & 0xFF for x in i[name])


def le(x):
    x = bytes(x)
    return bytes([x[3], x[2], x[1], x[0], x[5], x[4], x[7], x[6]]) + x[8:16]


def keyseed_spec(key_id, seed):
    try:
        from Cryptodome.Hash import SHA256
    except ImportError:
        from Crypto.Hash import SHA256
    S, K = bytes(seed)[:30], le(key_id)
    A = SHA256.new(S + K).digest()
    B = SHA256.new(S + K + S).digest()
    C = SHA256.new(S + K + S + K).digest()
    return bytes(A[i] ^ A[i + 16] ^ B[i] ^ B[i + 16] ^ C[i] ^ C[i + 16] for i in range(16))


def checksum_spec(kid, key):
    try:
        from Cryptodome.Cipher import AES
    except ImportError:
        from Crypto.Cipher import AES
    return AES.new(bytes(key), AES.MODE_ECB).encrypt(le(kid))[:8]


def guid_le(x):
    if isinstance(x, str):
        import uuid
        return str(uuid.UUID(bytes=le(uuid.UUID(x).bytes)))
    return le(x)


def build(key, variant, i):
    qual = key.split(':')[1]
    env = {'bytes_eq': lambda a, c: (a.lower() == c.lower()) if isinstance(a, str) else bytes(a) == bytes(c),
           'guid_le': guid_le, 'keyseed_spec': keyseed_spec, 'checksum_spec': checksum_spec}
    if qual == 'PlayReady.hex_to_le_guid':
        if variant == 'text':
            import uuid
            g = str(uuid.UUID(bytes=b(i, 'g')))
            env.update(guid=g, raw=False)
            return {'env': env, 'old_env': dict(env), 'call': lambda: PlayReady.hex_to_le_guid(g, raw=False)}
        g = b(i, 'g')
        env.update(guid=g, raw=True)
        return {'env': env, 'old_env': dict(env), 'call': lambda: PlayReady.hex_to_le_guid(g, raw=True)}
    if qual == 'PlayReady.generate_content_key':
        k, s = b(i, 'k'), b(i, 's')
        env.update(keyId=k, keySeed=s)
        return {'env': env, 'old_env': dict(env), 'call': lambda: bytes(PlayReady.generate_content_key(k, s))}
    if qual == 'PlayReady.generate_checksum':
        kp = NS(KID=NS(raw=b(i, 'k')), KEY=NS(raw=b(i, 'y')))
        env.update(self=None, keypair=kp)
        return {'env': env, 'call': lambda: PlayReady().generate_checksum(kp)}
    if qual == 'PlayReady.generate_wrmheader':
        import re as _re
        import dashlive.drm.playready as prmod
        m = _re.match(r'(\d)keys-default(\d)-v([\d.]+)', variant)
        nkeys, default, version = int(m.group(1)), int(m.group(2)), float(m.group(3))
        keys = {f'kid{k}': NS(KID=NS(raw=b(i, f'k{k}_'), hex=b(i, f'k{k}_').hex()), KEY=NS(raw=b(i, f'y{k}_')), ALG='AESCTR',
                              computed=(k % 2 == 0)) for k in range(nkeys)}
        captured = {}

        def fake_render(template, **context):
            captured.update(template=template, context=context)
            return '<WRMHEADER></WRMHEADER>'
        env['__keys__'] = keys

        def call():
            saved = prmod.render_template
            prmod.render_template = fake_render
            try:
                PlayReady(header_version=version).generate_wrmheader(None, f'KID{default}', keys, None)
            finally:
                prmod.render_template = saved
            return NS(template=captured.get('template'), context=captured.get('context'))
        return {'env': env, 'old_env': dict(env), 'call': call}
    if qual == 'PlayReady.generate_pro':
        import io
        import struct
        n = int(i['wrm_len'])
        if n % 2 or n < 14 or n > 60000:
            raise ValueError('no UTF-16 XML document of that length')
        text = '<A>' + 'x' * ((n - 14) // 2) + '</A>'
        wrm = text.encode('utf-16-le')
        state = {}

        def call():
            pr = PlayReady()
            pr.generate_wrmheader = lambda *a: wrm
            pro = pr.generate_pro(None, 'kid', {}, None)
            state['length'], state['count'] = struct.unpack('<IH', pro[:6])
            return PlayReady.parse_pro(io.BytesIO(pro))
        env.update(wrm_len=n, is_wrm_text=lambda t: t == text, is_wrm_xml=lambda x: x is not None and x.getroot().tag == 'A')
        return {'env': env, 'old_env': dict(env), 'call': call,
                'post_env': lambda: {'pro_length': state.get('length'), 'pro_count': state.get('count')}}
    raise KeyError(qual)


def search(key, variant, i):
    """Refutation aid for the PRO framing: the real generate_pro -> parse_pro round trip on small WRMHEADERs."""
    if not key.endswith('PlayReady.generate_pro'):
        return None
    import io
    import struct
    for n in (14, 40, 1000):
        text = '<A>' + 'x' * ((n - 14) // 2) + '</A>'
        wrm = text.encode('utf-16-le')
        pr = PlayReady()
        pr.generate_wrmheader = lambda *a: wrm
        try:
            pro = pr.generate_pro(None, 'kid', {}, None)
            length, count = struct.unpack('<IH', pro[:6])
            recs = PlayReady.parse_pro(io.BytesIO(pro))
            got = {'length': length, 'count': count, 'records': [(r.record_type, r.length, r.header) for r in recs]}
        except Exception as err:        # noqa: the failure is the observation
            got = {'raised': repr(err)}
        want = {'length': n + 10, 'count': 1, 'records': [(1, n, text)]}
        if got != want:
            return {'wrm_len': n, 'observed': str(got)[:300], 'expected': str(want)[:300]}
    return None
