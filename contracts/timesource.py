"""C16: an unknown UTC timing method is refused where the option is parsed (ValueError -> the handlers' 400), and every method
the parser lets through is one TimeSourceContext knows - so building the manifest context cannot raise "Unknown time method"
after the handler's try block."""
import ast
import os
import z3
from pyvc.vals import *          # noqa: F401,F403
from pyvc.contract import Contract, Loop, Lemma, Group

OPT = 'dashlive/server/options/utc_time_options.py'
TSC = 'dashlive/server/requesthandler/time_source_context.py'
METHODS = ('direct', 'head', 'http-ntp', 'iso', 'ntp', 'sntp', 'xsd')
SCHEMES = {'direct': 'urn:mpeg:dash:utc:direct:2014', 'head': 'urn:mpeg:dash:utc:http-head:2014',
           'http-ntp': 'urn:mpeg:dash:utc:http-ntp:2014', 'iso': 'urn:mpeg:dash:utc:http-iso:2014',
           'ntp': 'urn:mpeg:dash:utc:ntp:2014', 'sntp': 'urn:mpeg:dash:utc:sntp:2014', 'xsd': 'urn:mpeg:dash:utc:http-xsdate:2014'}
REFUSED = ('foo', 'NTP', 'direct ', 'http', '0')


def parser(value):
    if value in METHODS:
        ens, raises = [('accepted_as_is', f'result == {value!r}')], {}
    elif value.lower() in ('', 'none'):
        ens, raises = [('no_method', 'is_none(result)')], {}
    else:
        ens, raises = [], {'ValueError': 'True'}
    return Contract(
        key=f'{OPT}:_utc_method_from_string', variant=repr(value), props=['C16'],
        env=lambda w: {'value': value},
        models={'DashOption.string_or_none': lambda eng, e, a, kw: None if a[0].lower() in ('', 'none') else a[0]},
        ensures=ens, raises=raises,
        canaries=["result == 'never'"] if not raises else [],
        witness_terms=lambda w: (lambda ev: {}),
    )


def context(method):
    def env(w):
        opts = Obj('OptionsContainer', {'utcMethod': method, 'ntpSources': PyList([])})
        return {'self': Obj('TimeSourceContext', {}), 'options': opts, 'cgi_params': Obj('CgiParameterCollection', {'time': Opaque('time-params')}),
                'now': DT(z3.Int('now_us'))}
    known = method in METHODS
    return Contract(
        key=f'{TSC}:TimeSourceContext.__init__', variant=repr(method), props=['C16'], env=env,
        models={'to_iso_datetime': lambda eng, e, a, kw: Opaque('iso'), 'urllib.parse.urljoin': lambda eng, e, a, kw: Opaque('url'),
                'attr:flask.request.host_url': lambda eng: Opaque('host'), 'flask.url_for': lambda eng, e, a, kw: Opaque('path'),
                'dict_to_cgi_params': lambda eng, e, a, kw: '',
                'attr:TimeSourceContext.DEFAULT_NTP_POOL': lambda eng: 'google',
                "' '.join": lambda eng, e, a, kw: Opaque('servers')},
        ensures=[('scheme', f'self.schemeIdUri == {SCHEMES[method]!r} and self.method == {method!r}')] if known else [],
        raises={} if known else {'ValueError': 'True'},
        canaries=["self.method == 'never'"] if known else [],
        witness_terms=lambda w: (lambda ev: {'now_us': ev(z3.Int('now_us'))}),
    )


def parser_methods(repo):
    """the tuple UTC_METHODS of the checked tree"""
    tree = ast.parse(open(os.path.join(repo, OPT)).read())
    for st in tree.body:
        tgt = st.target if isinstance(st, ast.AnnAssign) else (st.targets[0] if isinstance(st, ast.Assign) else None)
        if isinstance(tgt, ast.Name) and tgt.id == 'UTC_METHODS':
            return tuple(ast.literal_eval(st.value))
    return None


def lemma_same_names(w):
    """the names the parser accepts (read from the checked tree) are exactly the ones whose TimeSourceContext contract is
    proved not to raise; the option itself is parsed by _utc_method_from_string"""
    repo = w.get('__repo__', '/repo')
    src = open(os.path.join(repo, OPT)).read()
    uses_parser = 'from_string=_utc_method_from_string' in src.replace(' ', '')
    return [], z3.BoolVal(parser_methods(repo) is not None and set(parser_methods(repo)) == set(METHODS) and uses_parser)


GROUP = Group(
    name='timesource', world=lambda: {'__bases__': {}, 'now_us': z3.Int('now_us'),
                                     'NTP_POOLS': {'google': PyList(['time1.google.com']), 'europe-ntp': PyList(['0.europe.pool.ntp.org'])}},
    contracts=[parser(v) for v in METHODS + ('', 'none', 'None') + REFUSED] + [context(m) for m in METHODS] + [context('foo')],
    lemmas=[Lemma('parser_accepts_exactly_the_methods_the_context_knows', ['C16'], lemma_same_names)],
    assumptions=['C16: the option table calls the option\'s from_string for the `time` query parameter (OptionsRepository, not under '
                 'contract); string comparison and set membership of concrete method names are executed by the interpreter itself: the '
                 'proof is per listed name (all accepted ones, five refused ones), the lemma pins the accepted set to the source'],
    not_covered=['stream defaults stored in the database (they do not pass through from_string)'],
)
