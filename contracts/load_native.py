"""Native builder for the `load` group: the real Representation.load run on a synthetic atom list (stand-in atom
objects with exactly the attributes load reads; process_moov - abstract in the contract - is replaced by a stub that
sets the timescale)."""
from types import SimpleNamespace as NS

from dashlive.mpeg.dash.representation import Representation

NAMES = {1: 'ftyp', 2: 'moof', 3: 'sidx', 4: 'moov', 5: 'mdat', 6: 'free'}


class Traf:
    def __init__(self, samples, tfdt):
        self.trun = NS(samples=samples)
        if tfdt is not None:
            self.tfdt = NS(base_media_decode_time=tfdt)
        self._has = tfdt is not None

    def find_child(self, name):
        assert name == 'tfdt'
        return self.tfdt if self._has else None


def split(total, n):
    """n sample durations adding up to total (SD(i) is all the contract knows about them)"""
    n = max(1, n)
    base, extra = divmod(total, n)
    return [NS(duration=base + (1 if k < extra else 0)) for k in range(n)]


def make_atoms(i):
    na = int(i['na'])
    atoms = []
    for k in range(na):
        t = NAMES.get(int(i['atype'][k]), 'uuid')
        a = NS(position=int(i['apos'][k]), size=int(i['asize'][k]), atom_type=t)
        if t == 'moof':
            a.mfhd = NS(sequence_number=int(i['seqno'][k]))
            a.traf = Traf(split(int(i['SD'][k]), int(i['nsamples'][k])), int(i['atfdt'][k]) if i['has_tfdt'][k] else None)
        atoms.append(a)
    return atoms


def spec_env(i):
    na = int(i['na'])
    L = lambda key: (lambda k: i[key][k] if 0 <= k < na else 0)
    at = [int(x) for x in i['atype']]
    nm, st, et, cum = [0], [0], [0], [0]
    for k in range(na):
        moof = at[k] == 2
        start = (int(i['atfdt'][k]) if i['has_tfdt'][k] else et[k]) if moof else st[k]
        nm.append(nm[k] + (1 if moof else 0))
        st.append(start if moof else st[k])
        et.append(start + int(i['SD'][k]) if moof else et[k])
        cum.append(cum[k] + (int(i['SD'][k]) if moof else 0))
    pos = [int(x) for x in i['apos']]
    pos.append(pos[-1] + int(i['asize'][-1]) if na else 0)
    fm = next((k for k in range(na) if at[k] == 2), na)
    ok = (na >= 1 and at[0] == 1 and all(
        pos[k] >= 0 and int(i['asize'][k]) >= 8 and pos[k + 1] == pos[k] + int(i['asize'][k])
        and (k == 0 or at[k] in (2, 3, 4, 5, 6))
        and (at[k] != 2 or (int(i['SD'][k]) >= int(i['nsamples'][k]) and int(i['nsamples'][k]) >= 1 and int(i['atfdt'][k]) >= 0))
        for k in range(na)))
    tab = lambda xs: (lambda k: xs[k] if 0 <= k < len(xs) else 0)
    return {
        'na': na, 'fm': fm, 'apos': tab(pos), 'asize': L('asize'), 'atype': L('atype'), 'seqno': L('seqno'),
        'atfdt': L('atfdt'), 'SD': L('SD'), 'nsamples': L('nsamples'),
        'has_tfdt': lambda k: bool(i['has_tfdt'][k]) if 0 <= k < na else False,
        'nmoof': tab(nm), 'st': tab(st), 'et': tab(et), 'cum': tab(cum),
        'is_moof': lambda k: 0 <= k < na and at[k] == 2,
        'layout': ok, 'first_moof_def': int(i.get('fm', fm)) == fm, 'first_time': st[fm + 1] if fm < na else 0,
        'optval': lambda x: x, 'moov_timescale': int(i.get('moov_timescale', 1)),
    }


def build(key, variant, i):
    if 'apos' not in i:
        raise ValueError('witness has no atom table (na out of range)')
    atoms = make_atoms(i)
    env = spec_env(i)
    src_of = {a.position: k for k, a in enumerate(atoms)}
    ts = int(i.get('moov_timescale', 1))

    def call():
        saved = Representation.process_moov
        saved_add = Representation.add_field

        def process_moov(self, moov, key_ids):
            self.timescale = ts
        Representation.process_moov = process_moov
        try:
            return Representation.load('/media/Track_1.mp4', atoms)
        finally:
            Representation.process_moov = saved
            Representation.add_field = saved_add
    return {'env': env, 'old_env': dict(env), 'call': call, '__src_of__': src_of}


def adapt(key, result, env):
    # the contract's ghost field `src` of a segment: the atom the segment was opened by
    starts = {}
    k = 0
    while True:
        p = env['apos'](k)
        if k >= env['na']:
            break
        starts[p] = k
        k += 1
    segs = [NS(pos=seg.pos, size=seg.size, duration=seg.duration, src=starts.get(seg.pos, -1)) for seg in result.segments]
    return NS(segments=segs, start_number=result.start_number, start_time=result.start_time,
              mediaDuration=result.mediaDuration, segment_duration=result.segment_duration, timescale=result.timescale,
              max_bitrate=result.max_bitrate, bitrate=result.bitrate)


def _table(rows):
    """rows: (type code, size, seqno, tfdt or None, SD, nsamples) -> witness dict with consecutive positions"""
    pos, out = 0, {'na': len(rows), 'apos': [], 'asize': [], 'atype': [], 'seqno': [], 'atfdt': [], 'SD': [], 'nsamples': [],
                   'has_tfdt': [], 'moov_timescale': 1000}
    for code, size, seq, tfdt, sd, ns in rows:
        out['apos'].append(pos)
        out['asize'].append(size)
        out['atype'].append(code)
        out['seqno'].append(seq)
        out['atfdt'].append(tfdt or 0)
        out['has_tfdt'].append(tfdt is not None)
        out['SD'].append(sd)
        out['nsamples'].append(ns)
        pos += size
    return out


def finding_single_fragment(i):
    """C06: a file with exactly one movie fragment is indexed with mediaDuration 0 (and no segment_duration): the
    estimate block only runs for more than one fragment and Representation.__init__ has already set sum([]) == 0."""
    sd = int(i['SD'])
    w = _table([(1, 24, 0, None, 0, 0), (4, 600, 0, None, 0, 0), (2, 100, 1, 0, sd, 10), (5, 5000, 0, None, 0, 0)])
    r = build('x:Representation.load', '', w)['call']()
    return r.mediaDuration != sd, f'one fragment of duration {sd}: mediaDuration={r.mediaDuration} segment_duration={r.segment_duration}'


def finding_other_top_level_box(i):
    """C06: a top-level box that is none of ftyp/moov/moof/mdat/sidx/free (styp, emsg, prft ...) belongs to no
    segment: the byte ranges no longer tile the file."""
    other = 0
    w = _table([(1, 24, 0, None, 0, 0), (4, 600, 0, None, 0, 0),
                (other, int(i['box_size']), 0, None, 0, 0), (2, 100, 1, 0, 1000, 10), (5, 5000, 0, None, 0, 0),
                (other, int(i['box_size']), 0, None, 0, 0), (2, 100, 2, 1000, 1000, 10), (5, 5000, 0, None, 0, 0),
                (other, int(i['box_size']), 0, None, 0, 0), (2, 100, 3, 2000, 1000, 10), (5, 5000, 0, None, 0, 0)])
    r = build('x:Representation.load', '', w)['call']()
    holes = [(a.pos + a.size, b.pos) for a, b in zip(r.segments, r.segments[1:]) if a.pos + a.size != b.pos]
    return bool(holes), f'segments {r.segments}: bytes between {holes} are in no segment'


def expected(i):
    """Independent oracle for search(): what the contract's clauses say load must return for table i."""
    e = spec_env(i)
    na, fm = e['na'], e['fm']
    moofs = [k for k in range(na) if e['is_moof'](k)]
    end = e['apos'](na)
    bounds = [e['apos'](0)] + [e['apos'](k) for k in moofs] + [end]
    segs = [(bounds[j], bounds[j + 1] - bounds[j], None if j == 0 else e['SD'](moofs[j - 1])) for j in range(len(bounds) - 1)]
    out = {'segments': segs, 'start_number': e['seqno'](fm) if moofs else 1, 'start_time': e['first_time'] if moofs else 0}
    if len(moofs) >= 2:
        sd = (e['st'](na) - e['first_time']) // (len(moofs) - 1)
        if sd == 0 or e['cum'](na) == 0:
            return 'ZeroDivisionError'
        out.update(mediaDuration=e['cum'](na), segment_duration=sd)
    return out


def search(key, variant, i):
    """Refutation aid: random small atom tables inside the contract's region, real load against the oracle above.
    Deterministic (seeded); returns the first table on which they differ, or None."""
    import random
    rnd = random.Random(6)
    for trial in range(4000):
        rows = [(1, rnd.randint(8, 40), 0, None, 0, 0)]
        t = rnd.choice([0, 0, rnd.randint(1, 10 ** 6)])
        for _ in range(rnd.randint(0, 9)):
            code = rnd.choice([2, 2, 3, 4, 5, 5, 6])
            if code == 2:
                ns = rnd.randint(1, 5)
                sd = rnd.choice([ns, rnd.randint(ns, 5000)])
                tf = rnd.choice([None, t, t, t + rnd.randint(0, 50)])
                rows.append((2, rnd.randint(8, 200), rnd.randint(0, 9), tf, sd, ns))
                t = (tf if tf is not None else t) + sd
            else:
                rows.append((code, rnd.randint(8, 300), 0, None, 0, 0))
        w = _table(rows)
        e = spec_env(w)
        if e['nmoof'](w['na']) >= 2 and e['st'](w['na']) < e['first_time']:
            continue
        want = expected(w)
        try:
            r = build(key, variant, w)['call']()
            got = {'segments': [(s.pos, s.size, s.duration) for s in r.segments], 'start_number': r.start_number, 'start_time': r.start_time}
            if isinstance(want, dict) and 'mediaDuration' in want:
                got.update(mediaDuration=r.mediaDuration, segment_duration=r.segment_duration)
        except ZeroDivisionError:
            got = 'ZeroDivisionError'
        if got != want:
            return {'table': w, 'load_returned': got, 'contract_requires': want}
    return None


def finding_degenerate_media_raises(i):
    """C16: Representation.load raises ZeroDivisionError for degenerate media (segment duration estimate or total duration 0)
    and MediaFile.parse_media_file / IndexMediaFile.get call it without handling the exception: indexing such an upload
    ends in an unhandled error instead of a reported parse error."""
    w = _table([(1, 24, 0, None, 0, 0), (4, 600, 0, None, 0, 0),
                (2, 100, 1, int(i['tfdt']), 1000, 10), (5, 5000, 0, None, 0, 0),
                (2, 100, 2, int(i['tfdt']), 1000, 10), (5, 5000, 0, None, 0, 0)])
    try:
        build('x:Representation.load', '', w)['call']()
    except ZeroDivisionError as err:
        return True, f'two fragments with the same decode time {i["tfdt"]}: ZeroDivisionError({err}) out of Representation.load'
    return False, 'indexed without an exception'
