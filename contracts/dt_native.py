"""Native builders for the `dt` group (dashlive/utils/date_time.py)."""
import datetime
import re
from fractions import Fraction

from dashlive.utils import date_time as D

ISO = re.compile(r'^PT(?:(\d+)H)?(?:(\d+)M)?(\d+)(?:\.(\d+))?S$')


def iso_value(text):
    m = ISO.match(text)
    if not m:
        raise ValueError(f'not a PT..S duration: {text!r}')
    h, mi, s, frac = m.groups()
    v = Fraction(int(s)) + 3600 * int(h or 0) + 60 * int(mi or 0)
    if frac:
        v += Fraction(int(frac), 10 ** len(frac))
    return v


def iso_fields_ok(text):
    m = ISO.match(text)
    if not m:
        return False
    h, mi, s, frac = m.groups()
    return int(s) < 60 and (mi is None or int(mi) < 60) and (frac is None or not frac.endswith('0'))


def td_of(i):
    return datetime.timedelta(microseconds=int(i['delta_us']))


def build(key, variant, i):
    qual = key.split(':')[1]
    env = {'iso_value': iso_value, 'iso_fields_ok': iso_fields_ok, 'zabs': abs, 'delta_norm': True,
           'micros': lambda td: td // datetime.timedelta(microseconds=1)}
    if qual == 'FixedOffsetTimeZone.__init__':
        from dashlive.utils.timezone import FixedOffsetTimeZone
        h, m = int(i.get('tz_h', 0)), int(i.get('tz_m', 0))
        if max(h, m) > 10**6:
            raise ValueError('offset digits too large for a native timedelta')
        text = 'UTC+1' if variant == 'not-an-offset' else f"{'-' if variant == 'west' else '+'}{h:02d}:{m:02d}"
        holder = {}

        class View:
            """the two private fields under the names the source text uses (Python mangles them inside the class)"""
            def __getattr__(self, name):
                return getattr(holder['tz'], '_FixedOffsetTimeZone' + name)

        def call():
            holder['tz'] = FixedOffsetTimeZone(text)
        env.update(tz_h=h, tz_m=m, delta_str=text, self=View(), td_us=lambda td: td // datetime.timedelta(microseconds=1))
        return {'env': env, 'old_env': dict(env), 'call': call}
    if qual == 'toIsoDuration':
        if variant == 'float':
            x = float(Fraction(i['secs'])) if not isinstance(i['secs'], (int, float)) else float(i['secs'])
            env['secs'] = Fraction(x)
            return {'env': env, 'old_env': dict(env), 'call': lambda: D.toIsoDuration(x)}
        td = td_of(i)
        env['secs'] = td
        return {'env': env, 'old_env': dict(env), 'call': lambda: D.toIsoDuration(td)}
    if qual == 'timecode_to_timedelta':
        env.update(timecode=int(i['timecode']), timescale=int(i['timescale']))
        return {'env': env, 'call': lambda: D.timecode_to_timedelta(env['timecode'], env['timescale'])}
    if qual == 'timedelta_to_timecode':
        env.update(delta=td_of(i), timescale=int(i['timescale']))
        return {'env': env, 'call': lambda: D.timedelta_to_timecode(env['delta'], env['timescale'])}
    if qual == 'multiply_timedelta':
        env.update(delta=td_of(i), num=int(i['num']))
        return {'env': env, 'call': lambda: D.multiply_timedelta(env['delta'], env['num'])}
    if qual == 'scale_timedelta':
        env.update(delta=td_of(i), num=int(i['num']), denom=int(i['denom']))
        return {'env': env, 'call': lambda: Fraction(D.scale_timedelta(env['delta'], env['num'], env['denom']))}
    raise KeyError(qual)


def finding_tick_roundtrip(i):
    """timecode -> timedelta -> timecode loses more than one tick when the timescale exceeds 10^6
    (timedelta has microsecond resolution)."""
    tc, ts = int(i['timecode']), int(i['timescale'])
    back = D.timedelta_to_timecode(D.timecode_to_timedelta(tc, ts), ts)
    return abs(back - tc) > 1, f'timecode {tc} @ {ts} Hz -> {D.timecode_to_timedelta(tc, ts)!r} -> {back}'
