"""Native builders for the `events` group."""
from types import SimpleNamespace as NS

from dashlive.server.events.ping_pong import PingPongEvents


def build(key, variant, i):
    qual = key.split(':')[1]
    if qual.endswith('int_or_default'):
        from dashlive.server.events.base import EventBase
        g = lambda k: int(i.get(k, 0))
        has_min, has_max = 'min=True' in variant, 'max=True' in variant
        text = '' if i.get('opt_empty') else str(g('opt_v'))
        env = {'opt_default': g('opt_default'), 'opt_min': g('opt_min'), 'opt_max': g('opt_max'), 'opt_v': g('opt_v'),
               'opt_empty': bool(i.get('opt_empty'))}
        f = EventBase.int_or_default_from_string(g('opt_default'), g('opt_min') if has_min else None, g('opt_max') if has_max else None)
        return {'env': env, 'old_env': dict(env), 'call': lambda: f(text)}
    ev = PingPongEvents(start=int(i.get('start', 0)), interval=int(i.get('interval', 1000)), count=int(i['count']),
                        duration=int(i['duration']), timescale=int(i['ets']), version=int(i.get('version', 0)),
                        inband=bool(i.get('inband', True)))
    if qual == 'RepeatingEventBase.create_emsg_boxes':
        mod = int(i['mod_segment'])
        segs = [NS(duration=int(i['segdur'])) for _ in range(mod + 1)]
        rep = NS(timescale=int(i['rts']), segments=segs)
        moof = NS(traf=NS(tfdt=NS(base_media_decode_time=int(i['tfdt']))))
        a = int(i['tfdt']) * ev.timescale // rep.timescale
        b = (int(i['tfdt']) + int(i['segdur'])) * ev.timescale // rep.timescale

        def sched(k):
            return k >= 0 and (ev.count == 0 or k < ev.count) and a <= ev.start + k * ev.interval < b
        env = {'self': ev, 'moof': moof, 'representation': rep, 'mod_segment': mod, 'segment_num': 1,
               'nseg': mod, 'a': a, 'b': b, 'sched': sched,
               '__unbounded_hi__': max(0, (b - ev.start) // max(1, ev.interval)) + 3}
        return {'env': env, 'call': lambda: ev.create_emsg_boxes(
            segment_num=1, mod_segment=mod, moof=moof, representation=rep)}
    if qual == 'RepeatingEventBase.create_manifest_context':
        env = {'self': ev}
        return {'env': env, 'call': lambda: ev.create_manifest_context({})}
    if qual == 'Scte35Events.create_binary_signal':
        from dashlive.server.events.scte35_events import Scte35Events
        sc = Scte35Events(start=0, interval=1000, count=int(i['count']), duration=int(i['duration']),
                          timescale=int(i['ets']), inband=True, program_id=int(i['program_id']))
        env = {'self': sc, 'event_id': int(i['event_id']), 'presentation_time': int(i['presentation_time'])}
        return {'env': env, 'call': lambda: sc.create_binary_signal(int(i['event_id']), int(i['presentation_time']))}
    raise KeyError(qual)


def adapt(key, result, env):
    if key.endswith('create_manifest_context'):
        return NS(timescale=result.timescale, inband=result.inband,
                  events=[NS(id=e['id'] if isinstance(e, dict) else e.id,
                             presentationTime=e['presentationTime'] if isinstance(e, dict) else e.presentationTime,
                             duration=e['duration'] if isinstance(e, dict) else e.duration) for e in result.events])
    if key.endswith('create_binary_signal'):
        si = result.splice_insert
        return NS(splice_insert=NS(splice_time={'pts': si.splice_time.pts},
                                   break_duration={'duration': si.break_duration.duration,
                                                   'auto_return': bool(si.break_duration.auto_return)},
                                   splice_event_id=si.splice_event_id, unique_program_id=si.unique_program_id,
                                   avail_num=si.avail_num, avails_expected=si.avails_expected),
                  descriptors=[NS(segmentation_type=d.segmentation_type, segmentation_event_id=d.segmentation_event_id)
                               for d in result.descriptors])
    if key.endswith('create_emsg_boxes'):
        out = []
        for box in result:
            v0 = box.version == 0
            out.append(NS(event_id=box.event_id, version=box.version, timescale=box.timescale,
                          event_duration=box.event_duration, is_delta=v0,
                          pt=box.presentation_time_delta if v0 else box.presentation_time))
        return out
    return result


def finding_scte35_field_width(i):
    """C14: a scheduled SCTE-35 event whose values exceed a field width cannot be encoded (ValueError on the segment
    path): avail_num / avails_expected are 8-bit fields (count >= 510), break duration is 33 bits."""
    from dashlive.server.events.scte35_events import Scte35Events
    sc = Scte35Events(start=0, interval=1000, count=int(i['count']), duration=int(i['duration']),
                      timescale=int(i['ets']), inband=True)
    try:
        sig = sc.create_binary_signal(int(i['event_id']), int(i['event_id']) * 1000)
        data = sig.encode()
        return False, f'encoded {len(data)} bytes'
    except Exception as err:
        return True, f'{type(err).__name__}: {str(err)[:160]}'


def finding_interval_nonpositive(i):
    """C16: the event options accept any integer for interval; create_emsg_boxes divides by it / loops on it."""
    import signal

    class _T(BaseException):
        pass

    def on(sig, frm):
        raise _T()
    ev = PingPongEvents(start=0, interval=int(i['interval']), count=0, duration=10, timescale=100, version=0, inband=True)
    rep = NS(timescale=100, segments=[NS(duration=400), NS(duration=400)])
    moof = NS(traf=NS(tfdt=NS(base_media_decode_time=int(i['tfdt']))))
    signal.signal(signal.SIGALRM, on)
    signal.alarm(3)
    try:
        ev.create_emsg_boxes(segment_num=1, mod_segment=1, moof=moof, representation=rep)
        return False, 'returned normally'
    except _T:
        return True, f'interval={i["interval"]}: no result within 3 s (runs without bound)'
    except (ZeroDivisionError, AssertionError) as err:
        return True, f'interval={i["interval"]}: {type(err).__name__} (unhandled on the segment path -> 5xx)'
    finally:
        signal.alarm(0)
