"""Contracts for dashlive/utils/buffered_reader.py (C20).

View: the reader is the window F[offset : offset+size] of a file F of length Len (explicit size,
as in the property statement).  wf(self) is the representation invariant; every public method
requires and ensures it, so any finite operation sequence preserves it (induction over the
sequence needs no bound).  Data results are stated against the view, never against the cache.
"""
import z3
from pyvc.vals import *          # noqa: F401,F403
from pyvc.contract import Contract, Loop, Lemma, Group
from pyvc.models.bufreader import FileModel, BufMap, BytesIOModel

BR = 'dashlive/utils/buffered_reader.py'


def zmin(a, b):
    return z3.If(a <= b, a, b)


def world():
    w = {'Len': z3.Int('Len'), 'fpos': z3.Int('fpos')}
    Len = w['Len']

    def wf(o):
        f, m = o.f, o.f['buffers']
        bs, off, size, pos = zint(f['buffersize']), zint(f['offset']), zint(f['size']), zint(f['pos'])
        b = z3.Int('b!wf')
        lo, hi = z3.Select(m.arr['lo'], b), z3.Select(m.arr['hi'], b)
        per = z3.ForAll([b], z3.Implies(z3.Select(m.dom, b), z3.And(
            b >= 0, z3.Select(m.arr['pos'], b) == b, lo == zmin(off + b, Len), hi == zmin(off + b + bs, Len),
            z3.Select(m.arr['size'], b) == hi - lo)))
        return z3.And(bs >= 1, off >= 0, pos >= 0, zint(f['max_buffers']) >= 1, size >= 0, pos <= size,
                      off + size <= Len, per, zint(f['num_buffers']) == m.card, m.card >= 0,
                      m.card <= zint(f['max_buffers']), zint(f['reader'].fpos) >= 0)

    def is_bytes(x):
        return (isinstance(x, Slice) and x.kind == 'bytes') or isinstance(x, bytes)

    def blen(x):
        if isinstance(x, Slice):
            return zint(x.hi) - zint(x.lo)
        if isinstance(x, (str, bytes)):
            return len(x)
        raise Unsupported(f'blen of {x!r}')

    def data_is(x, lo, hi):
        """x is a bytes object equal to F[lo:hi] (lo <= hi <= Len)."""
        if not is_bytes(x):
            return z3.BoolVal(False)
        lo, hi = zint(lo), zint(hi)
        if isinstance(x, bytes):        # a literal: only the empty one can be a slice of an arbitrary file
            return z3.BoolVal(False) if x else hi == lo
        return z3.And(blen(x) == hi - lo, z3.Implies(hi > lo, zint(x.lo) == lo), zint(x.hi) <= Len)

    def data_prefix(x, lo, k):
        """x is a bytes object with at least k bytes whose first k bytes are F[lo:lo+k]."""
        if not is_bytes(x):
            return z3.BoolVal(False)
        lo, k = zint(lo), zint(k)
        if isinstance(x, bytes):
            return z3.BoolVal(False) if x else k <= 0
        return z3.And(blen(x) >= k, z3.Implies(k > 0, zint(x.lo) == lo), zint(x.hi) <= Len)

    w.update(wf=wf, is_bytes=is_bytes, blen=blen, data_is=data_is, data_prefix=data_prefix,
             card=lambda m: m.card, val=lambda x: x.val if isinstance(x, Opt) else x,
             acc_lo=lambda b: zint(b.lo), acc_hi=lambda b: zint(b.hi), acc_len=lambda b: zint(b.hi) - zint(b.lo),
             zmin=lambda a, b: zmin(zint(a), zint(b)), zmax=lambda a, b: z3.If(zint(a) >= zint(b), zint(a), zint(b)))
    w['__inline_ctors__'] = ('Buffer',)
    w['__bases__'] = {}
    return w


def reader_obj(w):
    return Obj('BufferedReader', {
        'reader': FileModel(w['Len'], z3.Int('fpos')), 'buffers': BufMap('buffers', entry=True),
        'buffersize': z3.Int('buffersize'), 'pos': z3.Int('pos'), 'offset': z3.Int('offset'),
        'size': z3.Int('size'), 'max_buffers': z3.Int('max_buffers'), 'num_buffers': z3.Int('num_buffers')})


def witness(extra=()):
    def mk(w):
        def wt(ev):
            out = {k: ev(z3.Int(k)) for k in ('Len', 'buffersize', 'pos', 'offset', 'size', 'max_buffers', 'fpos') + tuple(extra)}
            dom = z3.Const('buffers.dom', z3.ArraySort(INT, BOOL))
            cand = set(range(0, 65))
            bs = out['buffersize'] if isinstance(out['buffersize'], int) else 1
            for base in (out.get('bucket'), out.get('pos')):
                if isinstance(base, int):
                    cand |= {base + j * bs for j in range(-8, 9)} | {base + j for j in range(-4, 5)}
            out['cached'] = sorted(k for k in cand if k >= 0 and ev(z3.Select(dom, z3.IntVal(k))) is True)
            out['card'] = ev(z3.Int('buffers.card'))
            return out
        return wt
    return mk


MOD_CACHE = ['self.buffers', 'self.num_buffers', 'self.reader']

CACHE = Contract(
    key=f'{BR}:BufferedReader.cache', props=['C20', 'C16'],
    env=lambda w: {'self': reader_obj(w), 'bucket': z3.Int('bucket')},
    requires=[('wf', 'wf(self)'), ('bucket_nonneg', 'bucket >= 0')],
    modifies=MOD_CACHE,
    loops={0: Loop(
        invariant=[('visited', '0 <= _it0 and _it0 <= card(self.buffers)'),
                   ('found', '(_it0 == 0) == is_none(remove)'),
                   ('found_in', 'True if is_none(remove) else val(remove) in self.buffers'),
                   ('oldest', 'is_none(oldest) == is_none(remove)')],
        types={'remove': 'opt_int', 'oldest': 'opt_real'},
        variant=['_hi0 - _it0'])},
    ensures=[('wf', 'wf(self)'), ('cached', 'bucket in self.buffers')],
    canaries=['card(self.buffers) == old(card(self.buffers))'],
    witness_terms=witness(('bucket',)),
)

PEEK = Contract(
    key=f'{BR}:BufferedReader.peek', props=['C20', 'C16'],
    env=lambda w: {'self': reader_obj(w), 'size': z3.Int('n')},
    requires=[('wf', 'wf(self)'), ('n_pos', 'size > 0')],
    modifies=MOD_CACHE,
    loops={0: Loop(
        # nxt = window position of the next byte still needed; the loop appends the whole rest of each bucket
        invariant=[('wf', 'wf(self)'),
                   ('todo', '0 <= todo and todo <= size and size <= self.size - self.pos'),
                   ('next', 'self.pos + (size - todo) == bucket + offset if todo > 0 else True'),
                   ('local', '0 <= offset and offset < self.buffersize and bucket >= 0'),
                   ('acc_len', 'acc_len(buf) >= size - todo'),
                   ('acc_exact', 'acc_len(buf) == size - todo if todo > 0 else True'),
                   ('acc_start', 'acc_lo(buf) == self.offset + self.pos if acc_len(buf) > 0 else True'),
                   ('acc_in_file', 'acc_hi(buf) <= Len')],
        variant=['todo'])},
    ensures=[('wf', 'wf(self)'),
             ('bytes', 'is_bytes(result)'),
             ('data', 'data_prefix(result, self.offset + self.pos, zmax(0, zmin(old(size), self.size - self.pos)))')],
    result=lambda eng, frame: (lambda lo, hi: (eng.assume(lo <= hi), Slice(lo, hi, 'bytes'))[1])(fresh('peek.lo'), fresh('peek.hi')),
    canaries=['blen(result) == 0'],
    witness_terms=witness(('n',)),
)

READALL = Contract(
    key=f'{BR}:BufferedReader.readall', props=['C20', 'C16'],
    env=lambda w: {'self': reader_obj(w)},
    requires=[('wf', 'wf(self)')],
    modifies=MOD_CACHE + ['self.pos'],
    ensures=[('wf', 'wf(self)'),
             ('data', 'data_is(result, self.offset + old(self.pos), self.offset + self.size)'),
             ('pos', 'self.pos == self.size')],
    result=lambda eng, frame: (lambda lo, hi: (eng.assume(lo <= hi), Slice(lo, hi, 'bytes'))[1])(fresh('readall.lo'), fresh('readall.hi')),
    canaries=['blen(result) == 0'],
    witness_terms=witness(),
)

READ = Contract(
    key=f'{BR}:BufferedReader.read', props=['C20', 'C16'],
    env=lambda w: {'self': reader_obj(w), 'n': z3.Int('n')},
    requires=[('wf', 'wf(self)'), ('n_ge_m1', 'n >= -1')],
    modifies=MOD_CACHE + ['self.pos'],
    ensures=[('wf', 'wf(self)'),
             ('data', 'data_is(result, self.offset + old(self.pos), self.offset + self.size) if old(n) == -1 else '
                      'data_is(result, self.offset + old(self.pos), '
                      'self.offset + old(self.pos) + zmax(0, zmin(old(n), self.size - old(self.pos))))'),
             ('pos', 'self.pos == self.size if old(n) == -1 else '
                     'self.pos == old(self.pos) + zmax(0, zmin(old(n), self.size - old(self.pos)))')],
    canaries=['blen(result) == 0'],
    witness_terms=witness(('n',)),
)

SEEK = Contract(
    key=f'{BR}:BufferedReader.seek', props=['C20', 'C16'],
    env=lambda w: {'self': reader_obj(w), 'offset': z3.Int('target'), 'whence': z3.Int('whence')},
    requires=[('wf', 'wf(self)'), ('whence', '0 <= whence and whence <= 2')],
    modifies=['self.pos', 'self.reader'],
    ensures=[('wf', 'wf(self)'), ('returns_pos', 'result == self.pos'),
             ('clamped', 'self.pos == zmax(0, zmin(self.size, old(offset) if whence == 0 else '
                         '(old(self.pos) + old(offset) if whence == 1 else self.size + old(offset))))')],
    canaries=['result == 0'],
    witness_terms=witness(('target', 'whence')),
)

TELL = Contract(
    key=f'{BR}:BufferedReader.tell', props=['C20', 'C16'],
    env=lambda w: {'self': reader_obj(w)},
    requires=[('wf', 'wf(self)')],
    ensures=[('wf', 'wf(self)'), ('is_pos', 'result == self.pos')],
    canaries=['result == 0'],
    witness_terms=witness(),
)

def set_buffers(eng, obj, val):
    if isinstance(val, dict) and not val:
        obj.f['buffers'] = BufMap.empty()
    else:
        raise Unsupported('self.buffers assigned something other than {}')


INIT = Contract(
    key=f'{BR}:BufferedReader.__init__', props=['C20', 'C16'],
    env=lambda w: {'self': Obj('BufferedReader', {}), 'reader': FileModel(w['Len'], z3.Int('fpos')),
                   'buffersize': z3.Int('buffersize'), 'data': None, 'offset': z3.Int('offset'),
                   'size': z3.Int('size'), 'max_buffers': z3.Int('max_buffers')},
    # what the two call sites (load_fragment, modify_media_file) must establish: the window lies inside the file
    requires=[('window', 'buffersize >= 1 and offset >= 0 and size >= 0 and offset + size <= Len and max_buffers >= 1'),
              ('fpos', 'fpos >= 0')],
    models={'super().__init__': lambda eng, e, args, kw: None, 'setattr:BufferedReader.buffers': set_buffers},
    modifies=['self.reader', 'self.buffers', 'self.buffersize', 'self.pos', 'self.offset', 'self.size',
              'self.max_buffers', 'self.num_buffers'],
    ensures=[('wf', 'wf(self)'), ('at_start', 'self.pos == 0 and self.offset == offset and self.size == size '
                                               'and self.buffersize == buffersize and self.max_buffers == max_buffers'),
             ('empty_cache', 'card(self.buffers) == 0')],
    canaries=['self.size == 0'],
    witness_terms=witness(),
)

GROUP = Group(
    name='bufreader', world=world,
    contracts=[INIT, CACHE, PEEK, READALL, READ, SEEK, TELL],
    assumptions=[
        'C20: the reader is opened with an explicit size (as in the property statement); the lazily sized '
        'reader (size=None) is outside the contracts',
        'C20: the underlying raw reader behaves like a file of fixed length Len (FileModel: seek/tell/read)',
        'C20: io.BytesIO is only written sequentially (BytesIOModel; a non-contiguous write is an obligation failure)',
        'C20: time.time() is an arbitrary real; eviction order therefore arbitrary - results do not depend on it',
    ],
    trusted=['pyvc/models/bufreader.py: FileModel, BytesIOModel, BufMap (dict with ghost cardinality), memoryview = identity on slices'],
    not_covered=['load_fragment / modify_media_file call sites (they must establish the constructor precondition '
                 'offset+size <= Len; frag.pos/frag.size come from Representation.load, which is not under contract)',
                 'BufferedReader with data=... (in-memory) and with size=None',
                 'readable/seekable/close of io.RawIOBase'],
)
