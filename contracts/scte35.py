"""Contracts for dashlive/scte35 (C14): encode then parse is the identity, and every written value fits its bit
width, for the structures an SCTE-35 event signal is made of: SpliceTime, BreakDuration, SpliceInsert (program
splice) and the segmentation / time / avail descriptor bodies."""
import z3
from pyvc.vals import *          # noqa: F401,F403
from pyvc.contract import Contract, Loop, Lemma, Group
from pyvc.models.bittrace import BitTrace, BitsWriter, BitsReader, ctor_writer, ctor_reader

D = 'dashlive/scte35'


def world():
    w = {'__bases__': {'SegmentationDescriptor': ['SpliceDescriptor'], 'TimeDescriptor': ['SpliceDescriptor'],
                       'AvailDescriptor': ['SpliceDescriptor'], 'BinarySignal': ['MpegSectionTable']},
         '__ctors__': {'BitsFieldWriter': ctor_writer, 'BitsFieldReader': ctor_reader}}
    w['consumed'] = lambda t: z3.BoolVal(t.cursor == len(t.fields) and t.partial == 0)
    w['nbits'] = lambda t: t.total()
    w['is_unset'] = lambda x: z3.BoolVal(x is None)
    w['optval'] = lambda x: x.val if isinstance(x, Opt) else x
    w['same_opt'] = lambda got, x: (z3.BoolVal(got is None) if not isinstance(got, Opt) else got.isnone) if x is None else \
        (z3.And(x.isnone == (z3.BoolVal(got is None)), z3.Or(x.isnone, zint(got if got is not None else 0) == zint(x.val)))
         if isinstance(x, Opt) else (z3.BoolVal(False) if got is None else zint(got) == zint(x)))
    return w


def seq(cls_file, cls, how_parse='parse', writer_arg='dest'):
    """sequel: after <cls>.encode(self, dest=writer) run <cls>.parse(src=reader over the same bits)"""
    def env2(eng, env_after, value):
        wtr = env_after[writer_arg]
        bits = wtr.bits
        bits.cursor, bits.partial = 0, 0
        kwargs = {}
        out = {'cls': Opaque('class:' + cls), 'self': env_after['self'], writer_arg: wtr, '__bits__': bits}
        if how_parse == 'parse':
            out['src'] = BitsReader(bits, {})
        else:
            out.update({'r': BitsReader(bits, kwargs), 'bit_reader': BitsReader(bits, kwargs), 'kwargs': kwargs,
                        'rv': kwargs, '__kwargs__': kwargs})
        return out
    return {'file': cls_file, 'qual': f'{cls}.{how_parse}', 'env': env2}


def writer_env(obj_builder):
    def env(w):
        o = obj_builder(w)
        return {'self': o, 'dest': BitsWriter(None, BitTrace())}
    return env


# ----------------------------------------------------------------------------- SpliceTime
def st_obj(kind):
    return lambda w: Obj('SpliceTime', {'pts': None if kind == 'unspecified' else z3.Int('pts')})


def splice_time(kind):
    return Contract(
        key=f'{D}/splice_time.py:SpliceTime.encode', variant=kind, props=['C14'],
        env=writer_env(st_obj(kind)),
        requires=[] if kind == 'unspecified' else [('pts_33bit', '0 <= self.pts and self.pts < 8589934592')],
        sequel=seq(f'{D}/splice_time.py', 'SpliceTime'),
        ensures=[('roundtrip', "is_unset(result['pts'])" if kind == 'unspecified' else "result['pts'] == old(self.pts)"),
                 ('consumed', 'consumed(__bits__)'),
                 ('encoded_bits', f"nbits(__bits__) == {1 if kind == 'unspecified' else 40}")],
        witness_terms=lambda w: (lambda ev: {'pts': ev(z3.Int('pts')), 'kind': kind}),
    )


# ----------------------------------------------------------------------------- BreakDuration
BREAK_DURATION = Contract(
    key=f'{D}/break_duration.py:BreakDuration.encode', props=['C14'],
    env=writer_env(lambda w: Obj('BreakDuration', {'auto_return': z3.Bool('auto_return'), 'duration': z3.Int('duration')})),
    requires=[('duration_33bit', '0 <= self.duration and self.duration < 8589934592')],
    sequel=seq(f'{D}/break_duration.py', 'BreakDuration'),
    ensures=[('roundtrip', "result['auto_return'] == old(self.auto_return) and result['duration'] == old(self.duration)"),
             ('consumed', 'consumed(__bits__)'), ('encoded_bits', 'nbits(__bits__) == 40')],
    witness_terms=lambda w: (lambda ev: {'auto_return': ev(z3.Bool('auto_return')), 'duration': ev(z3.Int('duration'))}),
)


# ----------------------------------------------------------------------------- SpliceInsert (program splice)
def si_obj(has_break):
    def mk(w):
        bd = Obj('BreakDuration', {'auto_return': z3.Bool('auto_return'), 'duration': z3.Int('duration')}) if has_break else None
        return Obj('SpliceInsert', {
            'splice_event_id': z3.Int('splice_event_id'), 'splice_event_cancel_indicator': z3.Bool('cancel'),
            'out_of_network_indicator': z3.Bool('out_of_network'), 'splice_immediate_flag': z3.Bool('immediate'),
            'splice_time': Obj('SpliceTime', {'pts': z3.Int('pts')}), 'break_duration': bd, 'components': PyList([]),
            'unique_program_id': z3.Int('unique_program_id'), 'avail_num': z3.Int('avail_num'),
            'avails_expected': z3.Int('avails_expected')})
    return mk


def splice_insert(has_break):
    bd = ("result['break_duration']['auto_return'] == old(self.break_duration.auto_return) and "
          "result['break_duration']['duration'] == old(self.break_duration.duration)") if has_break else \
        "is_unset(result['break_duration'])"
    return Contract(
        key=f'{D}/splice_insert.py:SpliceInsert.encode', variant='break' if has_break else 'no-break', props=['C14'],
        env=writer_env(si_obj(has_break)),
        requires=[('widths', '0 <= self.splice_event_id and self.splice_event_id < 4294967296 and '
                             '0 <= self.unique_program_id and self.unique_program_id < 65536 and '
                             '0 <= self.avail_num and self.avail_num < 256 and 0 <= self.avails_expected and self.avails_expected < 256 and '
                             '0 <= self.splice_time.pts and self.splice_time.pts < 8589934592'),
                  ('not_cancelled', 'not self.splice_event_cancel_indicator')] +
                 ([('duration_33bit', '0 <= self.break_duration.duration and self.break_duration.duration < 8589934592')] if has_break else []),
        modifies=['self.program_splice_flag', 'self.duration_flag'],
        mod_types={'self.program_splice_flag': 'bool', 'self.duration_flag': 'bool'},
        sequel=seq(f'{D}/splice_insert.py', 'SpliceInsert'),
        ensures=[('roundtrip', "result['splice_event_id'] == old(self.splice_event_id) and "
                               "result['out_of_network_indicator'] == old(self.out_of_network_indicator) and "
                               "result['splice_immediate_flag'] == old(self.splice_immediate_flag) and "
                               "result['program_splice_flag'] and result['duration_flag'] == " + ('True' if has_break else 'False') + " and "
                               "(is_unset(result['splice_time']) if old(self.splice_immediate_flag) else result['splice_time']['pts'] == old(self.splice_time.pts)) and "
                               + bd + " and result['unique_program_id'] == old(self.unique_program_id) and "
                               "result['avail_num'] == old(self.avail_num) and result['avails_expected'] == old(self.avails_expected)"),
                 ('consumed', 'consumed(__bits__)')],
        witness_terms=lambda w: (lambda ev: {k: ev(z3.Int(k)) for k in ('splice_event_id', 'pts', 'duration', 'unique_program_id',
                                                                        'avail_num', 'avails_expected')} |
                                 {k: ev(z3.Bool(k)) for k in ('cancel', 'out_of_network', 'immediate', 'auto_return')}),
    )


# ----------------------------------------------------------------------------- descriptor bodies
def seg_obj(w, program=True):
    return Obj('SegmentationDescriptor', {
        'segmentation_event_id': z3.Int('segmentation_event_id'), 'segmentation_event_cancel_indicator': z3.Bool('cancel'),
        'program_segmentation_flag': program, 'delivery_not_restricted_flag': z3.Bool('delivery_not_restricted'),
        'web_delivery_allowed_flag': z3.Bool('web_delivery_allowed'), 'no_regional_blackout_flag': z3.Bool('no_regional_blackout'),
        'archive_allowed_flag': z3.Bool('archive_allowed'), 'device_restrictions': z3.Int('device_restrictions'),
        'segmentation_duration': Opt(z3.Bool('duration_none'), z3.Int('segmentation_duration')),
        'segmentation_upid_type': z3.Int('segmentation_upid_type'), 'segmentation_upid': None,
        'components': None if program else PyList([]),
        'segmentation_type': z3.Int('segmentation_type'), 'segment_num': z3.Int('segment_num'),
        'segments_expected': z3.Int('segments_expected'), 'sub_segment_num': z3.Int('sub_segment_num'),
        'sub_segments_expected': z3.Int('sub_segments_expected')})


def u(field, bits):
    return f'0 <= self.{field} and self.{field} < {2 ** bits}'


SEGMENTATION = Contract(
    key=f'{D}/descriptors.py:SegmentationDescriptor.encode_fields', props=['C14'],
    env=writer_env(seg_obj),
    requires=[('widths', ' and '.join([u('segmentation_event_id', 32), u('device_restrictions', 2), u('segmentation_type', 8),
                                       u('segment_num', 8), u('segments_expected', 8), u('sub_segment_num', 8),
                                       u('sub_segments_expected', 8)])),
              ('duration_40bit', 'True if is_none(self.segmentation_duration) else '
                                 '(0 <= optval(self.segmentation_duration) and optval(self.segmentation_duration) < 1099511627776)'),
              ('not_cancelled', 'not self.segmentation_event_cancel_indicator')],
    modifies=['self.segmentation_upid_type', 'self.segmentation_duration_flag'],
    mod_types={'self.segmentation_duration_flag': 'bool'},
    sequel=seq(f'{D}/descriptors.py', 'SegmentationDescriptor', 'parse_fields'),
    ensures=[('roundtrip',
              "__kwargs__['segmentation_event_id'] == old(self.segmentation_event_id) and __kwargs__['program_segmentation_flag'] and "
              "__kwargs__['delivery_not_restricted_flag'] == old(self.delivery_not_restricted_flag) and "
              "(True if old(self.delivery_not_restricted_flag) else ("
              "__kwargs__['web_delivery_allowed_flag'] == old(self.web_delivery_allowed_flag) and "
              "__kwargs__['no_regional_blackout_flag'] == old(self.no_regional_blackout_flag) and "
              "__kwargs__['archive_allowed_flag'] == old(self.archive_allowed_flag) and "
              "__kwargs__['device_restrictions'] == old(self.device_restrictions))) and "
              "same_opt(__kwargs__['segmentation_duration'], old(self.segmentation_duration)) and "
              "__kwargs__['segmentation_upid_type'] == 15 and __kwargs__['segmentation_type'] == old(self.segmentation_type) and "
              "__kwargs__['segment_num'] == old(self.segment_num) and __kwargs__['segments_expected'] == old(self.segments_expected)"),
             ('consumed', 'consumed(__bits__)')],
    models={'r.read_bytes': lambda eng, e, a, kw: None},
    witness_terms=lambda w: (lambda ev: {k: ev(z3.Int(k)) for k in ('segmentation_event_id', 'device_restrictions', 'segmentation_duration',
                                                                    'segmentation_type', 'segment_num', 'segments_expected',
                                                                    'sub_segment_num', 'sub_segments_expected')} |
                             {k: ev(z3.Bool(k)) for k in ('cancel', 'delivery_not_restricted', 'web_delivery_allowed',
                                                          'no_regional_blackout', 'archive_allowed', 'duration_none')}),
)

import copy as _copy
SEGMENTATION_COMPONENTS = _copy.copy(SEGMENTATION)
SEGMENTATION_COMPONENTS.variant = 'no-program-segmentation-empty-components'
SEGMENTATION_COMPONENTS.env = writer_env(lambda w: seg_obj(w, False))
SEGMENTATION_COMPONENTS.modifies = SEGMENTATION.modifies + ['self.component_count']
SEGMENTATION_COMPONENTS.mod_types = dict(SEGMENTATION.mod_types, **{'self.component_count': 'int'})
SEGMENTATION_COMPONENTS.ensures = [(lab, t.replace("__kwargs__['program_segmentation_flag'] and", "not __kwargs__['program_segmentation_flag'] and"))
                                   for lab, t in SEGMENTATION.ensures]

TIME_DESCRIPTOR = Contract(
    key=f'{D}/descriptors.py:TimeDescriptor.encode_fields', props=['C14'],
    env=writer_env(lambda w: Obj('TimeDescriptor', {'TAI_seconds': z3.Int('TAI_seconds'), 'TAI_ns': z3.Int('TAI_ns'),
                                                    'UTC_offset': z3.Int('UTC_offset')})),
    requires=[('widths', ' and '.join([u('TAI_seconds', 48), u('TAI_ns', 32), u('UTC_offset', 16)]))],
    sequel=seq(f'{D}/descriptors.py', 'TimeDescriptor', 'parse_fields'),
    ensures=[('roundtrip', "__kwargs__['TAI_seconds'] == old(self.TAI_seconds) and __kwargs__['TAI_ns'] == old(self.TAI_ns) and "
                           "__kwargs__['UTC_offset'] == old(self.UTC_offset)"),
             ('consumed', 'consumed(__bits__)'), ('encoded_bits', 'nbits(__bits__) == 96')],
    witness_terms=lambda w: (lambda ev: {k: ev(z3.Int(k)) for k in ('TAI_seconds', 'TAI_ns', 'UTC_offset')}),
)

# ----------------------------------------------------------------------------- the whole signal (section table + CRC)
ST = 'dashlive/mpeg/section_table.py'
CUEI = 0x43554549


def signal_obj(w):
    seg = seg_obj(w)
    seg.f.update(tag=2, identifier=CUEI, length=0)
    si = si_obj(True)(w)
    si.f['splice_event_cancel_indicator'] = False
    seg.f['segmentation_event_cancel_indicator'] = False
    return Obj('BinarySignal', {
        'table_id': 0xFC, 'section_syntax_indicator': False, 'private_indicator': False, 'sap_type': z3.Int('sap_type'),
        'section_length': 0, 'protocol_version': z3.Int('protocol_version'), 'encrypted_packet': False,
        'encryption_algorithm': z3.Int('encryption_algorithm'), 'pts_adjustment': z3.Int('pts_adjustment'),
        'cw_index': z3.Int('cw_index'), 'tier': z3.Int('tier'), 'splice_schedule': None, 'splice_insert': si,
        'time_signal': None, 'descriptors': PyList([seg])})


class Tags:
    def getitem(self, eng, tag):
        # the signal under contract carries one segmentation descriptor (tag 2): any other tag read back means the
        # parser is not looking at what the encoder wrote
        eng.oblige('safety', 'descriptor.tag_read_back', zint(tag) == 2)
        if eng.branch(zint(tag) == 2):
            return Opaque('class:SegmentationDescriptor')
        from pyvc.engine import PathCut
        raise PathCut()


def signal_sequel(eng, env_after, value):
    bits = env_after['w'].bits
    bits.cursor, bits.partial = 0, 0
    return {'cls': Opaque('class:BinarySignal'), 'src': bits, 'size': None, 'self': env_after['self'], 'dest': None,
            '__bits__': bits}


SIGNAL = Contract(
    key=f'{ST}:MpegSectionTable.encode', variant='scte35-splice-insert-with-segmentation-descriptor', props=['C14'],
    env=lambda w: {'self': signal_obj(w), 'dest': None},
    requires=[('header', '0 <= self.sap_type and self.sap_type < 4 and 0 <= self.protocol_version and self.protocol_version < 256 and '
                         '0 <= self.encryption_algorithm and self.encryption_algorithm < 64 and 0 <= self.pts_adjustment and '
                         'self.pts_adjustment < 8589934592 and 0 <= self.cw_index and self.cw_index < 256 and 0 <= self.tier and self.tier < 4096'),
              ('insert', '0 <= self.splice_insert.splice_event_id and self.splice_insert.splice_event_id < 4294967296 and '
                         '0 <= self.splice_insert.unique_program_id and self.splice_insert.unique_program_id < 65536 and '
                         '0 <= self.splice_insert.avail_num and self.splice_insert.avail_num < 256 and '
                         '0 <= self.splice_insert.avails_expected and self.splice_insert.avails_expected < 256 and '
                         '0 <= self.splice_insert.splice_time.pts and self.splice_insert.splice_time.pts < 8589934592 and '
                         '0 <= self.splice_insert.break_duration.duration and self.splice_insert.break_duration.duration < 8589934592'),
              ('descriptor', ' and '.join(f'0 <= self.descriptors[0].{f} and self.descriptors[0].{f} < {2 ** b}' for f, b in
                                          (('segmentation_event_id', 32), ('device_restrictions', 2), ('segmentation_type', 8),
                                           ('segment_num', 8), ('segments_expected', 8), ('sub_segment_num', 8),
                                           ('sub_segments_expected', 8)))),
              ('descriptor_duration', 'True if is_none(self.descriptors[0].segmentation_duration) else '
                                      '(0 <= optval(self.descriptors[0].segmentation_duration) and '
                                      'optval(self.descriptors[0].segmentation_duration) < 1099511627776)')],
    models={'attr:cls.TAGS': lambda eng: Tags(), 'attr:cls.__name__': lambda eng: Opaque('name'),
            'attr:DescriptorClass.__name__': lambda eng: Opaque('name'),
            'r.read_bytes': lambda eng, e, a, kw: None},
    ctors={'Crc32Mpeg2': lambda eng, a, kw: __import__('pyvc.models.bittrace', fromlist=['CrcModel']).CrcModel()},
    modifies=['self.section_length', 'self.splice_command_type', 'self.splice_command_length', 'self.descriptor_loop_length',
              'self.splice_insert.program_splice_flag', 'self.splice_insert.duration_flag',
              'self.descriptors'],
    mod_types={'self.splice_command_type': 'int', 'self.splice_command_length': 'int', 'self.descriptor_loop_length': 'int',
               'self.splice_insert.program_splice_flag': 'bool', 'self.splice_insert.duration_flag': 'bool'},
    sequel={'file': ST, 'qual': 'MpegSectionTable.parse', 'env': signal_sequel},
    ensures=[
        ('crc_valid', "result['crc_valid']"),
        ('header', "result['table_id'] == 252 and result['sap_type'] == old(self.sap_type) and "
                   "result['protocol_version'] == old(self.protocol_version) and result['pts_adjustment'] == old(self.pts_adjustment) and "
                   "result['cw_index'] == old(self.cw_index) and result['tier'] == old(self.tier) and result['splice_command_type'] == 5"),
        ('lengths', "result['section_length'] * 8 == nbits(__bits__) - 24 and "
                    "result['splice_command_length'] == (15 if old(self.splice_insert.splice_immediate_flag) else 20) and "
                    "result['header_size'] == 3 and "
                    "result['descriptors'][0]['length'] * 8 == nbits(__bits__) - 176 - (120 if old(self.splice_insert.splice_immediate_flag) else 160)"),
        ('splice', "result['splice_insert']['splice_event_id'] == old(self.splice_insert.splice_event_id) and "
                   "result['splice_insert']['avail_num'] == old(self.splice_insert.avail_num) and "
                   "result['splice_insert']['avails_expected'] == old(self.splice_insert.avails_expected) and "
                   "result['splice_insert']['unique_program_id'] == old(self.splice_insert.unique_program_id) and "
                   "result['splice_insert']['break_duration']['duration'] == old(self.splice_insert.break_duration.duration) and "
                   "result['splice_insert']['break_duration']['auto_return'] == old(self.splice_insert.break_duration.auto_return) and "
                   "(is_unset(result['splice_insert']['splice_time']) if old(self.splice_insert.splice_immediate_flag) else "
                   "result['splice_insert']['splice_time']['pts'] == old(self.splice_insert.splice_time.pts))"),
        ('descriptors', "length(result['descriptors']) == 1 and result['descriptors'][0]['tag'] == 2 and "
                        "result['descriptors'][0]['identifier'] == 1129661769 and "
                        "result['descriptors'][0]['segmentation_event_id'] == old(self.descriptors[0].segmentation_event_id) and "
                        "result['descriptors'][0]['segmentation_type'] == old(self.descriptors[0].segmentation_type)"),
        ('consumed', 'consumed(__bits__)'),
    ],
    witness_terms=lambda w: (lambda ev: {k: ev(z3.Int(k)) for k in (
        'sap_type', 'protocol_version', 'encryption_algorithm', 'pts_adjustment', 'cw_index', 'tier', 'splice_event_id', 'pts',
        'duration', 'unique_program_id', 'avail_num', 'avails_expected', 'segmentation_event_id', 'device_restrictions',
        'segmentation_duration', 'segmentation_type', 'segment_num', 'segments_expected', 'sub_segment_num',
        'sub_segments_expected')} | {k: ev(z3.Bool(k)) for k in (
            'out_of_network', 'immediate', 'auto_return', 'delivery_not_restricted', 'web_delivery_allowed',
            'no_regional_blackout', 'archive_allowed', 'duration_none')}),
)

INLINE = [Contract(key=f'{D}/splice_time.py:SpliceTime.encode', props=[], inline=True, variant='inline'),
          Contract(key=f'{D}/splice_time.py:SpliceTime.parse', props=[], inline=True),
          Contract(key=f'{D}/break_duration.py:BreakDuration.encode', props=[], inline=True, variant='inline'),
          Contract(key=f'{D}/break_duration.py:BreakDuration.parse', props=[], inline=True),
          Contract(key=f'{D}/splice_insert.py:SpliceInsert.encode', props=[], inline=True, variant='inline'),
          Contract(key=f'{D}/splice_insert.py:SpliceInsert.parse', props=[], inline=True),
          Contract(key=f'{D}/binarysignal.py:BinarySignal.encode_fields', props=[], inline=True),
          Contract(key=f'{D}/binarysignal.py:BinarySignal.parse_payload', props=[], inline=True),
          Contract(key=f'{D}/descriptors.py:SpliceDescriptor.encode', props=[], inline=True),
          Contract(key=f'{D}/descriptors.py:SpliceDescriptor.parse', props=[], inline=True),
          Contract(key=f'{D}/descriptors.py:SegmentationDescriptor.encode_fields', props=[], inline=True, variant='inline'),
          Contract(key=f'{D}/descriptors.py:SegmentationDescriptor.parse_fields', props=[], inline=True)]

NEVER = lambda frame: False       # top-level (sequel) variants are never used at call sites: the inline ones are


GROUP = Group(
    name='scte35', world=world,
    contracts=[splice_time('unspecified'), splice_time('specified'), BREAK_DURATION, splice_insert(True), splice_insert(False),
               SEGMENTATION, SEGMENTATION_COMPONENTS, TIME_DESCRIPTOR, SIGNAL] + INLINE,
    assumptions=['C14: BitsFieldWriter / BitsFieldReader (dashlive/utils/fio, over the bitstring package) are modelled by a bit '
                 'trace (pyvc/models/bittrace.py), not verified; a one-bit read returns a bool',
                 'C14: SpliceInsert is proved for program splices (splice_time present, no components) that are not cancelled; '
                 'SegmentationDescriptor for program segmentation without UPID, not cancelled'],
    trusted=['pyvc/models/bittrace.py'],
    not_covered=['signals other than splice_insert + one segmentation descriptor (time_signal, splice_schedule, private commands, '
                 'encrypted packets), non-empty component lists, UPIDs, DTMF / audio / avail descriptors; descriptor class dispatch '
                 '(SpliceDescriptor.TAGS) is modelled for tag 2 only',
                 'the CRC-32 itself: crccheck is external; only its residue property crc(d || crc(d)) == 0 is assumed'],
)

for _c in GROUP.contracts:
    if not _c.inline and _c.qual in ('SpliceTime.encode', 'BreakDuration.encode', 'SpliceInsert.encode',
                                     'SegmentationDescriptor.encode_fields'):
        _c.applies = NEVER
