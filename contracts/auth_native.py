"""Native builders for the `auth` group: the decorator factories are extracted from the source text (the module needs
flask_login, which is not installed) and run with stand-ins for the current user / request."""
import ast
import os
from functools import wraps
from types import SimpleNamespace as NS

REPO = os.environ.get('PYVC_REPO', '/repo')
DEC = 'dashlive/server/requesthandler/decorators.py'
BOOLS = ('authenticated', 'is_admin', 'in_group', 'token_in_json', 'token_in_args', 'token_in_form', 'is_post', 'is_put', 'is_json',
         'csrf_ok', 'ajax', 'has_next_url')


class CsrfFailureException(Exception):
    pass


def extract(name, ns):
    tree = ast.parse(open(os.path.join(REPO, DEC)).read())
    for fn in tree.body:
        if isinstance(fn, ast.FunctionDef) and fn.name == name:
            for node in ast.walk(fn):
                if isinstance(node, ast.FunctionDef):
                    node.returns = None
                    for a in node.args.args + node.args.kwonlyargs:
                        a.annotation = None
                elif isinstance(node, ast.AnnAssign) and node.value is not None:
                    node.annotation = ast.Constant(None)
            ns = dict(ns, wraps=wraps)
            exec(compile(ast.fix_missing_locations(ast.Module(body=[fn], type_ignores=[])), DEC, 'exec'), ns)
            return ns[name]
    raise KeyError(name)


CSRF_BOOLS = ('cookie_present', 'cookie_empty', 'token_used', 'issued_for_cookie', 'issued_for_service', 'issued_for_origin',
              'unmodified', 'strict_origin', 'origin_header')


def build_csrf_check(i):
    import base64
    import datetime
    import hashlib
    import hmac
    import logging
    import urllib.parse
    b = {k: bool(i[k]) for k in CSRF_BOOLS}
    secret, cookie, service, origin = 's3cret', 'cookie-value', 'service', 'http://host'
    salt = 'abcdefgh'
    sig = hmac.new(bytes(secret, 'utf-8'), bytes(cookie if b['issued_for_cookie'] else 'other-cookie', 'utf-8'), hashlib.sha1)
    sig.update(bytes(service if b['issued_for_service'] else 'other-service', 'utf-8'))
    if b['strict_origin']:
        sig.update(bytes(origin if b['issued_for_origin'] else 'http://evil', 'utf-8'))
    sig.update(bytes(salt, 'utf-8'))
    text = salt + str(base64.b64encode(sig.digest()))
    if not b['unmodified']:
        text = text[:-3] + ('A' if text[-3] != 'A' else 'B') + text[-2:]
    token = urllib.parse.quote(text)
    store = NS(added=[])
    tree = ast.parse(open(os.path.join(REPO, 'dashlive/server/requesthandler/csrf.py')).read())
    cls = next(n for n in tree.body if isinstance(n, ast.ClassDef) and n.name == 'CsrfProtection')
    fn = next(n for n in cls.body if isinstance(n, ast.FunctionDef) and n.name == 'check')
    fn.decorator_list, fn.returns = [], None
    for node in ast.walk(fn):
        if isinstance(node, ast.arg):
            node.annotation = None
        elif isinstance(node, ast.AnnAssign) and node.value is not None:
            node.annotation = ast.Constant(None)

    class Token:
        CSRF_SALT_LENGTH = 8

        def __init__(self, **kw):
            self.__dict__.update(kw)

        @staticmethod
        def get_one(jti=None, token_type=None):
            return object() if b['token_used'] else None
    cookies = {'csrf': ('' if b['cookie_empty'] else cookie)} if b['cookie_present'] else {}
    headers = {'Origin': origin} if b['origin_header'] else {}
    fl = NS(request=NS(cookies=cookies, headers=headers, url=origin + '/page'), after_this_request=lambda f: f,
            current_app=NS(config={'DASH': {'CSRF_SECRET': secret, 'STRICT_CSRF_ORIGIN': 'True' if b['strict_origin'] else 'False'}}))
    ns = {'flask': fl, 'logging': logging, 'urllib': urllib, 'hmac': hmac, 'hashlib': hashlib, 'base64': base64, 'datetime': datetime,
          'Token': Token, 'TokenType': NS(CSRF=NS(value='csrf')), 'KEY_LIFETIMES': {}, 'CsrfFailureException': CsrfFailureException,
          'db': NS(session=NS(add=lambda t: store.added.append(t), commit=lambda: None)),
          'CsrfProtection': NS(CSRF_COOKIE_NAME='csrf')}

    class Lifetimes(dict):
        def __getitem__(self, k):
            return datetime.timedelta(hours=1)
    ns['KEY_LIFETIMES'] = Lifetimes()
    exec(compile(ast.fix_missing_locations(ast.Module(body=[fn], type_ignores=[])), 'csrf.py', 'exec'), ns)
    env = dict(b, __store__=store, recorded=lambda st: len(st.added) == 1)
    return {'env': env, 'old_env': dict(env), 'call': lambda: ns['check'](NS(CSRF_COOKIE_NAME='csrf'), service, token)}


def build(key, variant, i):
    if key.endswith('CsrfProtection.check'):
        return build_csrf_check(i)
    qual = key.split(':')[1].split('.')[0]
    b = {k: bool(i[k]) for k in BOOLS}
    b['has_payload'] = b['is_post'] or b['is_put']
    env = dict(b, ran=lambda r: bool(getattr(r, 'from_handler', False)))
    body = lambda *a, **k: NS(status=200, from_handler=True)
    refuse = lambda code=401: NS(status=code, from_handler=False)
    if qual in ('login_required', 'jwt_login_required'):
        admin = 'admin=True' in variant
        perm = 'permission=True' in variant
        user = NS(is_authenticated=b['authenticated'], is_admin=b['is_admin'], has_permission=lambda g: b['in_group'])
        method = 'POST' if b['is_post'] else ('PUT' if b['is_put'] else 'DELETE')
        ns = {'current_user': user, 'jwt_current_user': user, 'needs_login_response': lambda *a, **kw: refuse(),
              'jsonify_no_content': lambda code: refuse(code), 'Group': object, 'flask': NS(request=NS(method=method))}
        factory = extract(qual, ns)
        kw = dict(admin=admin, permission='MEDIA' if perm else None)
        if variant.endswith(',html'):
            kw['html'] = True
        return {'env': env, 'call': lambda: factory(**kw)(body)()}
    optional = 'optional=True' in variant

    class Lookup:
        def __init__(self, present):
            self.present = present

        def get(self, k, default=None):
            return 'tok' if self.present else None

    def check(service, token):
        if not b['csrf_ok']:
            raise CsrfFailureException('bad')
    method = 'POST' if b['is_post'] else ('PUT' if b['is_put'] else 'GET')
    req = NS(method=method, is_json=b['is_json'], get_json=lambda: Lookup(b['token_in_json']),
             args=Lookup(b['token_in_args']), form=Lookup(b['token_in_form']))
    import logging
    fl = NS(request=req, flash=lambda *a: None, make_response=lambda body_, code: refuse(code), redirect=lambda url: refuse(302))
    ns = {'flask': fl, 'CsrfProtection': NS(check=check), 'CsrfFailureException': CsrfFailureException, 'logging': logging,
          'is_ajax': lambda: b['ajax'], 'jsonify': lambda data, code: refuse(code), 'Callable': object}
    factory = extract('csrf_token_required', ns)
    nxt = lambda *a, **k: ('/next' if b['has_next_url'] else None)
    if 'default-next-url' in variant:
        # a handler method of a view with URL parameters, decorated without a next_url
        return {'env': env, 'call': lambda: factory('streams', optional=optional)(body)(NS(), mps_name='demo')}
    return {'env': env, 'call': lambda: factory('streams', next_url=nxt, optional=optional)(body)()}


def finding_unguarded_handler(i):
    """C15: a state-changing handler method without the role guard the documentation assigns to it"""
    from contracts.auth_scan import effective_decorators
    decs = effective_decorators(REPO, i['file'], i['class'], i['method'])
    need = i['need']
    ok = decs is not None and any(d.startswith(need[0] + '(') and need[1] in d for d in decs)
    return (not ok), f"{i['class']}.{i['method']} in {i['file']}: effective decorators {decs}; none is {need[0]}(...{need[1]}...)"
