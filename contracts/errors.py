"""Synthetic HTTP errors (C16: "the only 5xx responses are the synthetic ones a request asks for, produced exactly for
the addressed segment ... the configured number of times"): the per-session failure counter of RequestHandlerBase and
MediaRequestBase.check_for_synthetic_http_error.

The Flask session is a map from keys to values; the one key a call touches (`error-<usage>-<code>`) holds None (absent
or reset) or an integer - `counter` below.  Keys are compared structurally (same usage text, same code term)."""
import z3
from pyvc.vals import *          # noqa: F401,F403
from pyvc.contract import Contract, Loop, Lemma, Group
from pyvc.engine import PyRaise

BASE = 'dashlive/server/requesthandler/base.py'
MRQ = 'dashlive/server/requesthandler/media_requests.py'


class Session:
    """flask.session restricted to one key: get(key[, default]) / session[key] = v; `absent` tells whether the key is
    in the mapping at all (get's default applies only then)"""

    def __init__(self, absent, value):
        self.absent, self.value, self.key = absent, value, None      # value: Opt(isnone, int) when present
        self.writes = 0

    def clone_model(self):
        s = Session(self.absent, self.value)
        s.key, s.writes = self.key, self.writes
        return s

    def _same_key(self, key):
        k = repr(getattr(key, 'parts', key))
        if self.key is None:
            self.key = k
        if self.key != k:
            raise Unsupported('a second session key')

    def method(self, eng, name, args, kwargs, e):
        if name == 'get':
            self._same_key(args[0])
            default = args[1] if len(args) > 1 else None
            present = Opt(self.value.isnone, self.value.val) if isinstance(self.value, Opt) else self.value
            if z3.is_false(z3.simplify(zbool(self.absent))) if z3.is_expr(self.absent) else (self.absent is False):
                return present
            if default is None:
                return Opt(z3.Or(zbool(self.absent), present.isnone), present.val)
            # key absent -> default; present -> stored value (possibly None)
            return Opt(z3.And(z3.Not(zbool(self.absent)), present.isnone), z3.If(zbool(self.absent), zint(default), zint(present.val)))
        raise Unsupported(f'session.{name}')

    def setitem(self, eng, key, value):
        self._same_key(key)
        self.absent = False
        self.value = value if isinstance(value, Opt) else (Opt(z3.BoolVal(True), z3.IntVal(0)) if value is None
                                                           else Opt(z3.BoolVal(False), zint(value)))
        self.writes += 1


def world():
    w = {'absent': z3.Bool('absent'), 'stored_none': z3.Bool('stored_none'), 'stored': z3.Int('stored'),
         'code': z3.Int('code'), 'pos': z3.Int('pos'), 'seg_num': z3.Int('seg_num'), 'fc': z3.Int('fc'),
         'fc_none': z3.Bool('fc_none')}
    # the counter as the code sees it: None when the key is absent or was reset
    w['counter_none'] = z3.Or(w['absent'], w['stored_none'])
    w['count0'] = z3.If(w['counter_none'], 0, w['stored'])
    w['session_value'] = lambda s: s.value.val
    w['session_is_none'] = lambda s: z3.Or(zbool(s.absent), s.value.isnone)
    w['unchanged'] = lambda s: z3.BoolVal(s.writes == 0)
    for nm in ('ast_day', 'ast_sec', 'ast_usec', 'pos_day', 'pos_sec', 'pos_usec', 'pos_h', 'pos_m', 'pos_s', 'now_us', 'depth', 'ts', 'sd'):
        w[nm] = z3.Int(nm)
    w['drops_are'] = drops_are
    w['empty_list'] = lambda x: z3.BoolVal(isinstance(x, Quoted) and len(x.items) == 0)
    for b in ('bad_options', 'opt_patch', 'opt_timeline', 'feat_timeline', 'mft_timeline', 'synthetic_error', 'has_mup'):
        w[b] = z3.Bool(b)
    w['mup_num'], w['mup_den'], w['publish_s'] = z3.Int('mup_num'), z3.Int('mup_den'), z3.Int('publish_s')
    w['ctx_publish_us'], w['ctx_now_us'] = z3.Int('ctx_publish_us'), z3.Int('ctx_now_us')
    w['context_untouched'] = context_untouched
    w['feat_patch'], w['mode_live_allowed'] = z3.Bool('feat_patch'), z3.Bool('mode_live_allowed')
    w['micros'] = lambda dt: zint(dt.us)
    w['max_age_is'] = max_age_is
    w['mup'], w['update_count'], w['uc_none'] = z3.Int('mup'), z3.Int('update_count'), z3.Bool('uc_none')
    w['__bases__'] = {'ServeManifest': ['RequestHandlerBase'], 'LiveMedia': ['MediaRequestBase'], 'MediaRequestBase': ['RequestHandlerBase']}
    return w


def session_of(w):
    return Session(w['absent'], Opt(w['stored_none'], w['stored']))


def wt(w):
    return lambda ev: {k: ev(w[k]) for k in ('absent', 'stored_none', 'stored', 'code', 'pos', 'seg_num', 'fc', 'fc_none')}


COMMON = {'attr:flask.session': lambda eng: eng.lookup('__session__')}

INCREMENT = Contract(
    key=f'{BASE}:RequestHandlerBase.increment_error_counter', props=['C16'],
    env=lambda w: {'self': Obj('RequestHandlerBase', {}), 'usage': 'video', 'code': w['code'], '__session__': session_of(w)},
    requires=[('count_nonneg', 'counter_none or stored >= 0')],
    models=dict(COMMON),
    ensures=[('next', 'result == count0 + 1'),
             ('stored', 'not session_is_none(__session__) and session_value(__session__) == count0 + 1')],
    canaries=['result == 1'],
    witness_terms=wt,
)

RESET = Contract(
    key=f'{BASE}:RequestHandlerBase.reset_error_counter', props=['C16'],
    env=lambda w: {'self': Obj('RequestHandlerBase', {}), 'usage': 'video', 'code': w['code'], '__session__': session_of(w)},
    models=dict(COMMON),
    ensures=[('cleared', 'session_is_none(__session__)')],
    canaries=['False'],
    witness_terms=wt,
)


def make_response(eng, e, a, kw):
    return Obj('Response', {'status': a[1], 'body': a[0]})


def synthetic(content_type, field):
    """one configured (code, pos) item for this content type"""
    def env(w):
        opts = {'audioErrors': PyList([]), 'videoErrors': PyList([]), 'textErrors': PyList([]),
                'failureCount': Opt(w['fc_none'], w['fc'])}
        opts[field] = PyList([(w['code'], w['pos'])])
        return {'self': Obj('LiveMedia', {}), 'content_type': content_type, 'seg_num': w['seg_num'],
                'options': Obj('OptionsContainer', opts), '__session__': session_of(w)}
    counted = '(code >= 500 and not fc_none)'
    fires = f'(pos == seg_num and not ({counted} and count0 + 1 > fc))'
    return Contract(
        key=f'{MRQ}:MediaRequestBase.check_for_synthetic_http_error', variant=content_type, props=['C16'],
        env=env,
        requires=[('count_nonneg', 'counter_none or stored >= 0'), ('http_code', '100 <= code and code <= 599')],
        models=dict(COMMON, **{'flask.make_response': make_response}),
        ensures=[
            ('fires_exactly_when_addressed', f'(not is_none(result)) == {fires}'),
            ('with_the_asked_code', f'result.status == code if {fires} else True'),
            ('counts', f'(session_value(__session__) == count0 + 1 and not session_is_none(__session__)) '
                       f'if (pos == seg_num and {counted} and count0 + 1 <= fc) else True'),
            ('resets_after_the_configured_count', f'session_is_none(__session__) if (pos == seg_num and {counted} and count0 + 1 > fc) else True'),
            ('other_requests_do_not_count', f'unchanged(__session__) if (pos != seg_num or not {counted}) else True'),
        ],
        canaries=['is_none(result)'],
        witness_terms=wt,
    )


SYNTH = [synthetic('video', 'videoErrors'), synthetic('audio', 'audioErrors'), synthetic('text', 'textErrors')]
INC_INLINE = Contract(key=f'{BASE}:RequestHandlerBase.increment_error_counter', variant='inline', props=[], inline=True)
RST_INLINE = Contract(key=f'{BASE}:RequestHandlerBase.reset_error_counter', variant='inline', props=[], inline=True)
INCREMENT.applies = RESET.applies = lambda frame: False


# ----------------------------------------------------------------------------- error positions in a manifest's URLs
MCX = 'dashlive/server/requesthandler/manifest_context.py'


class Quoted:
    """urllib.parse.quote_plus(','.join(drops)): remembered as the list of f-strings that were joined"""

    def __init__(self, items):
        self.items = items


def quote_plus(eng, e, a, kw):
    j = a[0]
    if j == '':
        return Quoted([])
    return Quoted(list(getattr(j, 'parts', getattr(j, 'items', [j]))))


def drops_are(x, *parts):
    """the result lists exactly one item whose text is built from these pieces"""
    from pyvc.models.strings import FString
    if not isinstance(x, Quoted) or len(x.items) != 1:
        return z3.BoolVal(False)
    it = x.items[0]
    got = it.parts if isinstance(it, FString) else [it]
    if len(got) != len(parts):
        return z3.BoolVal(False)
    conj = []
    for g, p in zip(got, parts):
        if isinstance(g, str) or isinstance(p, str):
            if not (isinstance(g, str) and isinstance(p, str) and g == p):
                return z3.BoolVal(False)
        else:
            conj.append(zint(g) == zint(p))
    return z3.And(*conj) if conj else z3.BoolVal(True)


class ClockDT(DT):
    """a datetime given by day number, hour, minute, second, microsecond"""
    __slots__ = ('hms',)

    def __init__(self, day, h, m, s, usec):
        sod = 3600 * h + 60 * m + s
        super().__init__(86400 * 10**6 * day + 10**6 * sod + usec, (day, sod, usec))
        self.hms = (h, m, s)


def injected(kind, with_code):
    def env(w):
        ast_, c1 = DT.decomposed('ast')
        pos_t = ClockDT(w['pos_day'], w['pos_h'], w['pos_m'], w['pos_s'], w['pos_usec'])
        c2 = z3.And(0 <= w['pos_h'], w['pos_h'] < 24, 0 <= w['pos_m'], w['pos_m'] < 60, 0 <= w['pos_s'], w['pos_s'] < 60,
                    0 <= w['pos_usec'], w['pos_usec'] < 10**6, w['pos_sec'] == 3600 * w['pos_h'] + 60 * w['pos_m'] + w['pos_s'])
        pos = w['pos'] if kind == 'number' else pos_t
        return {'errors': PyList([(w['code'] if with_code else None, pos)]), 'now': DT(z3.Int('now_us')),
                'availabilityStartTime': ast_, 'timeShiftBufferDepth': z3.Int('depth'),
                'representation': Obj('Representation', {'timescale': z3.Int('ts'), 'segment_duration': z3.Int('sd')}),
                '__facts__': z3.And(c1, c2)}
    # the requested wall-clock time on the availability start day, in microseconds since availabilityStartTime
    # (x // sd written without a division where sd == 1: the code has that special case too, and a division by a variable the
    #  path fixes to 1 is exactly what z3's nonlinear arithmetic is unstable on)
    seg = '((ts * (pos_sec - ast_sec)) if sd == 1 else (ts * (pos_sec - ast_sec)) // sd)' if kind == 'time' else 'pos'
    listed = ('True' if kind == 'number' else
              '(86400000000 * ast_day + 1000000 * pos_sec + ast_usec >= now_us - 1000000 * depth)')
    text = ("drops_are(result, code, '=', {seg})" if with_code else "drops_are(result, {seg})").format(seg=seg)
    return Contract(
        key=f'{MCX}:ManifestContext.calculate_injected_error_segments', variant=f'{kind}{"" if with_code else "-nocode"}',
        props=['C16'], env=env,
        requires=[('parts', '__facts__'), ('rep', 'ts >= 1 and sd >= 1'), ('depth', 'depth >= 0'),
                  # region: the requested time of day is not before the availability start's time of day
                  ('region_not_before_start', 'True' if kind == 'number' else 'pos_sec >= ast_sec')],
        models={'urllib.parse.quote_plus': quote_plus},
        ensures=[('listed', f'({text}) if {listed} else empty_list(result)')],
        canaries=['empty_list(result)'],
        witness_terms=lambda w: (lambda ev: {k: ev(z3.Int(k)) for k in ('code', 'pos', 'ast_day', 'ast_sec', 'ast_usec', 'pos_day',
                                                                         'pos_sec', 'pos_usec', 'pos_h', 'pos_m', 'pos_s', 'now_us', 'depth', 'ts', 'sd')}),
    )


INJECTED = [injected('number', True), injected('time', True), injected('time', False)]
SCALE_INLINE = Contract(key='dashlive/utils/date_time.py:scale_timedelta', props=[], inline=True)


# ----------------------------------------------------------------------------- manifest side
MFR = 'dashlive/server/requesthandler/manifest_requests.py'


def manifest_error(kind):
    def env(w):
        ast_, c1 = DT.decomposed('ast')
        pos_t = ClockDT(w['pos_day'], w['pos_h'], w['pos_m'], w['pos_s'], w['pos_usec'])
        c2 = z3.And(0 <= w['pos_h'], w['pos_h'] < 24, 0 <= w['pos_m'], w['pos_m'] < 60, 0 <= w['pos_s'], w['pos_s'] < 60,
                    0 <= w['pos_usec'], w['pos_usec'] < 10**6, w['pos_sec'] == 3600 * w['pos_h'] + 60 * w['pos_m'] + w['pos_s'])
        pos = w['pos'] if kind == 'number' else pos_t
        opts = Obj('OptionsContainer', {
            'manifestErrors': PyList([(w['code'], pos)]), 'updateCount': Opt(z3.Bool('uc_none'), z3.Int('update_count')),
            'availabilityStartTime': ast_, 'minimumUpdatePeriod': z3.Int('mup'), 'failureCount': Opt(w['fc_none'], w['fc'])})
        return {'self': Obj('ServeManifest', {}), 'options': opts,
                'context': {'mpd': Obj('ManifestContext', {'now': DT(z3.Int('now_us'))})},
                '__session__': session_of(w), '__facts__': z3.And(c1, c2)}
    if kind == 'number':
        addressed = '(not uc_none and pos == update_count)'
    else:
        tm = '(86400000000 * ast_day + 1000000 * pos_sec + ast_usec)'
        addressed = f'({tm} <= now_us and now_us <= {tm} + 1000000 * mup)'
    counted = '(code >= 500 and not fc_none)'
    fires = f'({addressed} and not ({counted} and count0 + 1 > fc))'
    return Contract(
        key=f'{MFR}:ServeManifest.check_for_synthetic_manifest_error', variant=kind, props=['C16'], env=env,
        requires=[('parts', '__facts__'), ('count_nonneg', 'counter_none or stored >= 0'), ('http_code', '100 <= code and code <= 599'),
                  ('mup', 'mup >= 0')],
        models=dict(COMMON, **{'flask.make_response': make_response}),
        ensures=[
            ('fires_exactly_when_addressed', f'(not is_none(result)) == {fires}'),
            ('with_the_asked_code', f'result.status == code if {fires} else True'),
            ('counts', f'(session_value(__session__) == count0 + 1 and not session_is_none(__session__)) '
                       f'if ({addressed} and {counted} and count0 + 1 <= fc) else True'),
            ('resets_after_the_configured_count', f'session_is_none(__session__) if ({addressed} and {counted} and count0 + 1 > fc) else True'),
            ('other_requests_do_not_count', f'unchanged(__session__) if (not {addressed} or not {counted}) else True'),
        ],
        canaries=['is_none(result)'],
        witness_terms=lambda w: (lambda ev: dict(wt(w)(ev), **{k: ev(z3.Int(k)) for k in (
            'ast_day', 'ast_sec', 'ast_usec', 'pos_day', 'pos_sec', 'pos_usec', 'pos_h', 'pos_m', 'pos_s', 'now_us', 'mup',
            'update_count')}, uc_none=ev(z3.Bool('uc_none')))),
    )


MANIFEST_ERR = [manifest_error('number'), manifest_error('time')]


# ----------------------------------------------------------------------------- ServeManifest.get: option errors, patch / timeline flags
class Features:
    def __init__(self, has_timeline):
        self.has_timeline = has_timeline

    def contains(self, eng, item):
        if item == 'segmentTimeline':
            return self.has_timeline
        raise Unsupported('feature lookup')


def serve_manifest(mode):
    def env(w):
        return {'self': Obj('ServeManifest', {}), 'mode': mode, 'stream': Opaque('stream'), 'manifest': Opaque('name.mpd'),
                'current_manifest': Obj('DashManifest', {'restrictions': Opaque('r'), 'features': Features(w['feat_timeline']),
                                                         'segment_timeline': w['mft_timeline']}),
                'current_stream': Obj('Stream', {'title': Opaque('title')})}

    def calculate_options(eng, e, a, kw):
        w = eng.world
        if eng.branch(w['bad_options']):
            raise PyRaise('ValueError')
        return Obj('OptionsContainer', {'patch': w['opt_patch'], 'segmentTimeline': w['opt_timeline']})

    def update(eng, e, a, kw):
        eng.eval(e.func.value).f.update(kw)

    def synthetic(eng, e, a, kw):
        if eng.branch(eng.world['synthetic_error']):
            return Obj('Response', {'status': eng.world['code'], 'kind': 'synthetic'})
        return None

    def context(eng, e, a, kw):
        d = dict(kw)
        if eng.branch(eng.world['has_mup']):
            d['minimumUpdatePeriod'] = Ratio(eng.world['mup_num'], eng.world['mup_den'])
        return d

    def make_response(eng, e, a, kw):
        v = a[0]
        if isinstance(v, tuple):
            return Obj('Response', {'status': v[1], 'kind': 'manifest', 'body': v[0], 'headers': v[2]})
        return Obj('Response', {'status': a[1], 'kind': 'error'})
    live = mode == 'live'
    patch = 'opt_patch' if live else 'False'
    bad = f'(bad_options or ({patch} and not feat_timeline))'
    timeline = f'(False if not feat_timeline else (True if (mft_timeline or {patch}) else opt_timeline))'
    return Contract(
        key=f'{MFR}:ServeManifest.get', variant=mode, props=['C16', 'C09'], env=env,
        requires=[('update_period', 'mup_den >= 1 and mup_num >= 0'), ('http_code', '100 <= code and code <= 599')],
        models={'self.calculate_options': calculate_options, 'options.update': update, 'options.remove_unused_parameters': lambda eng, e, a, kw: None,
                'attr:flask.request.args': lambda eng: Opaque('args'), 'html.escape': lambda eng, e, a, kw: Opaque('esc'),
                'self.create_context': context, 'self.check_for_synthetic_manifest_error': synthetic,
                'flask.render_template': lambda eng, e, a, kw: Obj('Rendered', {'options': kw['options']}),
                'add_allowed_origins': lambda eng, e, a, kw: None, 'flask.make_response': make_response},
        ctors={'ManifestContext': lambda eng, a, kw: Obj('ManifestContext', dict(kw))},
        ensures=[
            ('bad_request', f'(result.status == 400) if {bad} else True'),
            ('synthetic_error_passes_through', f"(result.kind == 'synthetic' and result.status == code) if (not {bad} and synthetic_error) else True"),
            ('manifest', f"(result.status == 200 and result.kind == 'manifest' and result.body.options.patch == ({patch}) and "
                         f"result.body.options.segmentTimeline == {timeline}) if (not {bad} and not synthetic_error) else True"),
            ('cache_lifetime', "(max_age_is(result.headers, (mup_num // mup_den) if has_mup else 60)) "
                               f'if (not {bad} and not synthetic_error) else True'),
        ],
        canaries=['result.status == 400'],
        witness_terms=lambda w: (lambda ev: dict({k: ev(z3.Bool(k)) for k in (
            'bad_options', 'opt_patch', 'opt_timeline', 'feat_timeline', 'mft_timeline', 'synthetic_error', 'has_mup')},
            **{k: ev(z3.Int(k)) for k in ('mup_num', 'mup_den', 'code')})),
    )


def max_age_is(headers, value):
    from pyvc.models.strings import FString
    cc = headers.get('Cache-Control') if isinstance(headers, dict) else None
    if isinstance(cc, FString) and len(cc.parts) == 2 and cc.parts[0] == 'max-age=':
        return zint(cc.parts[1]) == zint(value)
    if isinstance(cc, str) and cc.startswith('max-age=') and cc[8:].isdigit():
        return zint(value) == int(cc[8:])
    return z3.BoolVal(False)


SERVE_MANIFEST = [serve_manifest('live'), serve_manifest('vod')]


# ----------------------------------------------------------------------------- ServePatch.get (C09, the MPD-patch endpoint)
class FeatureSet:
    def __init__(self, w):
        self.w = w

    def contains(self, eng, item):
        return {'patch': self.w['feat_patch'], 'segmentTimeline': self.w['feat_timeline']}[item]


class Modes:
    def __init__(self, w):
        self.w = w

    def contains(self, eng, item):
        if item == 'live':
            return self.w['mode_live_allowed']
        raise Unsupported('mode lookup')


from contracts.errors_fields import CONTEXT_FIELDS


def context_untouched(mpd):
    if not isinstance(mpd, Obj) or mpd.cls != 'ManifestContext':
        return z3.BoolVal(False)
    for name in CONTEXT_FIELDS:
        v = mpd.f.get(name)
        if not isinstance(v, Opaque) or v.what != 'ctx.' + name:
            return z3.BoolVal(False)
    if not isinstance(mpd.f.get('publishTime'), DT) or not isinstance(mpd.f.get('now'), DT):
        return z3.BoolVal(False)
    return z3.And(zint(mpd.f['publishTime'].us) == z3.Int('ctx_publish_us'), zint(mpd.f['now'].us) == z3.Int('ctx_now_us'))


def serve_patch():
    def env(w):
        return {'self': Obj('ServePatch', {}), 'stream': Opaque('stream'), 'manifest': Opaque('name'), 'publish': w['publish_s'],
                'kwargs': {},
                'current_manifest': Obj('DashManifest', {'features': FeatureSet(w), 'restrictions': {'mode': Modes(w)}}),
                'current_stream': Obj('Stream', {'title': Opaque('title')})}

    def calculate_options(eng, e, a, kw):
        if kw.get('mode') != 'live':
            eng.oblige('call', 'calculate_options.mode_is_live', z3.BoolVal(False))
        if eng.branch(eng.world['bad_options']):
            raise PyRaise('ValueError')
        return Obj('OptionsContainer', {'patch': eng.world['opt_patch'], 'segmentTimeline': eng.world['opt_timeline']})

    def update(eng, e, a, kw):
        eng.eval(e.func.value).f.update(kw)

    def context(eng, e, a, kw):
        d = dict(kw)
        if eng.branch(eng.world['has_mup']):
            d['minimumUpdatePeriod'] = Ratio(eng.world['mup_num'], eng.world['mup_den'])
        return d

    def make_response(eng, e, a, kw):
        v = a[0]
        if isinstance(v, tuple):
            return Obj('Response', {'status': v[1], 'kind': 'patch', 'body': v[0], 'headers': v[2]})
        return Obj('Response', {'status': a[1], 'kind': 'error'})
    def manifest_context(eng, a, kw):
        f = dict(kw)
        for name in CONTEXT_FIELDS:
            f[name] = Opaque('ctx.' + name)
        f['publishTime'] = DT(eng.world['ctx_publish_us'])
        f['now'] = DT(eng.world['ctx_now_us'])
        return Obj('ManifestContext', f)
    refused = '(not feat_patch or not feat_timeline or not mode_live_allowed or bad_options)'
    return Contract(
        key=f'{MFR}:ServePatch.get', props=['C09', 'C16'], env=env,
        requires=[('update_period', 'mup_den >= 1 and mup_num >= 0'), ('publish', 'publish_s >= 0')],
        models={'self.calculate_options': calculate_options, 'options.update': update,
                'options.remove_unused_parameters': lambda eng, e, a, kw: None,
                'attr:flask.request.args': lambda eng: Opaque('args'), 'html.escape': lambda eng, e, a, kw: Opaque('esc'),
                'datetime.datetime.fromtimestamp': lambda eng, e, a, kw: DT(zint(a[0]) * 1000000), 'UTC': lambda eng, e, a, kw: Opaque('utc'),
                'self.create_context': context,
                'flask.render_template': lambda eng, e, a, kw: Obj('Rendered', {'options': kw['options'], 'mpd': kw.get('mpd'),
                                                                              'original_publish_time': kw['original_publish_time']}),
                'add_allowed_origins': lambda eng, e, a, kw: None, 'flask.make_response': make_response},
        ctors={'ManifestContext': manifest_context},
        ensures=[
            ('refused_400', f'(result.status == 400) if {refused} else True'),
            # the patch is rendered from the manifest context exactly as ManifestContext built it (the same periods, timing
            # and patch location the full manifest of this instant is rendered from): nothing is edited in between
            ('patch_rendered_from_the_untouched_context', f'context_untouched(result.body.mpd) if not {refused} else True'),
            ('patch_document', "(result.status == 200 and result.kind == 'patch' and result.body.options.patch == True and "
                               "result.body.options.segmentTimeline == True and micros(result.body.original_publish_time) == 1000000 * publish_s) "
                               f'if not {refused} else True'),
            ('cache_lifetime', f'(max_age_is(result.headers, (mup_num // mup_den) if has_mup else 60)) if not {refused} else True'),
        ],
        canaries=['result.status == 400'],
        witness_terms=lambda w: (lambda ev: dict({k: ev(z3.Bool(k)) for k in (
            'bad_options', 'opt_patch', 'opt_timeline', 'feat_timeline', 'feat_patch', 'mode_live_allowed', 'has_mup')},
            **{k: ev(z3.Int(k)) for k in ('mup_num', 'mup_den', 'publish_s', 'ctx_publish_us', 'ctx_now_us')})),
    )


SERVE_PATCH = serve_patch()


def lemma_fires_failure_count_times(w):
    """History: starting from a cleared counter, a 5xx error addressed to a segment fires on requests 1..fc for that
    segment, request fc+1 is served and clears the counter (then the cycle restarts) - by induction over the single-call
    contract: the counter after a firing request k (1 <= k <= fc) is k."""
    k, fc = z3.Int('k'), w['fc']
    c_after = lambda c: z3.If(c + 1 > fc, 0, c + 1)         # 0 stands for "cleared"
    fires = lambda c: c + 1 <= fc
    pc = [fc >= 0, 0 <= k, k <= fc]
    # counter value k (k requests so far): request k+1 fires iff k < fc, and moves the counter to k+1 or clears it
    return pc, z3.And(fires(k) == (k < fc), c_after(k) == z3.If(k < fc, k + 1, 0))


GROUP = Group(
    name='errors', world=world, contracts=[INCREMENT, RESET] + SYNTH + MANIFEST_ERR + SERVE_MANIFEST + [SERVE_PATCH] + INJECTED + [INC_INLINE, RST_INLINE, SCALE_INLINE],
    lemmas=[Lemma('fires_failure_count_times', ['C16'], lemma_fires_failure_count_times)],
    bounded=[{'name': 'c16_options', 'props': ['C16'], 'cmd': ['/venv/bin/python', 'bounded/c16_options.py', '{tier}', '--repo', '{repo}']}],
    assumptions=[
        'C16: flask.session is a mapping; only the one key the call builds (error-<usage>-<code>) is read or written; '
        'one configured (code, position) item per content type (the list loop runs over that concrete one-element list)',
        'C16: flask.make_response(text, code) builds a response with that status',
    ],
    not_covered=['several items addressing the same '
                 'segment with the same code (they share one counter)', 'option parsing of the error lists', 'DRM / time-source / event names: string dispatch outside the verifier\'s reach - '
                 'DRM names only by the bounded stand-in c16_options (labelled bounded)'],
)
