"""Contracts for multi-period streams (C12, C16): ServeMpsMedia.calculate_media_segment_index and the two
period-tiling loops of ManifestContext.  create_period / DashTiming(...) / total_duration are abstract callees."""
import z3
from pyvc.vals import *          # noqa: F401,F403
from pyvc.engine import PyRaise
from pyvc.contract import Contract, Loop, Lemma, Group
from pyvc.models.strings import FString
from contracts import rep as REPG

MRQ = 'dashlive/server/requesthandler/media_requests.py'
MCX = 'dashlive/server/requesthandler/manifest_context.py'
SEC = 1000000


def world():
    w = REPG.world()
    for nm in ('ps_us', 'tref', 'np', 'mp_total', 'mF', 'mE'):
        w[nm] = z3.Int(nm)
    w['pdur'] = z3.Function('pdur', INT, INT)        # duration (us) of the k-th period definition
    w['PS'] = z3.Function('PS', INT, INT)            # prefix sums of pdur
    k = z3.Int('k!ps')
    w['periods_valid'] = z3.And(w['np'] >= 1, w['PS'](0) == 0,
                                z3.ForAll([k], z3.Implies(z3.And(0 <= k, k < w['np']),
                                                          z3.And(w['PS'](k + 1) == w['PS'](k) + w['pdur'](k), w['pdur'](k) >= 1))))
    # period source offset in the representation's timescale (ServeMpsMedia):
    tr = floordiv(w['ps_us'] * w['tref'], z3.IntVal(SEC))
    w['T0'] = z3.Int('T0')
    w['T0_def'] = w['T0'] == z3.If(w['ts'] != w['tref'], floordiv(tr * w['ts'], w['tref']), tr)
    for nm in ('ppk', 'mps_pk', 'period_parent_pk', 'stream_pk', 'seg_num'):
        w[nm] = z3.Int(nm)
    for nm in ('period_missing', 'bad_options', 'media_missing'):
        w[nm] = z3.Bool(nm)
    for nm in ('ast_us', 'depth', 'opt_depth'):
        w[nm] = z3.Int(nm)
    w['instant_us'] = lambda dt: zint(dt.us) if isinstance(dt, DT) else z3.IntVal(-1)
    for nm in ('clock_us', 'drift', 'publish_us', 'tsbd', 'mup_n', 'mup_d', 'media_us'):
        w[nm] = z3.Int(nm)
    w['drift_none'] = z3.Bool('drift_none')
    w['has_field'] = lambda o, k: z3.BoolVal(k in o.f)
    w['primary_profiles'] = {'live': 'profile-live', 'vod': 'profile-vod', 'odvod': 'profile-odvod'}
    w['additional_profiles'] = {'dvb': 'profile-dvb'}
    w['params_of'] = lambda period, k, kind: z3.BoolVal(
        isinstance(period.f['adaptationSets'], PyList) and len(period.f['adaptationSets'].items) > k and
        period.f['adaptationSets'].items[k].f.get('got_params') == {'k': kind} and
        period.f['adaptationSets'].items[k].f['content_type'] == kind)
    w['__ctors__'] = dict(w['__ctors__'])
    w['__ctors__'].update({'SegmentPosition': lambda eng, a, kw: tuple(a)})
    return w


# ----------------------------------------------------------------------------- ServeMpsMedia index
def mps_index(kind):
    def env(w):
        return {'self': Obj('ServeMpsMedia', {}), 'mode': 'vod', 'representation': REPG.rep_obj(w, 'vod'),
                'timing': Opaque('timing'),
                'seg_num': z3.Int('seg_num') if kind == 'number' else None,
                'seg_time': z3.Int('seg_time') if kind == 'time' else None}

    def period(eng):
        w = eng.world
        ref = Obj('StreamTimingReference', {'timescale': w['tref']})
        return Obj('Period', {'start': TD(w['ps_us']), 'stream': Obj('Stream', {'timing_reference': ref})})
    tc = 'T0' if kind == 'number' else '(T0 + seg_time)'
    m0 = f'Mof({tc})'
    if kind == 'number':
        ens = [('segment', f'result[0] == {m0} + (seg_num - sn) and result[2] == seg_num'), ('number_echo', 'result[2] == seg_num'),
               ('stored_segment', '1 <= result[0] and result[0] <= n')]
        gs = REPG.gsi(tc, '(result[0] - (seg_num - sn))', '(-result[1])',
                      '(-result[1] - S(result[0] - (seg_num - sn) - 1))')
        # a number before the period's first segment is refused like one past its end (ValueError -> 404)
        raises = {'ValueError': f'seg_num < sn or {m0} + (seg_num - sn) > n'}
        req_extra = []
    else:
        ens = [('segment', f'result[0] == {m0}'), ('stored_segment', '1 <= result[0] and result[0] <= n'),
               ('number_echo', 'is_none(result[2])')]
        gs = REPG.gsi(tc, 'result[0]', '(seg_time - result[1])', '(seg_time - result[1] - S(result[0] - 1))')
        raises = {}
        req_extra = [('time_nonneg', 'seg_time >= 0')]
    return Contract(
        key=f'{MRQ}:ServeMpsMedia.calculate_media_segment_index', variant=kind, props=['C12', 'C16'],
        env=env,
        requires=REPG.BASIC + [('period_start', 'ps_us >= 0'), ('tref', 'tref >= 1')] + req_extra,
        defs=['T0_def'],
        models={'attr:flask.g.period': period},
        raises=raises,
        ensures=ens + [(lab, t) for lab, t in gs if lab not in ('start', 'range', 'which')],
        canaries=['result[0] == 1'],
        witness_terms=lambda w: (lambda ev: dict(REPG.witness(('seg_num', 'seg_time'))(w)(ev),
                                                 ps_us=ev(w['ps_us']), tref=ev(w['tref']))),
    )


MPS_INDEX = [mps_index('number'), mps_index('time')]
for _c in MPS_INDEX:
    _c.applies = (lambda k: lambda fr: (fr['seg_time'] is None) if k == 'number' else (fr['seg_num'] is None))(_c.variant)
    # the third component is the seg_num argument handed back unchanged (None for a $Time$ request) - see `number_echo`
    _c.result = lambda eng, frame: (fresh('mod_segment'), fresh('origin_time'), frame['seg_num'])


# ----------------------------------------------------------------------------- the media-segment handler, period flavour
def mps_gms(kind, content_type):
    """MediaRequestBase.generate_media_segment with self a ServeMpsMedia: checked against the contract of
    ServeMpsMedia.calculate_media_segment_index at its call site (see contracts/rep.py for the observables)"""
    callee = next(c for c in MPS_INDEX if c.variant == kind)
    origin = '(result.data.tfdt - TF(served_mod))'

    def env(w):
        rep = REPG.rep_obj(w, 'vod')
        rep.f['encrypted'] = False
        return {'self': Obj('ServeMpsMedia', {}), 'stream': Obj('Stream', {'timing_reference': REPG.ref_obj(w)}),
                'media_file': Obj('MediaFile', {'representation': rep, 'content_type': content_type, 'track_id': w['track_id'],
                                                'name': Opaque('name'), 'codec_fourcc': Opaque('fourcc')}),
                'mode': 'vod',
                'options': Obj('OptionsContainer', {'mode': 'vod', 'segmentTimeline': kind == 'time', 'videoCorruption': None}),
                'seg_num': z3.Int('seg_num') if kind == 'number' else None,
                'seg_time': z3.Int('seg_time') if kind == 'time' else None}
    subst = lambda t: t.replace('result[1]', origin).replace('result[0]', 'served_mod').replace('result[2]', 'result.data.sequence_number')
    served = [(lab, subst(t)) for lab, t in callee.ensures if lab != 'number_echo'] + [('no_sidx', 'not result.data.has_sidx')]
    if kind == 'number':
        status = [('refused', f"(result.status == 404) == ({callee.raises['ValueError']})")]
    else:
        status = [('never_refused', 'result.status == 200')]
        served.append(('served_number_from_callee', 'True'))
    return Contract(
        key=f'{MRQ}:MediaRequestBase.generate_media_segment', variant=f'mps-{kind}-{content_type}',
        props=['C12', 'C16'], env=env,
        requires=list(callee.requires), defs=list(callee.defs),
        models=REPG.gms_models(True),
        ctors={'AdaptationSet': lambda eng, a, kw: Obj('AdaptationSet', {'content_type': kw['content_type'],
                                                                         'representations': PyList([])}),
               'DashTiming': lambda eng, a, kw: Opaque('timing')},
        ensures=[('status', 'result.status == 404 or result.status == 200')] + status +
                [(lab, f'True if result.status == 404 else ({t})') for lab, t in served],
        canaries=['result.status == 404'],
        witness_terms=callee.witness_terms,
    )


# ----------------------------------------------------------------------------- period route ownership (C12 mechanism 4)
def mps_get_contract():
    """ServeMpsMedia.get: a period that does not exist or belongs to another multi-period stream is 404; bad options
    400; unknown media file 404; otherwise the segment is generated from THAT period's stream and media file, with
    flask.g.period / flask.g.stream set to it."""
    def env(w):
        return {'self': Obj('ServeMpsMedia', {}), 'mode': 'vod', 'mps_name': Opaque('mps'), 'ppk': z3.Int('ppk'),
                'filename': Opaque('filename'), 'ext': 'mp4', 'segment_num': z3.Int('seg_num'), 'segment_time': None,
                'current_mps': Obj('MultiPeriodStream', {'pk': z3.Int('mps_pk')}),
                '__g__': Obj('FlaskG', {'period': None, 'stream': None})}

    def period_get(eng, e, a, kw):
        stream = Obj('Stream', {'pk': z3.Int('stream_pk')})
        return Opt(z3.Bool('period_missing'), Obj('Period', {'parent_pk': z3.Int('period_parent_pk'), 'stream': stream,
                                                              'pk': kw['pk']}))

    def calculate_options(eng, e, a, kw):
        if eng.branch(z3.Bool('bad_options')):
            raise PyRaise('ValueError')
        return Obj('OptionsContainer', {'for_stream': a[2]})

    def media_get(eng, e, a, kw):
        return Opt(z3.Bool('media_missing'), Obj('MediaFile', {'stream_pk': kw['stream_pk'], 'name': kw['name']}))

    def generate(eng, e, a, kw):
        g = eng.lookup('__g__')
        return Obj('Response', {'status': 200, 'generated_for': kw, 'g_period': g.f['period'], 'g_stream': g.f['stream']})

    def make_response(eng, e, a, kw):
        return Obj('Response', {'status': a[1], 'body': a[0]})
    owned = '(not period_missing and period_parent_pk == mps_pk)'
    return Contract(
        key=f'{MRQ}:ServeMpsMedia.get', props=['C12', 'C16'], env=env,
        models={'models.Period.get': period_get, 'self.calculate_options': calculate_options, 'models.MediaFile.get': media_get,
                'self.generate_media_segment': generate, 'flask.make_response': make_response,
                'attr:flask.g': lambda eng: eng.lookup('__g__'), 'attr:flask.request.args': lambda eng: Opaque('args')},
        ensures=[
            ('foreign_period_404', f'(result.status == 404) if not {owned} else True'),
            ('bad_options_400', f'(result.status == 400) if ({owned} and bad_options) else True'),
            ('unknown_media_404', f'(result.status == 404) if ({owned} and not bad_options and media_missing) else True'),
            ('generated_from_the_period', f"(result.status == 200 and result.generated_for['stream'].pk == stream_pk and "
                                          "result.generated_for['media_file'].stream_pk == stream_pk and "
                                          "result.generated_for['seg_num'] == seg_num and is_none(result.generated_for['seg_time']) and "
                                          "result.g_period.pk == ppk and result.g_stream.pk == stream_pk) "
                                          f'if ({owned} and not bad_options and not media_missing) else True'),
        ],
        canaries=['result.status == 404'],
        witness_terms=lambda w: (lambda ev: dict({k: ev(z3.Int(k)) for k in ('ppk', 'mps_pk', 'period_parent_pk', 'stream_pk', 'seg_num')},
                                                 **{k: ev(z3.Bool(k)) for k in ('period_missing', 'bad_options', 'media_missing')})),
    )


MPS_GET = mps_get_contract()


# ----------------------------------------------------------------------------- create_period: the window the URLs carry (C01)
def create_period_contract():
    """ManifestContext.create_period (single-period flavour): when a DashTiming is given, the options' availabilityStartTime
    and timeShiftBufferDepth are the timing's RESOLVED values at the moment the media URL parameters are computed - that is what
    lets a segment request rebuild the same availability window (C01 mechanism 6) - and every adaptation set gets the
    parameter set of its own media type."""
    def env(w):
        timing = Obj('DashTiming', {'availabilityStartTime': DT(z3.Int('ast_us')), 'timeShiftBufferDepth': z3.Int('depth')})
        opts = Obj('OptionsContainer', {'abr': True, 'mode': 'live', 'encrypted': False, 'segmentTimeline': False, 'useBaseUrls': True,
                                        'availabilityStartTime': Opaque('symbolic-start'), 'timeShiftBufferDepth': z3.Int('opt_depth')})
        me = Obj('ManifestContext', {'options': opts, 'cgi_params': None, 'locationURL': None})
        return {'self': me, 'stream': Obj('Stream', {'directory': Opaque('dir')}), 'timing': timing, 'db_period': None}

    def adp(kind):
        return Obj('AdaptationSet', {'content_type': kind, 'lang': Opaque('lang'), 'encrypted': False, 'got_params': None,
                                     'event_streams': PyList([])})

    def cgi(eng, e, a, kw):
        opts = eng.lookup('self').f['options']
        eng.ghost_env['ast_at_url_time'] = opts.f['availabilityStartTime']
        eng.ghost_env['depth_at_url_time'] = opts.f['timeShiftBufferDepth']
        return Obj('CgiParameterCollection', {'video': {'k': 'video'}, 'audio': {'k': 'audio'}, 'text': {'k': 'text'},
                                              'manifest': {}, 'patch': {}, 'time': {}})

    def append_params(eng, e, a, kw):
        eng.eval(e.func.value).f['got_params'] = a[0]
    period = lambda eng, a, kw: Obj('Period', dict(kw, adaptationSets=PyList([]), event_streams=PyList([]), baseURL=Opaque('base')))
    return Contract(
        key=f'{MCX}:ManifestContext.create_period', props=['C01', 'C16'], env=env,
        models={'self.calculate_video_adaptation_set': lambda eng, e, a, kw: adp('video'),
                'self.calculate_audio_adaptation_sets': lambda eng, e, a, kw: PyList([adp('audio'), adp('audio')]),
                'self.calculate_text_adaptation_sets': lambda eng, e, a, kw: PyList([adp('text')]),
                'self.update_timing': lambda eng, e, a, kw: None, 'self.calculate_cgi_parameters': cgi,
                'video.append_cgi_params': append_params, 'audio.append_cgi_params': append_params, 'text.append_cgi_params': append_params,
                'EventFactory.create_event_generators': lambda eng, e, a, kw: PyList([]),
                'flask.url_for': lambda eng, e, a, kw: Opaque('url'), 'period.finish_setup': lambda eng, e, a, kw: None,
                'is_https_request': lambda eng, e, a, kw: False},
        ctors={'Period': period},
        modifies=['self.options.availabilityStartTime', 'self.options.timeShiftBufferDepth', 'self.cgi_params', 'self.locationURL'],
        ensures=[('urls_carry_the_resolved_window', 'instant_us(ast_at_url_time) == ast_us and depth_at_url_time == depth'),
                 ('options_keep_the_resolved_window', 'instant_us(self.options.availabilityStartTime) == ast_us and self.options.timeShiftBufferDepth == depth'),
                 ('each_type_gets_its_own_parameters', "params_of(result, 0, 'video') and params_of(result, 1, 'audio') and "
                                                       "params_of(result, 2, 'audio') and params_of(result, 3, 'text') and "
                                                       'length(result.adaptationSets) == 4')],
        canaries=['depth_at_url_time == opt_depth'],
        witness_terms=lambda w: (lambda ev: {k: ev(z3.Int(k)) for k in ('ast_us', 'depth', 'opt_depth')}),
    )


CREATE_PERIOD = create_period_contract()


def context_init_contract(variant, patch):
    """ManifestContext.__init__ (single-period flavour, live): the one period is created from a DashTiming built for the
    request instant itself - now = wall clock minus the requested clock drift, the instant segment requests are judged
    against (C01) - and the patch location names that timing's publishTime in whole seconds with
    ttl = max(timeShiftBufferDepth, ceil(minimumUpdatePeriod)) (C09)."""
    def env(w):
        opts = Obj('OptionsContainer', {'clockDrift': Opt(z3.Bool('drift_none'), z3.Int('drift')), 'mode': 'live', 'utcMethod': None,
                                        'patch': patch})
        stream = Obj('Stream', {'directory': Opaque('dir'), 'title': Opaque('title'),
                                'timing_reference': Obj('StreamTimingReference', {})})
        mft = Obj('DashManifest', {'name': Opaque('manifest-name')})
        return {'self': Obj('ManifestContext', {}), 'options': opts, 'manifest': mft, 'stream': stream, 'multi_period': None}

    def dash_timing(eng, a, kw):
        eng.ghost_env['timings_built'] = eng.ghost_env.get('timings_built', 0) + 1
        return Obj('DashTiming', {'now': a[0], 'ref': a[1], 'options': a[2], 'publishTime': DT(z3.Int('publish_us')),
                                  'timeShiftBufferDepth': z3.Int('tsbd'), 'minimumUpdatePeriod': Ratio(z3.Int('mup_n'), z3.Int('mup_d'))})

    def create_period(eng, e, a, kw):
        me = eng.lookup('self')
        me.f['cgi_params'] = Obj('CgiParameterCollection', {'patch': {}})
        return Obj('Period', {'stream': a[0], 'timing': a[1], 'db_period': kw.get('db_period')})
    ens = [('now_is_the_request_clock_minus_drift', 'instant_us(self.now) == clock_us - (0 if (drift_none or drift == 0) else 1000000 * drift)'),
           ('one_period', 'length(self.periods) == 1'),
           ('period_timing_is_for_the_request_instant', 'instant_us(self.periods[0].timing.now) == instant_us(self.now) and '
                                                        'self.periods[0].timing.ref is stream.timing_reference and '
                                                        'self.periods[0].timing.options is options'),
           ('period_of_the_stream', 'self.periods[0].stream is stream')]
    if patch:
        ens += [('patch_names_the_publish_second', 'self.patch.location.publish == publish_us // 1000000'),
                ('patch_ttl', 'self.patch.ttl == max(tsbd, -((-mup_n) // mup_d))'),
                ('patch_route', "self.patch.location.route == 'mpd-patch' and self.patch.location.stream is stream.directory and "
                                'self.patch.location.manifest is manifest.name')]
    else:
        ens += [('no_patch_location', "not has_field(self, 'patch')")]
    return Contract(
        key=f'{MCX}:ManifestContext.__init__', variant=variant, props=['C01', 'C09'], env=env,
        requires=[('update_period', 'mup_d >= 1 and mup_n >= 0'), ('depth', 'tsbd >= 0'), ('drift', 'drift >= 0'), ('publish', 'publish_us >= 0')],
        models={'datetime.datetime.now': lambda eng, e, a, kw: DT(z3.Int('clock_us')), 'UTC': lambda eng, e, a, kw: Opaque('utc'),
                'self.create_period': create_period,
                'self.timing_ref.media_duration_timedelta': lambda eng, e, a, kw: TD(z3.Int('media_us')),
                'flask.url_for': lambda eng, e, a, kw: Obj('Url', dict(kw, route=a[0]))},
        ctors={'DashTiming': dash_timing, 'PatchLocation': lambda eng, a, kw: Obj('PatchLocation', dict(kw))},
        ensures=ens,
        canaries=['instant_us(self.now) == publish_us'],
        witness_terms=lambda w: (lambda ev: dict({k: ev(z3.Int(k)) for k in ('clock_us', 'drift', 'publish_us', 'tsbd', 'mup_n', 'mup_d', 'media_us')},
                                                 drift_none=ev(z3.Bool('drift_none')))),
    )


CONTEXT_INIT = [context_init_contract('live-patch', True), context_init_contract('live', False)]


def mps_init_get_contract():
    """ServeMpsInitSeg.get: same ownership / option / media checks, then the init segment of THAT period's media file"""
    base = MPS_GET

    def env(w):
        e = base.env(w)
        e['self'] = Obj('ServeMpsInitSeg', {})
        del e['segment_num'], e['segment_time']
        return e
    m = dict(base.models)
    m['self.generate_init_segment'] = lambda eng, e, a, kw: Obj('Response', {'status': 200, 'media': a[0], 'mode': a[1], 'options': a[2]})
    owned = '(not period_missing and period_parent_pk == mps_pk)'
    return Contract(
        key=f'{MRQ}:ServeMpsInitSeg.get', props=['C12', 'C16'], env=env, models=m,
        ensures=[e for e in base.ensures if e[0] != 'generated_from_the_period'] +
                [('init_of_the_period', f"(result.status == 200 and result.media.stream_pk == stream_pk and result.mode == 'vod' and "
                                        f"result.options.for_stream.pk == stream_pk) if ({owned} and not bad_options and not media_missing) else True")],
        canaries=['result.status == 404'],
        witness_terms=base.witness_terms,
    )


MPS_INIT_GET = mps_init_get_contract()

MPS_GMS = [mps_gms('number', 'video'), mps_gms('number', 'audio')]      # $Time$ requests: known finding C12-mps-time-request-asserts


def lemma_mps_decode_times(w):
    """C12: with the handler's glue (served tfdt = stored tfdt(m) + origin_time, stored tfdt(m) = t0 + S(m-1), t0 = 0)
    number sn+k of a Period delivers source segment m0+k with decode time S(m0+k-1) - S(m0-1) - org0: zero for k = 0
    when the Period's source offset lies in the first loop and on a segment start, and gapless from one number to
    the next (difference = the stored duration of segment m0+k)."""
    n, S, d = w['n'], w['S'], w['d']
    m0, st0, org0, k = z3.Ints('m0 st0 org0 k')
    served = lambda kk: S(m0 + kk - 1) + (-st0)
    pc = [w['rep_valid'], 1 <= m0, k >= 0, m0 + k + 1 <= n, st0 == org0 + S(m0 - 1)]
    return pc, z3.And(served(0) == -org0, served(k + 1) - served(k) == d(m0 + k))


# ----------------------------------------------------------------------------- period tiling
PERIOD_FIELDS = {'start': 'opt_int', 'duration': 'opt_int', 'src': INT, 'loop': INT}


def mctx_obj(w):
    return Obj('ManifestContext', {'now': DT(z3.Int('now')), 'options': Obj('OptionsContainer', {'segmentTimeline': z3.Bool('segmentTimeline')}),
                                   'periods': ArrList('periods', PERIOD_FIELDS, length=z3.IntVal(0), elem_cls='Period')})


def mp_obj(w):
    def elem_dur(i):
        return TD(w['pdur'](i))
    periods = SeqFn('mp.periods', {'duration': elem_dur, 'stream': lambda i: Obj('Stream', {'timing_reference': Opaque('ref')}), 'index': lambda i: i},
                    w['np'], 'DbPeriod')
    return Obj('MultiPeriodStream', {'periods': periods, 'name': Opaque('name')})


def model_create_period(eng, e, args, kw):
    db = kw['db_period']
    return Obj('Period', {'id': Opaque('pid'), 'start': None, 'duration': db.f['duration'], 'src': db.f['index'], 'loop': 0})


def set_period_id(eng, obj, val):
    obj.f['id'] = val
    if isinstance(val, FString):
        obj.f['loop'] = val.parts[-1]


def model_total_duration(eng, e, args, kw):
    return TD(eng.world['mp_total'])


def model_dash_timing(eng, args, kw):
    w = eng.world
    return Obj('DashTiming', {'availabilityStartTime': DT(z3.Int('ast')), 'firstAvailableTime': TD(w['mF']),
                              'elapsedTime': TD(w['mE'])})


def periods_witness(w):
    def wt(ev):
        n = ev(w['np'])
        out = {'np': n, 'mF': ev(w['mF']), 'mE': ev(w['mE']), 'segmentTimeline': ev(z3.Bool('segmentTimeline'))}
        if isinstance(n, int) and 0 <= n <= 32:
            out['pdur'] = [ev(w['pdur'](z3.IntVal(k))) for k in range(n)]
        return out
    return wt


COMMON = dict(
    models={'self.create_period': model_create_period, 'setattr:Period.id': set_period_id,
            'multi_period.total_duration': model_total_duration,
            'list': lambda eng, e, args, kw: args[0]},
    ctors={'DashTiming': model_dash_timing, 'StreamTimingReference': lambda eng, a, kw: Obj('StreamTimingReference', dict(kw))},
)

VOD_PERIODS = Contract(
    key=f'{MCX}:ManifestContext.create_all_vod_periods', props=['C12'],
    env=lambda w: {'self': mctx_obj(w), 'multi_period': mp_obj(w)},
    requires=[('periods_valid', 'periods_valid')],
    modifies=['self.periods'],
    loops={0: Loop(
        invariant=[('it', '0 <= _it0 and _it0 <= np'),
                   ('len', 'length(self.periods) == _it0'),
                   # the running total, where the code keeps it in a local called `start` (a temporary, not part of the property)
                   ('start', "(micros(start) == PS(_it0)) if bound('start') else True"),
                   ('listed', 'forall(lambda k: optval(self.periods[k].start) == PS(k) and not is_none(self.periods[k].start) and '
                              'not is_none(self.periods[k].duration) and optval(self.periods[k].duration) == pdur(k) and '
                              'self.periods[k].src == k, 0, length(self.periods))')],
        variant=['_hi0 - _it0'])},
    ensures=[('all_listed', 'length(self.periods) == np'),
             ('contiguous', 'forall(lambda k: optval(self.periods[k].start) == optval(self.periods[k - 1].start) + '
                            'optval(self.periods[k - 1].duration), 1, length(self.periods))'),
             ('first_at_zero', 'optval(self.periods[0].start) == 0'),
             ('durations', 'forall(lambda k: optval(self.periods[k].duration) == pdur(k) and self.periods[k].src == k, 0, np)'),
             ('total', 'optval(self.periods[np - 1].start) + optval(self.periods[np - 1].duration) == PS(np)')],
    canaries=['length(self.periods) == 1'], witness_terms=periods_witness,
    **COMMON,
)

LIVE_PERIODS = Contract(
    key=f'{MCX}:ManifestContext.create_all_live_periods', props=['C12', 'C16'],
    env=lambda w: {'self': mctx_obj(w), 'multi_period': mp_obj(w)},
    requires=[('periods_valid', 'periods_valid'), ('total', 'mp_total == PS(np) and mp_total >= 1'),
              ('clock', '0 <= mF and mF <= mE')],
    modifies=['self.periods'],
    loops={0: Loop(
        ghost={'loops0': 'num_loops'},
        invariant=[('index', '0 <= index and index < np and num_loops >= loops0 and loops0 >= 0'),
                   ('start', 'micros(start) == mp_total * num_loops + PS(index)'),
                   ('begin', 'micros(start) <= mF if length(self.periods) == 0 else True'),
                   ('nodes', 'forall(lambda k: not is_none(self.periods[k].start) and not is_none(self.periods[k].duration) and '
                             'optval(self.periods[k].duration) >= 1 and 0 <= self.periods[k].src and self.periods[k].src < np and '
                             'optval(self.periods[k].start) == mp_total * self.periods[k].loop + PS(self.periods[k].src) and '
                             'optval(self.periods[k].duration) == pdur(self.periods[k].src), 0, length(self.periods))'),
                   ('contiguous', 'forall(lambda k: optval(self.periods[k].start) == optval(self.periods[k - 1].start) + '
                                  'optval(self.periods[k - 1].duration), 1, length(self.periods))'),
                   ('order', 'forall(lambda j, k: (self.periods[j].loop < self.periods[k].loop or '
                             '(self.periods[j].loop == self.periods[k].loop and self.periods[j].src < self.periods[k].src)) '
                             'if (j < k and k < length(self.periods)) else True, 0, None)'),
                   ('bounded_by_current', 'forall(lambda k: self.periods[k].loop < num_loops or '
                                          '(self.periods[k].loop == num_loops and self.periods[k].src < index), 0, length(self.periods))'),
                   ('after_first', 'True if length(self.periods) == 0 else micros(start) >= mF'),
                   ('first_covers', 'True if length(self.periods) == 0 else (optval(self.periods[0].start) <= mF and '
                                    'optval(self.periods[0].start) + optval(self.periods[0].duration) >= mF)'),
                   ('last', 'True if length(self.periods) == 0 else ('
                            'optval(self.periods[length(self.periods) - 1].start) + optval(self.periods[length(self.periods) - 1].duration) '
                            '== micros(start))')],
        variant=['mE - micros(start)'])},
    ensures=[('nonempty', 'length(self.periods) >= 1'),
             ('contiguous', 'forall(lambda k: optval(self.periods[k].start) == optval(self.periods[k - 1].start) + '
                            'pdur(self.periods[k - 1].src), 1, length(self.periods))'),
             ('covers_window', 'optval(self.periods[0].start) <= mF and '
                               'optval(self.periods[length(self.periods) - 1].start) + pdur(self.periods[length(self.periods) - 1].src) > mE'),
             ('ids_unique', 'forall(lambda j, k: (self.periods[j].loop != self.periods[k].loop or self.periods[j].src != self.periods[k].src) '
                            'if (j < k and k < length(self.periods)) else True, 0, None)')],
    canaries=['length(self.periods) == 1'], witness_terms=periods_witness,
    **COMMON,
)


GROUP = Group(
    name='mps', world=world, contracts=MPS_INDEX + [VOD_PERIODS, LIVE_PERIODS] + MPS_GMS + [MPS_GET, MPS_INIT_GET, CREATE_PERIOD] + CONTEXT_INIT,
    lemmas=[Lemma('mps_decode_times', ['C12'], lemma_mps_decode_times)],
    assumptions=[
        'C12: create_period returns a Period whose duration is the stored duration of the definition it was given; '
        'DashTiming(...) and total_duration() are abstract (total == sum of the period durations, every duration >= 1 us)',
        'C12: float conversions in ServeMpsMedia.calculate_media_segment_index are exact real arithmetic',
        'C12: period ids are `<pid>_<num_loops>`: uniqueness per repetition is proved for the pair (definition index, loop), '
        'given distinct pids per definition',
    ],
    not_covered=['byte identity of the delivered payload, 404 routing, mediaPresentationDuration template, init segments',
                 'the handler glue that applies origin_time to the stored tfdt is under contract in group rep '
                 '(generate_media_segment variants; multi-period: number addressing only - $Time$ is a known finding)'],
)
GROUP.callees = [REPG.GET_SEGMENT_INDEX]
