"""C10 (reduced scope): what an initialization-segment response adds to / removes from the stored init segment.

  MediaRequestBase.generate_init_segment : one pssh appended to moov per DRM context that has a `moov` hook, in the order
        the DrmContext yields them, each built by that hook for the representation's default KID; mehd removed exactly in
        live mode; clear tracks get nothing appended; an unindexed media file is 404.
  PlayReady / ClearKey / Marlin .generate_manifest_context : the `moov` (and cenc / pro) hooks exist exactly for the
        requested locations (Marlin: never; PlayReady cenc only above version 1.0).
  PlayReady.generate_pssh / ClearKey.generate_pssh : SystemID, version, key-id list and payload of the box.
The encoding of the pssh box itself is proved in group mp4 (C04/C11)."""
import z3
from pyvc.vals import *          # noqa: F401,F403
from pyvc.contract import Contract, Loop, Lemma, Group
from pyvc.engine import PyRaise

MRQ = 'dashlive/server/requesthandler/media_requests.py'
PR = 'dashlive/drm/playready.py'
CK = 'dashlive/drm/clearkey.py'
ML = 'dashlive/drm/marlin.py'
BOOLS = ('has_representation', 'encrypted', 'has_mehd', 'pr_selected', 'pr_moov', 'ck_selected', 'ck_moov', 'ml_selected',
         'loc_moov', 'loc_cenc', 'loc_pro')


def world():
    w = {b: z3.Bool(b) for b in BOOLS}
    w['order_is'] = lambda x, *names: z3.BoolVal(isinstance(x, PyList) and list(x.items) == list(names))
    w['is_hook'] = lambda x: z3.BoolVal(isinstance(x, Closure))
    w['same'] = lambda a, b: z3.BoolVal(a is b)
    w['kid_names'] = lambda xs, *names: z3.BoolVal(isinstance(xs, PyList) and [getattr(x, 'what', None) for x in xs.items] == [f'raw:{n}' for n in names])
    w['__bases__'] = {}
    w['is_impl'] = lambda x, cls: z3.BoolVal(isinstance(x, Obj) and x.cls == cls)
    w['is_locations'] = lambda x, name: z3.BoolVal(isinstance(x, Opaque) and x.what == f'locations:{name}')

    def built_by(ctx, cls, name):
        f = ctx.f if isinstance(ctx, Obj) else {}
        ok = f.get('by') == cls and isinstance(f.get('locations'), Opaque) and f['locations'].what == f'locations:{name}' and \
            isinstance(f.get('options'), Opaque) and f['options'].what == f'options:{name}' and \
            isinstance(f.get('la_url'), Opaque) and f['la_url'].what == f'la_url:{name}_la_url'
        return z3.BoolVal(bool(ok))
    w['built_by'] = built_by
    w['is_named'] = lambda x, n: z3.BoolVal(isinstance(x, Opaque) and x.what == n)
    w['names_are'] = lambda xs, names: z3.BoolVal(isinstance(xs, PyList) and [getattr(x, 'what', None) for x in xs.items] == list(names.items if isinstance(names, PyList) else names))
    w['__inline_ctors__'] = {'DrmContextIterator': 'dashlive/server/requesthandler/drm_context.py'}
    return w


def wt(w):
    return lambda ev: {b: ev(w[b]) for b in BOOLS}


# ----------------------------------------------------------------------------- the handler
def init_segment(mode):
    def env(w):
        rep = Obj('Representation', {'encrypted': w['encrypted'], 'kids': PyList([Opaque('kid_a'), Opaque('kid_b')]), 'default_kid': Opaque('default_kid')})
        return {'self': Obj('LiveMedia', {}), 'mode': mode, 'options': Obj('OptionsContainer', {}),
                'media': Obj('MediaFile', {'representation': Opt(z3.Not(w['has_representation']), rep), 'content_type': 'video',
                                           'codec_fourcc': Opaque('fourcc')}),
                'current_stream': Opaque('stream')}

    def load_fragment(eng, e, a, kw):
        if a[1] != 0:
            raise Unsupported('init segment is fragment 0')
        # ISO/IEC 14496-12: mehd lives in moov/mvex (never directly in moov)
        moov = Obj('MoovBox', {'children': PyList(['mvhd', 'mvex', 'trak']), 'mvex': Obj('MvexBox', {})})
        atom = Obj('Wrapper', {'moov': moov})
        eng.ghost_env['__atom__'] = atom
        return atom

    def del_mehd(eng, mvex):
        if not eng.branch(eng.world['has_mehd']):
            raise PyRaise('AttributeError')
        eng.ghost_env['__atom__'].f['moov'].f['mehd_removed'] = True

    def del_moov_mehd(eng, moov):
        raise PyRaise('AttributeError')          # moov has no mehd child

    def drm_context(eng, a, kw):
        w = eng.world
        out = []
        for name, sel, moov in (('clearkey', 'ck_selected', 'ck_moov'), ('marlin', 'ml_selected', None), ('playready', 'pr_selected', 'pr_moov')):
            if not eng.branch(w[sel]):
                continue
            hook = None
            if moov is not None and eng.branch(w[moov]):
                hook = (lambda n: (lambda kid: Obj('PsshBox', {'system': n, 'for_kid': kid})))(name)
            out.append(Obj('DrmManifestContext', {'system': name, 'moov': hook}))
        return PyList(out)

    def append_child(eng, e, a, kw):
        eng.eval(e.func.value).f['children'].items.append(a[0])

    def encode(eng, e, a, kw):
        moov = eng.eval(e.func.value).f['moov']
        return Obj('Encoded', {'children': PyList(list(moov.f['children'].items)), 'mehd_removed': moov.f.get('mehd_removed', False)})

    def make_response(eng, e, a, kw):
        v = a[0]
        if isinstance(v, tuple):
            return Obj('Response', {'data': v[0], 'status': v[1]})
        return Obj('Response', {'data': None, 'status': a[1]})
    live = mode == 'live'
    # which pssh boxes: DrmContext yields systems in name order (clearkey, marlin, playready)
    cases = []
    for ck in (False, True):
        for pr in (False, True):
            cond = f"({'ck_selected and ck_moov' if ck else 'not (ck_selected and ck_moov)'}) and " \
                   f"({'pr_selected and pr_moov' if pr else 'not (pr_selected and pr_moov)'})"
            names = ["'mvhd'", "'mvex'", "'trak'"] + (["'pssh:clearkey'"] if ck else []) + (["'pssh:playready'"] if pr else [])
            cases.append((cond, names))
    appended = ' and '.join(f"(children_are(result.data.children, {', '.join(n)}) if (encrypted and {c}) else True)" for c, n in cases)
    return Contract(
        key=f'{MRQ}:MediaRequestBase.generate_init_segment', variant=mode, props=['C10', 'C16'], env=env,
        models={'self.check_for_synthetic_http_error': lambda eng, e, a, kw: None, 'self.load_fragment': load_fragment,
                'models.Key.get_kids': lambda eng, e, a, kw: Opaque('keys'),
                'atom.moov.append_child': append_child, 'delattr:MvexBox.mehd': del_mehd, 'delattr:MoovBox.mehd': del_moov_mehd, 'atom.encode': encode,
                'content_type_to_mime_type': lambda eng, e, a, kw: Opaque('mime'),
                'add_allowed_origins': lambda eng, e, a, kw: None, 'flask.make_response': make_response},
        ctors={'DrmContext': drm_context},
        ensures=[
            ('not_indexed_404', 'result.status == 404 if not has_representation else result.status == 200'),
            ('clear_track_unchanged', "children_are(result.data.children, 'mvhd', 'mvex', 'trak') if (has_representation and not encrypted) else True"),
            ('one_pssh_per_system_with_a_moov_hook', f'({appended}) if has_representation else True'),
            ('pssh_for_the_default_kid', 'pssh_all_for_default_kid(result.data.children) if has_representation else True'),
            ('mehd_removed_iff_live', f'(result.data.mehd_removed == ({"has_mehd" if live else "False"})) if has_representation else True'),
        ],
        canaries=['result.status == 404'],
        witness_terms=wt,
    )


def children_are(x, *names):
    if not isinstance(x, PyList) or len(x.items) != len(names):
        return z3.BoolVal(False)
    ok = True
    for it, n in zip(x.items, names):
        if n.startswith('pssh:'):
            ok = ok and isinstance(it, Obj) and it.cls == 'PsshBox' and it.f['system'] == n[5:]
        else:
            ok = ok and it == n
    return z3.BoolVal(ok)


def pssh_all_for_default_kid(x):
    return z3.BoolVal(all((not isinstance(it, Obj)) or (isinstance(it.f['for_kid'], Opaque) and it.f['for_kid'].what == 'default_kid')
                          for it in x.items))


INIT = [init_segment('live'), init_segment('vod')]


# ----------------------------------------------------------------------------- locations -> hooks
class Locations:
    """a set of DrmLocation members whose membership is symbolic (the set asked for, or a set computed from it)"""
    py_types = ('set', 'frozenset', 'AbstractSet')

    def __init__(self, w, members=None):
        self.w = w
        self.members = members if members is not None else {'moov': w['loc_moov'], 'cenc': w['loc_cenc'], 'pro': w['loc_pro']}

    def clone_model(self):
        return Locations(self.w, dict(self.members))

    def contains(self, eng, item):
        return self.members.get(item, z3.BoolVal(False))

    def truthy(self):
        return z3.Or(*self.members.values()) if self.members else z3.BoolVal(False)

    def _of(self, other):
        if isinstance(other, Locations):
            return other.members
        if isinstance(other, (set, frozenset)):
            return {k: z3.BoolVal(True) for k in other}
        if isinstance(other, PyList):
            return {k: z3.BoolVal(True) for k in other.items}
        raise Unsupported('set operation with an unmodelled operand')

    def set_op(self, eng, name, other):
        a, b = self.members, self._of(other)
        f = z3.BoolVal(False)
        if name in ('intersection', '__and__'):
            return Locations(self.w, {k: z3.And(a[k], b[k]) for k in a if k in b})
        if name in ('union', '__or__'):
            return Locations(self.w, {k: z3.Or(a.get(k, f), b.get(k, f)) for k in set(a) | set(b)})
        if name == 'difference':
            return Locations(self.w, {k: z3.And(a[k], z3.Not(b.get(k, f))) for k in a})
        if name == 'rdifference':
            return Locations(self.w, {k: z3.And(b[k], z3.Not(a.get(k, f))) for k in b})
        raise Unsupported(f'set.{name}')

    def method(self, eng, name, args, kwargs, e):
        if name in ('intersection', 'union', 'difference') and len(args) == 1:
            return self.set_op(eng, name, args[0])
        raise Unsupported(f'set.{name}')

    def binop(self, eng, op, other, swapped):
        import ast as _ast
        if isinstance(op, _ast.BitAnd):
            return self.set_op(eng, 'intersection', other)
        if isinstance(op, _ast.BitOr):
            return self.set_op(eng, 'union', other)
        if isinstance(op, _ast.Sub):
            return self.set_op(eng, 'rdifference' if swapped else 'difference', other)
        raise Unsupported('set operator')


LOC_ATTRS = {'attr:DrmLocation.MOOV': lambda eng: 'moov', 'attr:DrmLocation.CENC': lambda eng: 'cenc',
             'attr:DrmLocation.PRO': lambda eng: 'pro'}


def dmc(eng, a, kw):
    return Obj('DrmManifestContext', dict(kw))


def playready_ctx(version):
    def env(w):
        return {'self': Obj('PlayReady', {}), 'stream': Obj('Stream', {'playready_la_url': None}), 'keys': Opaque('keys'),
                'options': Obj('OptionsContainer', {'version': version, 'licenseUrl': None}), 'la_url': Opaque('la_url'),
                'https_request': False, 'locations': Locations(w)}
    return Contract(
        key=f'{PR}:PlayReady.generate_manifest_context', variant=f'v{version}', props=['C10'], env=env,
        models=dict(LOC_ATTRS, **{'attr:DrmSystem.PLAYREADY': lambda eng: 'playready',
                                  'self.dash_scheme_id': lambda eng, e, a, kw: Opaque('scheme')}),
        ctors={'DrmManifestContext': dmc},
        ensures=[('moov_hook_iff_asked', 'is_hook(result.moov) == loc_moov and (is_none(result.moov) == (not loc_moov))'),
                 ('pro_hook_iff_asked', 'is_hook(result.pro) == loc_pro and (is_none(result.pro) == (not loc_pro))'),
                 ('cenc_hook_iff_asked_and_not_piff', f'is_hook(result.cenc) == (loc_cenc and {version > 1.0}) and '
                                                      f'(is_none(result.cenc) == (not (loc_cenc and {version > 1.0})))'),
                 ('same_box_for_moov_and_cenc', f'same(result.moov, result.cenc) if (loc_moov and loc_cenc and {version > 1.0}) else True'),
                 ('system', "result.system == 'playready' and result.version == " + repr(version))],
        canaries=['is_none(result.moov)'],
        witness_terms=wt,
    )


CLEARKEY_CTX = Contract(
    key=f'{CK}:ClearKey.generate_manifest_context', props=['C10'],
    env=lambda w: {'self': Obj('ClearKey', {}), 'stream': Opaque('stream'), 'keys': Opaque('keys'), 'options': Opaque('options'),
                   'la_url': Opaque('la_url'), 'https_request': False, 'locations': Locations(w)},
    models=dict(LOC_ATTRS, **{'attr:DrmSystem.CLEARKEY': lambda eng: 'clearkey', 'self.dash_scheme_id': lambda eng, e, a, kw: Opaque('scheme')}),
    ctors={'DrmManifestContext': dmc},
    ensures=[('moov_hook_iff_asked', 'is_hook(result.moov) == loc_moov and (is_none(result.moov) == (not loc_moov))'),
             ('cenc_hook_iff_asked', 'is_hook(result.cenc) == loc_cenc and (is_none(result.cenc) == (not loc_cenc))'),
             ('no_pro', 'is_none(result.pro)'), ('system', "result.system == 'clearkey'")],
    canaries=['is_none(result.moov)'],
    witness_terms=wt,
)

MARLIN_CTX = Contract(
    key=f'{ML}:Marlin.generate_manifest_context', props=['C10'],
    env=lambda w: {'self': Obj('Marlin', {}), 'stream': Obj('Stream', {'marlin_la_url': Opaque('url')}), 'keys': Opaque('keys'),
                   'options': Obj('OptionsContainer', {'licenseUrl': None}), 'la_url': None, 'https_request': False,
                   'locations': Locations(w)},
    models={'attr:DrmSystem.MARLIN': lambda eng: 'marlin', 'self.dash_scheme_id': lambda eng, e, a, kw: Opaque('scheme')},
    ctors={'DrmManifestContext': dmc},
    ensures=[('no_init_protection_data', 'is_none(result.moov) and is_none(result.cenc) and is_none(result.pro)'),
             ('system', "result.system == 'marlin'")],
    canaries=["result.system == 'playready'"],
    witness_terms=wt,
)


# ----------------------------------------------------------------------------- DrmContext: selection -> one context per system, name order
DCX = 'dashlive/server/requesthandler/drm_context.py'
IMPL = {'playready': 'PlayReady', 'marlin': 'Marlin', 'clearkey': 'ClearKey'}
SELECTIONS = [(), ('playready',), ('marlin',), ('clearkey',), ('playready', 'clearkey'), ('clearkey', 'marlin', 'playready'),
              ('marlin', 'clearkey')]


def selection_env(sel):
    return PyList([(name, Opaque(f'locations:{name}')) for name in sel])


def drm_impl(name):
    return lambda eng, a, kw: Obj(name, {})


def location_tuples(sel):
    ens = [('one_tuple_per_selected_system', f'length(result) == {len(sel)}')]
    for k, name in enumerate(sel):
        ens.append((f'tuple{k}', f"result[{k}][0] == {name!r} and is_impl(result[{k}][1], {IMPL[name]!r}) and "
                                 f"is_locations(result[{k}][2], {name!r})"))
    return Contract(
        key=f'{DCX}:DrmContext.generate_drm_location_tuples', variant='+'.join(sel) or 'none', props=['C10', 'C16'],
        env=lambda w: {'options': Obj('OptionsContainer', {'drmSelection': selection_env(sel)})},
        models={'DrmSystem.values': lambda eng, e, a, kw: PyList(['playready', 'marlin', 'clearkey'])},
        ctors={v: drm_impl(v) for v in IMPL.values()},
        ensures=ens,
        applies=lambda fr: isinstance(fr.get('options'), Obj) and isinstance(fr['options'].f.get('drmSelection'), PyList) and
        tuple(t[0] for t in fr['options'].f['drmSelection'].items) == tuple(sel),
        # what the postcondition says, as a value: (name, an instance of that system's class, the locations handed in)
        result=lambda eng, fr: PyList([(n, Obj(IMPL[n], {}), loc) for n, loc in fr['options'].f['drmSelection'].items]),
        canaries=['length(result) == 9'],
        witness_terms=lambda w: (lambda ev: {}),
    )


def drm_context_init(sel):
    """DrmContext.__init__ then iter(): the contexts come out in name order, each built by its own system for its own
    locations, its own option group and its own <name>_la_url request parameter"""
    def env(w):
        opts = Obj('OptionsContainer', dict({'drmSelection': selection_env(sel)}, **{n: Opaque(f'options:{n}') for n in IMPL}))
        return {'self': Obj('DrmContext', {}), 'stream': Obj('Stream', {}), 'keys': Opaque('keys'), 'options': opts}

    def gmc(eng, e, a, kw):
        recv = eng.eval(e.func.value)
        return Obj('DrmManifestContext', {'by': recv.cls, 'stream': a[0], 'keys': a[1], 'options': a[2], 'la_url': kw.get('la_url'),
                                          'locations': kw.get('locations'), 'https_request': kw.get('https_request')})

    def sequel_env(eng, env_after, value):
        return {'self': env_after['self'], 'stream': env_after['stream'], 'keys': env_after['keys'], 'options': env_after['options']}
    order = sorted(sel)
    ens = [('one_context_per_selected_system', f'length(result.contexts) == {len(order)}')]
    for k, name in enumerate(order):
        ens.append((f'context{k}_is_{name}', f"built_by(result.contexts[{k}], {IMPL[name]!r}, {name!r}) and "
                                            f'result.contexts[{k}].stream is stream and result.contexts[{k}].keys is keys'))
    return Contract(
        key=f'{DCX}:DrmContext.__init__', variant='+'.join(sel) or 'none', props=['C10'],
        env=env,
        models={'DrmSystem.values': lambda eng, e, a, kw: PyList(['playready', 'marlin', 'clearkey']),
                'drm.generate_manifest_context': gmc, 'is_https_request': lambda eng, e, a, kw: False,
                'flask.request.args.get': lambda eng, e, a, kw: Opaque('la_url:' + a[0])},
        ctors={v: drm_impl(v) for v in IMPL.values()},
        sequel={'qual': 'DrmContext.__iter__', 'env': sequel_env},
        ensures=ens,
        canaries=['length(result.contexts) == 9'],
        witness_terms=lambda w: (lambda ev: {}),
    )


def iterator_next(n):
    items = [f'ctx{k}' for k in range(n)]
    return Contract(
        key=f'{DCX}:DrmContextIterator.__next__', variant=f'{n}left', props=['C10'],
        env=lambda w: {'self': Obj('DrmContextIterator', {'contexts': PyList([Opaque(x) for x in items])})},
        modifies=['self.contexts'],
        ensures=[('yields_the_first_and_keeps_the_rest_in_order',
                  f"is_named(result, 'ctx0') and names_are(self.contexts, {items[1:]!r})")] if n else [],
        raises={} if n else {'StopIteration': 'True'},
        canaries=["is_named(result, 'ctx9')"] if n else [],
        witness_terms=lambda w: (lambda ev: {}),
    )


DRM_NEXT = [iterator_next(0), iterator_next(1), iterator_next(3)]
DRM_TUPLES = [location_tuples(sel) for sel in SELECTIONS]
DRM_CONTEXT = [drm_context_init(sel) for sel in SELECTIONS]

# ----------------------------------------------------------------------------- the boxes the hooks build
def pssh_ctor(eng, a, kw):
    return Obj('ContentProtectionSpecificBox', dict(kw))


def key_material(eng, a, kw):
    return Obj('KeyMaterial', {'raw': Opaque(f'raw:{a[0]}')})


def playready_pssh(nkeys):
    def env(w):
        return {'self': Obj('PlayReady', {}), 'la_url': Opaque('la_url'), 'default_kid': Opaque('default_kid'),
                'keys': {f'kid{k}': Opaque(f'keypair{k}') for k in range(nkeys)}, 'custom_attributes': None}
    ens = [('system_id', "same(result.system_id, playready_system_id) and result.flags == 0"),
           ('payload_is_the_pro', 'same(result.data, the_pro)')]
    if nkeys < 2:
        ens.append(('single_key_form', 'result.version == 0 and length(result.key_ids) == 0'))
    else:
        ens.append(('multi_key_form', 'result.version == 1 and kid_names(result.key_ids, ' + ', '.join(f"'kid{k}'" for k in range(nkeys)) + ')'))
    return Contract(
        key=f'{PR}:PlayReady.generate_pssh', variant=f'{nkeys}keys', props=['C10', 'C11'], env=env,
        models={'self.generate_pro': lambda eng, e, a, kw: eng.world['the_pro'],
                'attr:PlayReady.RAW_SYSTEM_ID': lambda eng: eng.world['playready_system_id'],
                'mp4.ContentProtectionSpecificBox': lambda eng, e, a, kw: Obj('ContentProtectionSpecificBox', dict(kw))},
        ctors={'KeyMaterial': key_material},
        ensures=ens, canaries=['result.version == 1' if nkeys < 2 else 'result.version == 0'], witness_terms=wt,
    )


CLEARKEY_PSSH = Contract(
    key=f'{CK}:ClearKey.generate_pssh', props=['C10', 'C11'],
    env=lambda w: {'self': Obj('ClearKey', {'RAW_PSSH_SYSTEM_ID': w['clearkey_system_id']}), 'default_kid': Opaque('default_kid'),
                   'keys': {'kid0': Opaque('kp0'), 'kid1': Opaque('kp1')}},
    ctors={'KeyMaterial': key_material, 'ContentProtectionSpecificBox': pssh_ctor},
    ensures=[('w3c_common_system_id', 'same(result.system_id, clearkey_system_id) and result.flags == 0'),
             ('version_1_with_every_kid', "result.version == 1 and kid_names(result.key_ids, 'kid0', 'kid1')"),
             ('no_payload', 'is_none(result.data)')],
    canaries=['result.version == 0'], witness_terms=wt,
)

GROUP = Group(
    name='drm', world=lambda: dict(world(), children_are=children_are, pssh_all_for_default_kid=pssh_all_for_default_kid,
                                   the_pro=Opaque('pro'), playready_system_id=Opaque('pr_sysid'), clearkey_system_id=Opaque('ck_sysid')),
    contracts=INIT + [playready_ctx(2.0), playready_ctx(1.0), CLEARKEY_CTX, MARLIN_CTX, playready_pssh(1), playready_pssh(3), CLEARKEY_PSSH] + DRM_TUPLES + DRM_CONTEXT + DRM_NEXT,
    assumptions=[
        'C10: the handler contract uses DrmContext(stream, keys, options) as "one DrmManifestContext per selected system in name '
        'order" - which is what the DrmContext.__init__ / __iter__ / DrmContextIterator.__next__ contracts prove for the seven '
        'selections listed (systems, locations, option group and <name>_la_url each handed to their own system); '
        'load_fragment(media, 0) returns the stored init segment; '
        'append_child appends the box to moov; `del moov.mehd` removes the mehd child or raises AttributeError; atom.encode '
        'serialises the tree as it stands (box bytes: group mp4)',
        'C10: byte identity of the untouched boxes is not proved (it rests on Mp4Atom.encode re-emitting unmodified boxes)',
    ],
    not_covered=['byte-level identity of untouched boxes; size propagation of append/remove; parsing of the drm option text into '
                 'the selection list (C16 bounded stand-in); the PRO bytes inside the PlayReady pssh (C11)'],
)
