"""Contracts for dashlive/mpeg/dash/representation.py, reference.py and the live/VOD media index of
media_requests.py (C01, C02, C06, C09, C12, C16).

Vocabulary (DESIGN.md section 3): a Representation with n media segments, durations d(1..n), prefix
sums S, timescale ts, nominal segment duration sd, start number sn, first decode time t0; timing
reference (Rref ticks @ tsref); R = Rref*ts // tsref.  Live clock: E elapsed us, F first-available us,
W leeway us, B timeShiftBufferDepth s.
"""
import ast
import z3
from pyvc.vals import *          # noqa: F401,F403
from pyvc.engine import PyRaise
from pyvc.contract import Contract, Loop, Lemma, Group
from contracts import dt as DT_GROUP

REP = 'dashlive/mpeg/dash/representation.py'
REF = 'dashlive/mpeg/dash/reference.py'
MRQ = 'dashlive/server/requesthandler/media_requests.py'
MILLION = 1000000

# get_segment_index's postcondition, as (label, template over tc / m / start / origin); shared verbatim by
# its callers' contracts so that the property lemmas are stated once.
GSI_CLAUSES = [
    ('range', '1 <= {m} and {m} <= n'),
    ('which', '{m} == Mof({tc})'),                                # the segment is a function of the timecode
    ('origin', '{origin} == Lof({tc}) * R'),                      # a whole number of reference loops
    ('start', '{start} == {origin} + S({m} - 1)'),
    ('loops', '{origin} - R <= {tc} and {tc} < {origin} + R'),    # the loop containing tc, or the one after it
    ('reached', '{start} + d({m}) // 2 >= {tc}'),
    ('wrapped_first', '{m} == 1 if {origin} > {tc} else True'),
    ('first_such', 'forall(lambda j: {origin} + S(j - 1) + d(j) // 2 < {tc}, 1, {m})'),
    ('first_such_prev_loop',
     'forall(lambda j: {origin} - R + S(j - 1) + d(j) // 2 < {tc}, 1, n + 1) if {origin} > {tc} else True'),
]


def gsi(tc, m, start, origin):
    return [(lab, t.format(tc=tc, m=m, start=start, origin=origin)) for lab, t in GSI_CLAUSES]


def world():
    w = DT_GROUP.world()
    for nm in ('n', 'ts', 'sd', 'sn', 't0', 'R', 'Rref', 'tsref', 'track_id', 'E', 'F', 'W', 'B', 'ref_sd', 'ref_n'):
        w[nm] = z3.Int(nm)
    w['d'] = z3.Function('d', INT, INT)
    w['S'] = z3.Function('S', INT, INT)
    w['pos'] = z3.Function('pos', INT, INT)
    w['size'] = z3.Function('size', INT, INT)
    w['TF'] = z3.Function('TF', INT, INT)        # tfdt stored in fragment k of the file
    w['trun_flags'] = z3.Int('trun_flags')
    w['has_event'], w['traf_modified_by_drm'] = z3.Bool('has_event'), z3.Bool('traf_modified_by_drm')
    w['stored_base_data_offset'] = z3.Int('stored_base_data_offset')
    for nm in ('rep_encrypted', 'seg_is_init', 'seg_is_number', 'no_timing_reference', 'bad_options', 'options_encrypted'):
        w[nm] = z3.Bool(nm)
    w['seg_value'] = z3.Int('seg_value')
    for nm in ('encoded_len', 'cursor_after_corruption', 'r_start', 'r_end', 'corrupt_seg'):
        w[nm] = z3.Int(nm)
    w['range_present'] = z3.Bool('range_present')
    w['is_window'] = lambda d, lo, hi: z3.And(zint(d.lo) == zint(lo), zint(d.hi) == zint(hi)) if getattr(d, 'lo', None) is not None else z3.BoolVal(False)
    w['is_whole'] = lambda d: z3.BoolVal(isinstance(d, EncodedData) and d.lo is None)
    w['order_is'] = lambda x, *names: z3.BoolVal(isinstance(x, PyList) and list(x.items) == list(names))
    w['Mof'] = z3.Function('Mof', INT, INT)      # segment index get_segment_index returns (skolem function of its result)
    w['Lof'] = z3.Function('Lof', INT, INT)      # loop index get_segment_index ends in (skolem function of its ghost L)
    i = z3.Int('i!ax')
    n, d, S = w['n'], w['d'], w['S']
    w['rep_valid'] = z3.And(
        n >= 2, w['ts'] >= 1, w['sd'] >= 1, S(0) == 0,
        z3.ForAll([i], z3.Implies(z3.And(1 <= i, i <= n), z3.And(S(i) == S(i - 1) + d(i), d(i) >= 1))))
    w['M'] = S(n)
    w['dx'] = z3.Function('dx', INT, INT)
    w['tl0'] = z3.Int('tl0')
    dx, R = w['dx'], w['R']

    def dx_axioms(drift):
        # first period; the extension dx(i + n) == dx(i) for all i >= 1 is part of the definition of dx but is only
        # ever used through explicit instances (Loop.instances): as a quantified hypothesis it is a matching loop
        return z3.ForAll([i], z3.Implies(z3.And(1 <= i, i <= n), dx(i) == d(i) + z3.If(i == n, drift, 0)))
    w['dx_periodic_live'] = dx_axioms(R - S(n))
    w['dx_periodic_vod'] = z3.ForAll([i], z3.Implies(z3.And(1 <= i, i <= n), dx(i) == d(i)))
    w['optval'] = lambda x: x.val if isinstance(x, Opt) else x
    w['live_clock'] = z3.And(w['E'] >= 0, w['B'] >= 0, w['F'] == w['E'] - MILLION * w['B'], w['F'] >= 0, w['W'] >= 0)
    w['__bases__'] = {}
    w['__ctors__'] = {
        'SegmentNumberAndTime': lambda eng, a, kw: tuple(a),
    }
    return w


def ref_obj(w):
    return Obj('StreamTimingReference', {
        'media_duration': w['Rref'], 'timescale': w['tsref'], 'segment_duration': w['ref_sd'],
        'num_media_segments': w['ref_n'], 'media_name': Opaque('name')})


def timing_obj(w, mode):
    return Obj('DashTiming', {
        'mode': mode, 'stream_reference': ref_obj(w),
        'elapsedTime': TD(w['E']), 'firstAvailableTime': TD(w['F']), 'leeway': TD(w['W']),
        'timeShiftBufferDepth': w['B'], 'now': DT(z3.Int('now')),
        'availabilityStartTime': DT(z3.Int('ast'))})


def rep_obj(w, mode='live'):
    segs = SeqFn('segments', {'duration': w['d'], 'pos': w['pos'], 'size': w['size']}, w['n'] + 1, 'Segment')
    return Obj('Representation', {
        'segments': segs, 'num_media_segments': w['n'], 'timescale': w['ts'],
        'segment_duration': w['sd'], 'start_number': w['sn'], 'start_time': w['t0'],
        'mediaDuration': w['M'], 'track_id': w['track_id'], 'content_type': Opaque('content_type'),
        'id': Opaque('id'), '_timing': timing_obj(w, mode)})


def witness(extra=()):
    def mk(w):
        def wt(ev):
            n = ev(w['n'])
            out = {k: ev(w[k]) for k in ('n', 'ts', 'sd', 'sn', 't0', 'R', 'Rref', 'tsref', 'E', 'F', 'W', 'B')}
            for k in extra:
                out[k] = ev(z3.Int(k))
            if isinstance(n, int) and 0 <= n <= 64:
                out['d'] = [ev(w['d'](z3.IntVal(i))) for i in range(1, n + 1)]
                out['pos'] = [ev(w['pos'](z3.IntVal(i))) for i in range(0, n + 1)]
                out['size'] = [ev(w['size'](z3.IntVal(i))) for i in range(0, n + 1)]
            return out
        return wt
    return mk


BASIC = [('rep_valid', 'rep_valid'), ('R_pos', 'R > 0'), ('ref_ts', 'tsref >= 1')]

# ----------------------------------------------------------------------------- reference / index search
MEDIA_DURATION_USING_TIMESCALE = Contract(
    key=f'{REF}:StreamTimingReference.media_duration_using_timescale',
    props=['C02', 'C01', 'C06', 'C09'],
    env=lambda w: {'self': ref_obj(w), 'timescale': w['ts']},
    requires=[('ts_pos', 'self.timescale >= 1'), ('same_ts', 'timescale == ts')],
    defs=['R == (Rref * ts) // tsref'],
    ensures=[('is_R', 'result == R')],
    result=lambda eng, frame: fresh('ref_duration_tc'),
    canaries=['result == R + 1'],
    witness_terms=witness(),
)

GET_SEGMENT_INDEX = Contract(
    key=f'{REP}:Representation.get_segment_index',
    props=['C02', 'C01', 'C12', 'C09', 'C16'],
    env=lambda w: {'self': rep_obj(w), 'timecode': z3.Int('timecode')},
    requires=BASIC + [('tc_nonneg', 'timecode >= 0')],
    loops={0: Loop(
        ghost={'L': 'timecode // R'},
        ghost_update={'L': 'L + 1 if origin_time == (L + 1) * R else L'},
        invariant=[
            ('range', '1 <= mod_segment and mod_segment <= n'),
            ('origin', 'origin_time == L * R'),
            ('start', 'seg_start_tc == origin_time + S(mod_segment - 1)'),
            ('loops', 'timecode // R <= L and L <= timecode // R + 1'),
            ('wrapped_first', 'implies(L == timecode // R + 1, mod_segment == 1)'),
            ('earlier_too_early',
             'forall(lambda j: origin_time + S(j - 1) + d(j) // 2 < timecode, 1, mod_segment)'),
            ('prev_loop_too_early',
             'implies(L == timecode // R + 1, '
             'forall(lambda j: (L - 1) * R + S(j - 1) + d(j) // 2 < timecode, 1, n + 1))'),
        ],
        variant=['timecode // R + 1 - L', 'n - mod_segment'])},
    exports={'Lof(timecode)': 'L', 'Mof(timecode)': 'mod_segment'},
    result=lambda eng, frame: (fresh('mod_segment'), fresh('seg_start_tc'), fresh('origin_time')),
    ensures=gsi('timecode', 'result[0]', 'result[1]', 'result[2]'),
    canaries=['result[1] + d(result[0]) // 2 > timecode', 'result[0] < n'],
    witness_terms=witness(('timecode',)),
)

CALC_SEGMENT_FROM_TIMECODE = Contract(
    key=f'{REP}:Representation.calculate_segment_from_timecode',
    props=['C02', 'C01', 'C09', 'C16'],
    env=lambda w: {'self': rep_obj(w), 'timecode': z3.Int('timecode'), 'drift_compensate': z3.Bool('drift_compensate')},
    requires=BASIC,
    raises={'ValueError': 'timecode < 0'},
    result=lambda eng, frame: (fresh('mod_segment'), fresh('origin_time'), fresh('seg_start_tc')),
    ensures=gsi('timecode', 'result[0]', 'result[2]', 'result[1]'),
    canaries=['result[0] < n'],
    witness_terms=witness(('timecode',)),
)

TIMESCALE_TO_TIMEDELTA = Contract(
    key=f'{REP}:Representation.timescale_to_timedelta',
    props=['C01'],
    env=lambda w: {'self': rep_obj(w), 'timecode': z3.Int('timecode')},
    requires=[('ts_pos', 'ts >= 1')],
    # timedelta(seconds=<real>) rounds to the nearest microsecond: |us - 10^6*tc/ts| <= 1/2
    ensures=[('nearest_us', '2 * (micros(result) * ts - 1000000 * timecode) <= ts and '
                            '2 * (1000000 * timecode - micros(result) * ts) <= ts')],
    result=lambda eng, frame: TD(fresh('seg_delta_us')),
    canaries=['micros(result) * ts == 1000000 * timecode'],
    witness_terms=witness(('timecode',)),
)

# ----------------------------------------------------------------------------- first / last number
FL_LIVE = Contract(
    key=f'{REP}:Representation.calculate_first_and_last_segment_number', variant='live',
    props=['C01', 'C16'],
    env=lambda w: {'self': rep_obj(w, 'live')},
    requires=[('rep_valid', 'rep_valid'), ('clock', 'live_clock')],
    result=lambda eng, frame: (fresh('first'), fresh('last')),
    ensures=[('last', 'result[1] == sn + ((ts * E) // 1000000) // sd'),
             ('first', 'result[0] == zmax(sn, result[1] - 2 - (ts * B) // sd)')],
    canaries=['result[0] == sn'],
    witness_terms=witness(),
)

FL_VOD = Contract(
    key=f'{REP}:Representation.calculate_first_and_last_segment_number', variant='vod',
    props=['C06'],
    env=lambda w: {'self': rep_obj(w, 'vod')},
    requires=[('rep_valid', 'rep_valid')],
    result=lambda eng, frame: (fresh('first'), fresh('last')),
    ensures=[('exact', 'result[0] == sn and result[1] == sn + n - 1')],
    canaries=['result[1] == sn'],
    witness_terms=witness(),
)

# ----------------------------------------------------------------------------- number / time -> segment
# availability test of the live branch, with the half-microsecond rounding of timedelta(seconds=float):
#   x = 10^6*tc/ts (exact).  raise if x < F-W-1/2 or x > E+1/2; return if F-W+1/2 <= x <= E-1/2
def avail(tc):
    must = (f'2 * 1000000 * ({tc}) < (2 * (F - W) - 1) * ts or 2 * 1000000 * ({tc}) > (2 * E + 1) * ts or ({tc}) < 0')
    may = (f'2 * 1000000 * ({tc}) < (2 * (F - W) + 1) * ts or 2 * 1000000 * ({tc}) > (2 * E - 1) * ts or ({tc}) < 0')
    return must, may


def snt_live(kind):
    tc = '(segment_num - sn) * sd' if kind == 'number' else 'segment_time'
    num = 'segment_num' if kind == 'number' else 'segment_time // sd'
    env = (lambda w: {'self': rep_obj(w, 'live'), 'segment_time': None, 'segment_num': z3.Int('segment_num')}) \
        if kind == 'number' else \
        (lambda w: {'self': rep_obj(w, 'live'), 'segment_time': z3.Int('segment_time'), 'segment_num': None})
    return Contract(
        key=f'{REP}:Representation.calculate_segment_number_and_time', variant=f'live-{kind}',
        props=['C01', 'C02'],
        env=env,
        requires=BASIC + [('clock', 'live_clock')],
        raises_bounds={'ValueError': avail(tc)},
        result=lambda eng, frame: (fresh('segment_num'), fresh('mod_segment'), fresh('origin_time')),
        ensures=[('num', f'result[0] == {num}')] +
                [(lab, t) for lab, t in gsi(tc, 'result[1]', f'(result[2] + S(result[1] - 1))', 'result[2]') if lab != 'start'],
        canaries=['result[1] < n'],
        witness_terms=witness(('segment_num', 'segment_time')),
    )


def _mode(frame):
    return frame['self'].f['_timing'].f['mode']


FL_LIVE.applies = lambda fr: _mode(fr) == 'live'
FL_VOD.applies = lambda fr: _mode(fr) != 'live'
SNT_LIVE_NUMBER = snt_live('number')
SNT_LIVE_TIME = snt_live('time')

SNT_VOD_NUMBER = Contract(
    key=f'{REP}:Representation.calculate_segment_number_and_time', variant='vod-number',
    props=['C06'],
    env=lambda w: {'self': rep_obj(w, 'vod'), 'segment_time': None, 'segment_num': z3.Int('segment_num')},
    requires=[('rep_valid', 'rep_valid')],
    result=lambda eng, frame: (fresh('segment_num'), fresh('mod_segment'), fresh('origin_time')),
    ensures=[('exact', 'result[0] == segment_num and result[1] == segment_num - sn + 1 and result[2] == 0')],
    canaries=['result[1] == 1'],
    witness_terms=witness(('segment_num',)),
)

SNT_VOD_TIME = Contract(
    key=f'{REP}:Representation.calculate_segment_number_and_time', variant='vod-time',
    props=['C06'],
    env=lambda w: {'self': rep_obj(w, 'vod'), 'segment_time': z3.Int('segment_time'), 'segment_num': None},
    requires=[('rep_valid', 'rep_valid')],
    result=lambda eng, frame: (fresh('segment_num'), fresh('mod_segment'), fresh('origin_time')),
    ensures=[('exact', 'result[1] == (segment_time + sd // 4) // sd + 1 and result[0] == result[1] - 1 + sn '
                       'and result[2] == 0')],
    canaries=['result[1] == 1'],
    witness_terms=witness(('segment_time',)),
)


SNT_LIVE_NUMBER.applies = lambda fr: _mode(fr) == 'live' and fr['segment_time'] is None
SNT_LIVE_TIME.applies = lambda fr: _mode(fr) == 'live' and fr['segment_num'] is None
SNT_VOD_NUMBER.applies = lambda fr: _mode(fr) != 'live' and fr['segment_time'] is None
SNT_VOD_TIME.applies = lambda fr: _mode(fr) != 'live' and fr['segment_num'] is None


# ----------------------------------------------------------------------------- media index of the live/vod handler
def msi(mode, kind):
    tc = '(seg_num - sn) * sd' if kind == 'number' else 'seg_time'
    num = 'seg_num' if kind == 'number' else ('seg_time // sd' if mode == 'live' else '(seg_time + sd // 4) // sd + sn')

    def env(w):
        rep = rep_obj(w, mode)
        return {'self': Obj('LiveMedia', {}), 'mode': mode, 'representation': rep, 'timing': rep.f['_timing'],
                'seg_num': z3.Int('seg_num') if kind == 'number' else None,
                'seg_time': z3.Int('seg_time') if kind == 'time' else None}
    if mode == 'live':
        first = 'zmax(sn, sn + ((ts * E) // 1000000) // sd - 2 - (ts * B) // sd)'
        last = 'sn + ((ts * E) // 1000000) // sd'
        must, may = avail(tc)
        outside = f'(({num}) < {first} or ({num}) > {last})'
        spec = {'tc': tc, 'num': num, 'must': must, 'may': may, 'outside': outside}
        c = Contract(
            key=f'{MRQ}:LiveMedia.calculate_media_segment_index', variant=f'{mode}-{kind}',
            props=['C01', 'C16'], env=env,
            requires=BASIC + [('clock', 'live_clock')],
            raises_bounds={'ValueError': (f'({must}) or {outside}', f'({may}) or {outside}')},
            ensures=[('num', f'result[2] == {num}'), ('in_range', f'{first} <= result[2] and result[2] <= {last}')] +
                    [(lab, t) for lab, t in gsi(tc, 'result[0]', '(result[1] + S(result[0] - 1))', 'result[1]') if lab != 'start'],
            canaries=['result[0] < n'],
            witness_terms=witness(('seg_num', 'seg_time')),
        )
    else:
        outside = f'(({num}) < sn or ({num}) > sn + n - 1)'
        spec = {'tc': tc, 'num': num, 'outside': outside}
        c = Contract(
            key=f'{MRQ}:LiveMedia.calculate_media_segment_index', variant=f'{mode}-{kind}',
            props=['C06', 'C16'], env=env,
            requires=[('rep_valid', 'rep_valid')],
            raises={'ValueError': outside},
            ensures=[('exact', f'result[2] == {num} and result[0] == result[2] - sn + 1 and result[1] == 0'),
                     ('stored_segment', '1 <= result[0] and result[0] <= n')],
            canaries=['result[0] == 1'],
            witness_terms=witness(('seg_num', 'seg_time')),
        )
    c.spec = spec
    return c


MSI = [msi('live', 'number'), msi('live', 'time'), msi('vod', 'number'), msi('vod', 'time')]
for _c in MSI:
    # at a call site: which variant fits, and what a call returns (the postconditions constrain it)
    _c.applies = (lambda m, k: lambda fr: (fr['mode'] == 'live') == (m == 'live') and
                  ((fr['seg_time'] is None) if k == 'number' else (fr['seg_num'] is None)))(*_c.variant.split('-'))
    _c.result = lambda eng, frame: (fresh('mod_segment'), fresh('origin_time'), fresh('seg_num_out'))


# ----------------------------------------------------------------------------- the media-segment handler (glue)
# MediaRequestBase.generate_media_segment: index function (callee contract) -> which stored fragment is loaded ->
# tfdt += origin, mfhd.sequence_number = number -> encode -> response.  Observables: the fragment index handed to
# load_fragment (ghost served_mod), and the sequence number / decode time present in the atom when it is encoded.
class EncodedAtom:
    """dest = io.BytesIO() ... atom.encode(dest): remembers the header values that were encoded"""
    py_types = ('BytesIO',)

    def __init__(self):
        self.snapshot = None

    def method(self, eng, name, args, kwargs, e):
        if name == 'getvalue' and self.snapshot is not None:
            return self.snapshot
        raise Unsupported(f'BytesIO.{name}')


def model_sum_of_durations(eng, e, a, kw):
    """sum([seg.duration for seg in representation.segments[1:m]]) is the prefix sum S(m - 1) of the durations (S is
    defined by rep_valid: S(0) = 0, S(i) = S(i-1) + d(i)); any other argument of sum() is evaluated as it stands"""
    arg = e.args[0] if len(e.args) == 1 else None
    if isinstance(arg, ast.ListComp) and len(arg.generators) == 1 and not arg.generators[0].ifs:
        g = arg.generators[0]
        it = g.iter
        if isinstance(g.target, ast.Name) and ast.unparse(arg.elt) == f'{g.target.id}.duration' and \
                isinstance(it, ast.Subscript) and isinstance(it.slice, ast.Slice) and it.slice.step is None and \
                isinstance(it.slice.lower, ast.Constant) and it.slice.lower.value == 1 and it.slice.upper is not None:
            seq = eng.eval(it.value)
            if isinstance(seq, SeqFn) and seq.name == 'segments':
                hi = zint(eng.eval(it.slice.upper))
                eng.oblige('safety', 'slice.upper.in_range', z3.And(hi >= 1, hi <= zint(seq.length)))
                return eng.world['S'](hi - 1)
    raise Unsupported('sum() of something other than the durations of segments[1:m]')


model_sum_of_durations.lazy = True


def tfdt_setattr(eng, box, value):
    """TrackFragmentDecodeTimeBox.__setattr__('base_media_decode_time', v), as its contract (group mp4, proved there) states
    it: the value is stored and the box is in the 64-bit form afterwards iff it already was or the value needs it"""
    v = zint(value)
    ver = zint(box.f.get('version', 0))
    box.f['version'] = z3.If(z3.Or(ver == 1, v >= 2 ** 32, v <= -(2 ** 32)), 1, ver)      # bit_length() > 32
    box.f['base_media_decode_time'] = value


def missing_child(eng, base):
    raise PyRaise('AttributeError')


def gms_models(with_sidx, has_tfdt=True):
    def load_fragment(eng, e, a, kw):
        w = eng.world
        mod = a[1]
        eng.ghost_env['served_mod'] = zint(mod)
        tfdt = Obj('TfdtBox', {'base_media_decode_time': w['TF'](zint(mod)), 'version': z3.Int('stored_tfdt_version')})
        traf = Obj('TrackFragmentBox', {'tfdt': tfdt} if has_tfdt else {
            'tfhd': Obj('TfhdBox', {'base_data_offset': z3.Int('stored_base_data_offset')}),
            'trun': Obj('TrunBox', {'flags': z3.Int('trun_flags')}), '__order__': PyList(['tfhd', 'trun'])})
        moof = Obj('MovieFragmentBox', {'mfhd': Obj('MfhdBox', {'sequence_number': z3.Int('stored_seq')}), 'traf': traf})
        f = {'moof': moof}
        if with_sidx:
            f['sidx'] = Opaque('sidx')
        return Obj('Wrapper', f)

    def encode(eng, e, a, kw):
        atom = eng.eval(e.func.value)
        moof = atom.f['moof']
        traf = moof.f['traf']
        snap = {'sequence_number': moof.f['mfhd'].f['sequence_number'],
                'tfdt': traf.f['tfdt'].f['base_media_decode_time'] if 'tfdt' in traf.f else None,
                'has_sidx': 'sidx' in atom.f, '__len__': fresh('encoded_len')}
        if not has_tfdt:
            snap.update(order=traf.f['__order__'], trun_flags=traf.f['trun'].f['flags'],
                        tfhd_base=traf.f['tfhd'].f['base_data_offset'],
                        tfdt_version=traf.f['tfdt'].f.get('version') if 'tfdt' in traf.f else None)
        a[0].snapshot = Obj('EncodedSegment', snap)

    def traf_index(eng, e, a, kw):
        order = eng.eval(e.func.value).f['__order__'].items
        if a[0] not in order:
            raise PyRaise('ValueError')
        return order.index(a[0])

    def insert_child(eng, e, a, kw):
        traf = eng.eval(e.func.value)
        if not isinstance(a[0], int):
            raise Unsupported('insert_child at a symbolic index')
        traf.f['__order__'].items.insert(a[0], 'tfdt')
        traf.f['tfdt'] = a[1]

    def find_child(eng, e, a, kw):
        return eng.eval(e.func.value).f.get(a[0])

    def make_response(eng, e, a, kw):
        v = a[0]
        if isinstance(v, tuple) and len(v) == 3:
            return Obj('Response', {'data': v[0], 'status': v[1], 'headers': v[2]})
        return Obj('Response', {'data': a[0], 'status': a[1], 'headers': {}})
    return {
        'self.check_for_synthetic_http_error': lambda eng, e, a, kw: None,       # region: no injected error asked for
        'adp_set.compute_av_values': lambda eng, e, a, kw: None,
        'adp_set.set_dash_timing': lambda eng, e, a, kw: None,
        'datetime.datetime.now': lambda eng, e, a, kw: DT(z3.Int('now')),
        'UTC': lambda eng, e, a, kw: Opaque('utc'),
        'self.load_fragment': load_fragment,
        'EventFactory.create_event_generators': lambda eng, e, a, kw: PyList([]),   # region: no inband events asked for
        'io.BytesIO': lambda eng, e, a, kw: EncodedAtom(),
        'atom.encode': encode,
        'atom.moof.traf.index': traf_index, 'traf.insert_child': insert_child, 'traf.find_child': find_child,
        'sum': model_sum_of_durations, 'setattr:TfdtBox.base_media_decode_time': tfdt_setattr,
        'getattr:TrackFragmentBox.tfdt': missing_child,         # Mp4Atom.__getattr__: no such child box
        'mp4.TrackFragmentDecodeTimeBox': lambda eng, e, a, kw: Obj('TfdtBox', dict(kw)),
        'attr:mp4.TrackFragmentRunBox.data_offset_present': lambda eng: 1,
        'self.get_http_range': lambda eng, e, a, kw: (None, None, 200, {}),        # region: no Range header (see C13)
        'content_type_to_mime_type': lambda eng, e, a, kw: Opaque('mime'),
        'add_allowed_origins': lambda eng, e, a, kw: None,
        'flask.make_response': make_response,
    }


def gms(mode, kind, content_type, with_sidx=True, has_tfdt=True):
    callee = next(c for c in MSI if c.variant == f'{mode}-{kind}')
    sp = callee.spec

    def env(w):
        rep = rep_obj(w, mode)
        rep.f['encrypted'] = False
        return {'self': Obj('LiveMedia', {}), 'stream': Obj('Stream', {'timing_reference': ref_obj(w)}),
                'media_file': Obj('MediaFile', {'representation': rep, 'content_type': content_type, 'track_id': w['track_id'],
                                                'name': Opaque('name'), 'codec_fourcc': Opaque('fourcc')}),
                'mode': mode,
                'options': Obj('OptionsContainer', {'mode': mode, 'segmentTimeline': kind == 'time', 'videoCorruption': None}),
                'seg_num': z3.Int('seg_num') if kind == 'number' else None,
                'seg_time': z3.Int('seg_time') if kind == 'time' else None}
    # a stored fragment without a tfdt gets one: its decode time is the sum of the durations before it
    stored_time = 'TF(served_mod)' if has_tfdt else 'S(served_mod - 1)'
    origin = f'(result.data.tfdt - {stored_time})'
    served = [('served_number', f"result.data.sequence_number == {sp['num']}"), ('no_sidx', 'not result.data.has_sidx'),
              ('stored_segment', '1 <= served_mod and served_mod <= n')]
    if not has_tfdt:
        served += [('tfdt_follows_tfhd', "order_is(result.data.order, 'tfhd', 'tfdt', 'trun')"),
                   ('trun_gets_data_offset', '(result.data.trun_flags // 1) % 2 == 1 and result.data.trun_flags // 2 == trun_flags // 2'),
                   ('tfhd_base_recomputed', 'is_none(result.data.tfhd_base)'),
                   ('tfdt_version_fits', f'result.data.tfdt_version == 1 or result.data.tfdt < {2 ** 32}')]
    if mode == 'live':
        status = [('refused_must', f"result.status == 404 if ({sp['must']}) or {sp['outside']} else True"),
                  ('refused_may', f"(({sp['may']}) or {sp['outside']}) if result.status == 404 else True")]
        served += [(lab, t) for lab, t in gsi(sp['tc'], 'served_mod', f'({origin} + S(served_mod - 1))', origin) if lab != 'start']
    else:
        status = [('refused', f"(result.status == 404) == ({sp['outside']})")]
        served += [('served_fragment', f"served_mod == ({sp['num']}) - sn + 1"), ('served_time', f'result.data.tfdt == {stored_time}')]
    return Contract(
        key=f'{MRQ}:MediaRequestBase.generate_media_segment', variant=f'{mode}-{kind}-{content_type}{"" if with_sidx else "-nosidx"}{"" if has_tfdt else "-notfdt"}',
        props=['C02', 'C16', 'C01' if mode == 'live' else 'C06'], env=env,
        requires=list(callee.requires) + ([] if has_tfdt else [('trun_flags_24bit', '0 <= trun_flags and trun_flags < 16777216')]),
        models=gms_models(with_sidx, has_tfdt),
        ctors={'AdaptationSet': lambda eng, a, kw: Obj('AdaptationSet', {'content_type': kw['content_type'],
                                                                         'representations': PyList([])}),
               'DashTiming': lambda eng, a, kw: timing_obj(eng.world, mode)},
        ensures=[('status', 'result.status == 404 or result.status == 200')] + status +
                [(lab, f'True if result.status == 404 else ({t})') for lab, t in served],
        canaries=['result.status == 404'],
        witness_terms=witness(('seg_num', 'seg_time', 'stored_seq', 'trun_flags')),
    )


def gms_flags():
    """C03 (handler part): which deferred fix-ups are armed before the fragment is encoded.  Encrypted video with one
    event generator that yields one emsg box or none (symbolic) and a DRM hook that inserts a box into the traf or not
    (symbolic): tfhd.base_data_offset must be cleared (so that it is recomputed when the tfhd is encoded) exactly when the
    moof moves or changes - an emsg goes in front of it, or the traf was modified; saio.offsets must be cleared exactly
    when the traf was modified; the emsg boxes sit directly before the moof."""
    base = gms('vod', 'number', 'video')

    def env(w):
        e = base.env(w)
        e['media_file'].f['representation'].f['encrypted'] = True
        return e
    m = dict(base.models)
    inner_load = m['self.load_fragment']

    def load_fragment(eng, e, a, kw):
        atom = inner_load(eng, e, a, kw)
        traf = atom.f['moof'].f['traf']
        traf.f.update(tfhd=Obj('TfhdBox', {'base_data_offset': z3.Int('stored_base_data_offset')}),
                      saio=Obj('SaioBox', {'offsets': PyList([z3.Int('stored_saio_offset')])}), senc=Obj('SencBox', {}))
        atom.f['children'] = PyList(['styp', 'sidx', 'moof', 'mdat'])
        return atom

    def create_emsg_boxes(eng, e, a, kw):
        return PyList(['emsg']) if eng.branch(z3.Bool('has_event')) else PyList([])

    def encode(eng, e, a, kw):
        atom = eng.eval(e.func.value)
        traf = atom.f['moof'].f['traf']
        off = traf.f['saio'].f['offsets']
        a[0].snapshot = Obj('EncodedSegment', {
            'children': atom.f['children'], 'tfhd_base': traf.f['tfhd'].f['base_data_offset'],
            'saio_cleared': off is None, 'sequence_number': atom.f['moof'].f['mfhd'].f['sequence_number'],
            '__len__': fresh('encoded_len')})
    m.update({
        'self.load_fragment': load_fragment, 'atom.encode': encode,
        'EventFactory.create_event_generators': lambda eng, e, a, kw: PyList([Obj('EventGenerator', {})]),
        'evgen.create_emsg_boxes': create_emsg_boxes,
        'atom.index': lambda eng, e, a, kw: eng.eval(e.func.value).f['children'].items.index(a[0]),
        'atom.children.insert': lambda eng, e, a, kw: eng.eval(e.func.value.value).f['children'].items.insert(a[0], a[1]),
        'self.update_traf_if_required': lambda eng, e, a, kw: z3.Bool('traf_modified_by_drm'),
    })
    return Contract(
        key=base.key, variant='fixups-encrypted-video-events', props=['C03', 'C16'], env=env,
        requires=[('rep_valid', 'rep_valid'), ('region_served', 'sn <= seg_num and seg_num <= sn + n - 1')],
        models=m, ctors=base.ctors,
        ensures=[('served', 'result.status == 200'),
                 ('tfhd_base_cleared_iff_moof_moves', 'is_none(result.data.tfhd_base) == (has_event or traf_modified_by_drm)'),
                 ('tfhd_base_kept_otherwise', 'True if (has_event or traf_modified_by_drm) else result.data.tfhd_base == stored_base_data_offset'),
                 ('saio_cleared_iff_traf_modified', 'result.data.saio_cleared == traf_modified_by_drm'),
                 ('emsg_directly_before_moof', "order_is(result.data.children, 'styp', 'sidx', 'emsg', 'moof', 'mdat') if has_event "
                                               "else order_is(result.data.children, 'styp', 'sidx', 'moof', 'mdat')")],
        canaries=['is_none(result.data.tfhd_base)'],
        witness_terms=lambda w: (lambda ev: dict(witness(('seg_num', 'stored_seq', 'stored_base_data_offset'))(w)(ev),
                                                 has_event=ev(z3.Bool('has_event')), traf_modified_by_drm=ev(z3.Bool('traf_modified_by_drm')))),
    )


GMS_FLAGS = gms_flags()


class EncodedData:
    """dest.getvalue(): the encoded segment, `length` bytes; slicing gives a window of it"""
    py_types = ('bytes',)

    def __init__(self, length, lo=None, hi=None):
        self.length, self.lo, self.hi = length, lo, hi

    def len(self, eng):
        return self.length if self.lo is None else z3.If(self.hi >= self.lo, self.hi - self.lo, 0)

    def method(self, eng, name, args, kwargs, e):
        if name == 'tobytes' and not args:
            return self
        raise Unsupported(f'bytes.{name}')

    def getslice(self, eng, lo, hi):
        if self.lo is not None:
            raise Unsupported('slice of a slice')
        return EncodedData(self.length, zint(0 if lo is None else lo), zint(self.length if hi is None else hi))


def gms_range():
    """C13 (media-segment consumer of get_http_range): the length handed to the range parser is the length of the encoded
    segment - also when video corruption has moved the stream cursor - and a satisfiable range is served as exactly
    bytes start..end of the encoded segment with the parser's status and headers."""
    base = gms('vod', 'number', 'video')

    def env(w):
        e = base.env(w)
        e['options'].f['videoCorruption'] = PyList([z3.Int('corrupt_seg')])
        return e
    m = dict(base.models)

    class Dest:
        py_types = ('BytesIO',)

        def __init__(self, w):
            self.w, self.cursor_at_end = w, True

        def method(self, eng, name, args, kwargs, e):
            if name in ('getvalue', 'getbuffer'):
                return EncodedData(self.w['encoded_len'])
            if name == 'tell':
                return self.w['encoded_len'] if self.cursor_at_end else self.w['cursor_after_corruption']
            raise Unsupported(f'BytesIO.{name}')

    def corrupt(eng, e, a, kw):
        a[3].cursor_at_end = False          # apply_video_corruption seeks into the buffer and does not seek back

    def get_http_range(eng, e, a, kw):
        w = eng.world
        eng.ghost_env['range_arg'] = zint(a[0])
        if eng.branch(w['range_present']):
            return (w['r_start'], w['r_end'], 206, {'Content-Range': Opaque('cr')})
        return (None, None, 200, {})
    m.update({'io.BytesIO': lambda eng, e, a, kw: Dest(eng.world), 'atom.encode': lambda eng, e, a, kw: None,
              'self.apply_video_corruption': corrupt, 'self.get_http_range': get_http_range})
    return Contract(
        key=base.key, variant='range-video-corruption', props=['C13', 'C16'], env=env,
        requires=[('rep_valid', 'rep_valid'), ('region_served', 'sn <= seg_num and seg_num <= sn + n - 1'),
                  ('encoded', 'encoded_len >= 8 and 0 <= cursor_after_corruption and cursor_after_corruption <= encoded_len'),
                  # what get_http_range guarantees for a satisfiable range of a body of range_arg bytes (its contract)
                  ('parser_post', '0 <= r_start and r_start <= r_end')],
        models=m, ctors=base.ctors,
        ensures=[('range_parsed_against_the_full_length', 'range_arg == encoded_len'),
                 ('slice_of_the_encoded_segment', '(is_window(result.data, r_start, r_end + 1) and result.status == 206) if range_present '
                                                  'else (is_whole(result.data) and result.status == 200)')],
        canaries=['range_present'],
        witness_terms=lambda w: (lambda ev: dict(witness(('seg_num',))(w)(ev), **{k: ev(z3.Int(k)) for k in (
            'encoded_len', 'cursor_after_corruption', 'r_start', 'r_end', 'corrupt_seg')}, range_present=ev(z3.Bool('range_present')))),
    )


GMS_RANGE = gms_range()


# ----------------------------------------------------------------------------- LiveMedia.get: request checks (C16 / C01)
class SegmentText:
    """the <segment_num> path component: the text 'init', a decimal number, or something else"""

    def __init__(self, is_init, is_number, value):
        self.is_init, self.is_number, self.value = is_init, is_number, value

    def compare(self, eng, op, other, swapped):
        if other == 'init' and isinstance(op, (ast.Eq, ast.NotEq)):
            return z3.Not(self.is_init) if isinstance(op, ast.NotEq) else self.is_init
        raise Unsupported('segment text comparison')

    def to_int(self, eng, base):
        if not eng.branch(self.is_number):
            raise PyRaise('ValueError')
        return self.value


def live_get_contract(content_type, by_time=False):
    def env(w):
        e = env0(w)
        if by_time:
            e['segment_num'], e['segment_time'] = None, z3.Int('seg_value')
        return e

    def env0(w):
        rep = Obj('Representation', {'encrypted': z3.Bool('rep_encrypted')})
        return {'self': Obj('LiveMedia', {}), 'mode': 'live', 'stream': Opaque('stream'), 'filename': Opaque('file'), 'ext': 'mp4',
                'segment_num': SegmentText(z3.Bool('seg_is_init'), z3.Bool('seg_is_number'), z3.Int('seg_value')),
                'segment_time': None,
                'current_media_file': Obj('MediaFile', {'representation': rep, 'content_type': content_type}),
                'current_stream': Obj('Stream', {'timing_reference': Opt(z3.Bool('no_timing_reference'), Obj('Ref', {}))})}

    def calculate_options(eng, e, a, kw):
        if eng.branch(z3.Bool('bad_options')):
            raise PyRaise('ValueError')
        return Obj('OptionsContainer', {'encrypted': z3.Bool('options_encrypted'), 'segmentTimeline': None})

    def options_update(eng, e, a, kw):
        eng.eval(e.func.value).f.update(kw)

    def make_response(eng, e, a, kw):
        return Obj('Response', {'status': a[1], 'what': 'error'})
    known_type = content_type in ('audio', 'video', 'text')
    pre = 'not bad_options and not no_timing_reference and not (rep_encrypted and not options_encrypted)'
    ens = [('bad_options_400', 'result.status == 400 if bad_options else True'),
           ('no_timing_reference_404', 'result.status == 404 if (not bad_options and no_timing_reference) else True'),
           ('encrypted_without_drm_404', 'result.status == 404 if (not bad_options and not no_timing_reference and rep_encrypted '
                                         'and not options_encrypted) else True')]
    if not known_type:
        ens.append(('unsupported_content_type_404', f'result.status == 404 if ({pre}) else True'))
    elif by_time:
        ens += [('media_segment_by_time', f"(result.what == 'media' and is_none(result.args['seg_num']) and result.args['seg_time'] == seg_value "
                                          f"and result.args['mode'] == 'live' and result.args['options'].segmentTimeline == True) "
                                          f'if ({pre}) else True')]
    else:
        ens += [('init_segment', f"(result.what == 'init' and result.mode == 'live') if ({pre} and seg_is_init) else True"),
                ('bad_number_404', f'result.status == 404 if ({pre} and not seg_is_init and not seg_is_number) else True'),
                ('media_segment', f"(result.what == 'media' and result.args['seg_num'] == seg_value and is_none(result.args['seg_time']) "
                                  f"and result.args['mode'] == 'live' and result.args['options'].segmentTimeline == False) "
                                  f'if ({pre} and not seg_is_init and seg_is_number) else True')]
    return Contract(
        key=f'{MRQ}:LiveMedia.get', variant=content_type + ('-time' if by_time else ''), props=['C16', 'C01'], env=env,
        models={'self.calculate_options': calculate_options, 'options.update': options_update,
                'flask.make_response': make_response, 'attr:flask.request.args': lambda eng: Opaque('args'),
                'html.escape': lambda eng, e, a, kw: Opaque('escaped'),
                'self.generate_init_segment': lambda eng, e, a, kw: Obj('Response', {'status': 200, 'what': 'init', 'mode': a[1]}),
                'self.generate_media_segment': lambda eng, e, a, kw: Obj('Response', {'status': 200, 'what': 'media', 'args': kw})},
        ensures=ens,
        canaries=['result.status == 404'],
        witness_terms=lambda w: (lambda ev: dict({k: ev(z3.Bool(k)) for k in (
            'rep_encrypted', 'seg_is_init', 'seg_is_number', 'no_timing_reference', 'bad_options', 'options_encrypted')},
            seg_value=ev(z3.Int('seg_value')))),
    )


LIVE_GET = [live_get_contract('video'), live_get_contract('text'), live_get_contract('image'), live_get_contract('audio', by_time=True)]

GMS = [gms('live', 'number', 'audio'), gms('live', 'time', 'video'), gms('vod', 'number', 'video', with_sidx=False),
       gms('vod', 'time', 'audio'), gms('live', 'time', 'audio', has_tfdt=False), gms('vod', 'number', 'audio', has_tfdt=False)]


# ----------------------------------------------------------------------------- SegmentList (on-demand byte ranges)
def ctor_segment_position(eng, args, kw):
    vals = dict(zip(('start', 'end'), args))
    vals.update(kw)
    return Obj('SegmentPosition', {'start': vals['start'], 'end': vals['end']})


def ctor_segment_index_list(eng, args, kw):
    return Obj('SegmentIndexList', {'timescale': kw['timescale'], 'duration': kw['duration'], 'init': kw['init'],
                                    'media': ArrList('media', {'start': INT, 'end': INT}, length=z3.IntVal(0),
                                                     elem_cls='SegmentPosition')})


GENERATE_SEGMENT_LIST = Contract(
    key=f'{REP}:Representation.generateSegmentList',
    props=['C06'],
    env=lambda w: {'self': rep_obj(w, 'vod')},
    requires=[('rep_valid', 'rep_valid')],
    ctors={'SegmentPosition': ctor_segment_position, 'SegmentIndexList': ctor_segment_index_list},
    loops={0: Loop(
        invariant=[('it', '0 <= _it0 and _it0 <= n + 1'),
                   ('first', 'first == (_it0 == 0)'),
                   ('init', 'True if _it0 == 0 else (rv.init.start == pos(0) and rv.init.end == pos(0) + size(0) - 1)'),
                   ('count', 'length(rv.media) == (0 if _it0 == 0 else _it0 - 1)'),
                   ('media', 'forall(lambda k: rv.media[k].start == pos(k + 1) and '
                             'rv.media[k].end == pos(k + 1) + size(k + 1) - 1, 0, length(rv.media))')],
        extra_modifies=['rv.media', 'rv.init'],
        variant=['_hi0 - _it0'])},
    ensures=[('init', 'result.init.start == pos(0) and result.init.end == pos(0) + size(0) - 1'),
             ('count', 'length(result.media) == n'),
             ('media', 'forall(lambda k: result.media[k].start == pos(k + 1) and '
                       'result.media[k].end == pos(k + 1) + size(k + 1) - 1, 0, n)'),
             ('timescale', 'result.timescale == ts and result.duration == M')],
    canaries=['length(result.media) == 0'],
    witness_terms=witness(),
)


# ----------------------------------------------------------------------------- SegmentTimeline
# Absolute indexing of the endlessly looped media, counted from the start of the loop the timeline begins in:
# index i >= 1 is segment ((i-1) mod n)+1 of loop (i-1) div n.  dx is the periodic extension of the
# drift-corrected durations dcan(m) = d(m) + (drift if m == n else 0); ghost `base` (a multiple of n) and
# `a = base + mod_segment` carry the periodicity without any mod/div.
TL_FIELDS = {'duration': INT, 'count': INT, 'start': 'opt_int', 'mod_segment': INT, 'a': INT, 't': INT}


def ctor_timeline_element(eng, args, kw):
    g = eng.ghost_env
    # ghost fields: absolute index / implied start time of the node's first segment.  Before the loop (ghosts not
    # yet initialised) these are the entry values of mod_segment / seg_start_time.
    a = g['a'] if 'a' in g else eng.lookup('mod_segment')
    t = g['cur'] if 'cur' in g else eng.lookup('seg_start_time')
    return Obj('SegmentTimelineElement', {
        'duration': None, 'count': 0, 'start': None, 'mod_segment': kw.get('mod_segment', 0), 'a': a, 't': t})


def timeline(mode):
    live = mode == 'live'
    drift = '(R - M)' if live else '0'
    dcan = (lambda m: f'(d({m}) + ({drift} if {m} == n else 0))') if live else (lambda m: f'd({m})')
    node_ok = lambda x: (f'({x}.count >= 1 and {x}.duration >= 1 and 1 <= {x}.mod_segment and {x}.mod_segment <= n)')
    inv = [
        ('mod_range', '1 <= mod_segment and mod_segment <= n'),
        ('abs_index', 'a == base + mod_segment and base >= 0 and a >= a0'),
        ('period', f'forall(lambda i: dx(base + i) == {dcan("i")}, 1, n + 1)'),
        ('dur', 'dur >= 0 and cur == seg_start_time + dur and (dur == 0) == (a == a0)'),
        ('fresh_node', '(s_node.count == 0 and is_none(s_node.duration) and is_none(s_node.start) and length(rv) == 0 '
                       'and s_node.a == a0 and s_node.t == seg_start_time and s_node.mod_segment == a0) if dur == 0 else True'),
        ('node_fields', f'True if dur == 0 else (not is_none(s_node.duration) and {node_ok("s_node")})'),
        ('node_run', 'True if dur == 0 else (s_node.a + s_node.count == a and '
                     's_node.t + s_node.count * optval(s_node.duration) == cur)'),
        ('node_durations', 'True if dur == 0 else '
                           'forall(lambda j: dx(s_node.a + j) == optval(s_node.duration), 0, s_node.count)'),
        ('node_start', 'True if dur == 0 else (is_none(s_node.start) == (length(rv) > 0) and '
                       '(optval(s_node.start) == seg_start_time if length(rv) == 0 else True))'),
        ('node_first', 'True if (dur == 0 or length(rv) > 0) else (s_node.a == a0 and s_node.t == seg_start_time)'),
        ('last_lt_end', 'True if dur == 0 else (dur - optval(s_node.duration) < end and end > 0)'),
        ('list_nodes', f'forall(lambda k: {node_ok("rv[k]")}, 0, length(rv))'),
        ('list_first', 'True if length(rv) == 0 else (rv[0].a == a0 and rv[0].t == seg_start_time and '
                       'not is_none(rv[0].start) and optval(rv[0].start) == seg_start_time)'),
        ('list_chain', 'forall(lambda k: rv[k].a == rv[k - 1].a + rv[k - 1].count and '
                       'rv[k].t == rv[k - 1].t + rv[k - 1].count * rv[k - 1].duration and is_none(rv[k].start), '
                       '1, length(rv))'),
        ('list_link', 'True if (dur == 0 or length(rv) == 0) else '
                      '(s_node.a == rv[length(rv) - 1].a + rv[length(rv) - 1].count and '
                      's_node.t == rv[length(rv) - 1].t + rv[length(rv) - 1].count * rv[length(rv) - 1].duration)'),
        ('list_durations', 'forall(lambda k, j: (dx(rv[k].a + j) == rv[k].duration) '
                           'if (k < length(rv) and j < rv[k].count) else True, 0, None)'),
    ]
    ens = [
        ('nonempty', 'length(result) >= 1 if end_ > 0 else length(result) == 0'),
        ('nodes', f'forall(lambda k: {node_ok("result[k]")}, 0, length(result))'),
        ('first_start', 'True if length(result) == 0 else (result[0].a == a0 and not is_none(result[0].start) and '
                        'optval(result[0].start) == tl_start and result[0].t == tl_start)'),
        ('only_first_has_t', 'forall(lambda k: is_none(result[k].start), 1, length(result))'),
        ('contiguous', 'forall(lambda k: result[k].a == result[k - 1].a + result[k - 1].count and '
                       'result[k].t == result[k - 1].t + result[k - 1].count * result[k - 1].duration, 1, length(result))'),
        ('durations', 'forall(lambda k, j: (dx(result[k].a + j) == result[k].duration) '
                      'if (k < length(result) and j < result[k].count) else True, 0, None)'),
        ('covers_window', 'True if length(result) == 0 else '
                          '(result[length(result) - 1].t + result[length(result) - 1].count * result[length(result) - 1].duration '
                          '- tl_start >= end_ and '
                          'result[length(result) - 1].t + (result[length(result) - 1].count - 1) * result[length(result) - 1].duration '
                          '- tl_start < end_)'),
    ]

    def env(w):
        return {'self': rep_obj(w, mode)}
    req = BASIC + [('ref_compatible', 'S(n - 1) < R'), ('dx_def', 'dx_periodic_live' if live else 'dx_periodic_vod')]
    if live:
        req += [('clock', 'live_clock')]
        ens += [('starts_at_' + lab, t) for lab, t in gsi('tl0', 'a0', 'tl_start', 'origin0')]
    else:
        ens += [('starts_at_zero', 'a0 == 1 and tl_start == 0')]
    # spec names for the timeline start: in live mode the result of calculate_segment_from_timecode(timeline_start)
    defs = ['tl0 == (ts * F) // 1000000'] if live else []
    return Contract(
        key=f'{REP}:Representation.generateSegmentTimeline', variant=mode,
        props=['C02', 'C01', 'C09'] if live else ['C06'],
        env=env, requires=req, defs=defs,
        lists={'rv': TL_FIELDS, 'result': TL_FIELDS},
        ctors={'SegmentTimelineElement': ctor_timeline_element},
        loops={0: Loop(
            ghost={'a0': 'mod_segment', 'a': 'mod_segment', 'base': '0', 'cur': 'seg_start_time',
                   'tl_start': 'seg_start_time', 'end_': 'end', 'origin0': 'origin_time'},
            ghost_update={'a': 'a + 1', 'base': 'base + n if mod_segment == 1 else base',
                          'cur': 'seg_start_time + dur'},
            invariant=inv,
            instances=[('dx_periodic_at_base', 'forall(lambda i: dx(base + n + i) == dx(base + i), 1, n + 1)')],
            types={'s_node.duration': 'opt_int', 's_node.start': 'opt_int'},
            variant=['end - dur'])},
        ensures=ens,
        canaries=['length(result) == 1'],
        witness_terms=witness(),
    )


# ----------------------------------------------------------------------------- lemmas (C02 / C01)
def _gsi_facts(w, tc, m, start, origin):
    """get_segment_index's postcondition (GSI_CLAUSES) as z3 facts about (m, start, origin) for timecode tc."""
    n, R, S, d, Lof = w['n'], w['R'], w['S'], w['d'], w['Lof']
    j = z3.Int('j!gsi')
    two = z3.IntVal(2)
    return [1 <= m, m <= n, m == w['Mof'](tc), origin == Lof(tc) * R, start == origin + S(m - 1), origin - R <= tc, tc < origin + R,
            start + floordiv(d(m), two) >= tc, z3.Implies(origin > tc, m == 1),
            z3.ForAll([j], z3.Implies(z3.And(1 <= j, j < m), origin + S(j - 1) + floordiv(d(j), two) < tc)),
            z3.Implies(origin > tc, z3.ForAll([j], z3.Implies(z3.And(1 <= j, j <= n),
                       origin - R + S(j - 1) + floordiv(d(j), two) < tc)))]


def _mono(w):
    """prefix sums are monotone on [0, n]: a consequence of d >= 1 by induction (one step is lemma prefix_step)"""
    i, k = z3.Ints('i!mono k!mono')
    return z3.ForAll([i, k], z3.Implies(z3.And(0 <= i, i <= k, k <= w['n']), w['S'](i) <= w['S'](k)))


def lemma_time_exact(w):
    """C02: a request for an exact canonical start tc = L0*R + S(m0-1) (every start inside its loop: S(n-1) < R)
    is answered with exactly that segment: (m0, tc, L0*R).  Three chained steps."""
    n, R, S, Lof = w['n'], w['R'], w['S'], w['Lof']
    L0, m0, m, start, origin = z3.Ints('L0 m0 m_r start_r origin_r')
    tc = L0 * R + S(m0 - 1)
    L = Lof(tc)
    pc = [w['rep_valid'], R > 0, _mono(w), S(n - 1) < R, L0 >= 0, 1 <= m0, m0 <= n] + _gsi_facts(w, tc, m, start, origin)
    a = z3.Or(L == L0, L == L0 + 1)
    return [('a_loop_candidates', pc, a), ('b_same_loop', pc + [a], L == L0),
            ('c_same_segment', pc + [L == L0], z3.And(m == m0, start == tc, origin == L0 * R))]


def lemma_prefix_monotone(w):
    n, S = w['n'], w['S']
    i = z3.Int('i')
    return [w['rep_valid'], 1 <= i, i <= n], S(i - 1) < S(i)


def lemma_mod_reference(w):
    """C02: the source position delivered (start - origin = S(m-1)) equals the served start modulo the reference
    duration R whenever every segment starts inside its loop (S(n-1) < R)."""
    n, R, S, Lof = w['n'], w['R'], w['S'], w['Lof']
    tc, m, start, origin = z3.Ints('tc m_r start_r origin_r')
    pc = [w['rep_valid'], R > 0, _mono(w), S(n - 1) < R, tc >= 0] + _gsi_facts(w, tc, m, start, origin)
    a = z3.And(0 <= start - origin, start - origin < R, Lof(tc) >= 0)
    return [('a_inside_loop', pc, a),
            ('b_modulo', pc + [a], z3.And(start - origin == S(m - 1), start - origin == pymod(start, R),
                                         origin == floordiv(start, R) * R))]


def lemma_number_near(w):
    """C02: for $Number$ = num the served start lies within half a segment duration of tc = (num - sn)*sd:
    start >= tc - d(m)//2 always; the preceding segment's midpoint lies before tc (m > 1), so
    start < tc + d(m-1) - d(m-1)//2; if the search wrapped (m == 1, origin > tc) the start is the next loop
    origin, i.e. tc plus at most the last segment's half duration plus the per-loop drift R - S(n)."""
    n, R, S, d = w['n'], w['R'], w['S'], w['d']
    tc, m, start, origin = z3.Ints('tc m_r start_r origin_r')
    pc = [w['rep_valid'], R > 0, tc >= 0] + _gsi_facts(w, tc, m, start, origin)
    two = z3.IntVal(2)
    return pc, z3.And(start >= tc - floordiv(d(m), two),
                      z3.Implies(m > 1, start < tc + d(m - 1) - floordiv(d(m - 1), two)),
                      z3.Implies(z3.And(m == 1, origin > tc),
                                 start < tc + d(n) - floordiv(d(n), two) + (R - S(n))))


def lemma_canonical_contiguity(w):
    """C02 gaplessness: canonical segments tile the time line - start(L, m) + dur(L, m) is the start of the next
    canonical segment, also across the loop boundary where the drift correction R - S(n) is added."""
    n, R, S, d = w['n'], w['R'], w['S'], w['d']
    L, m = z3.Ints('L m')
    start = lambda L_, m_: L_ * R + S(m_ - 1)
    dur = d(m) + z3.If(m == n, R - S(n), 0)
    return [w['rep_valid'], 1 <= m, m <= n], z3.If(m < n, start(L, m) + dur == start(L, m + 1),
                                                     start(L, m) + dur == start(L + 1, 1))


def _strict_mono(w):
    i, k = z3.Ints('i!smono k!smono')
    return z3.ForAll([i, k], z3.Implies(z3.And(0 <= i, i < k, k <= w['n']), w['S'](i) < w['S'](k)))


def lemma_canonical_unique(w):
    """C09 agreement: a start time determines the canonical segment (and hence its duration): two manifests that both
    list a segment starting at t list the same (L, m), so the same duration d(m) (+ drift for m == n)."""
    n, R, S = w['n'], w['R'], w['S']
    L1, m1, L2, m2 = z3.Ints('L1 m1 L2 m2')
    pc = [w['rep_valid'], R > 0, _strict_mono(w), S(n - 1) < R, 1 <= m1, m1 <= n, 1 <= m2, m2 <= n,
          L1 * R + S(m1 - 1) == L2 * R + S(m2 - 1)]
    a = z3.And(0 <= S(m1 - 1), S(m1 - 1) < R, 0 <= S(m2 - 1), S(m2 - 1) < R)
    return [('a_offsets_inside_loop', pc, a), ('b_same_loop', pc + [a], L1 == L2),
            ('c_same_segment', pc + [a, L1 == L2], m1 == m2)]


def lemma_gsi_monotone(w):
    """C09 the listed window only moves forward: get_segment_index is monotone in its argument
    (tc1 <= tc2 => start1 <= start2), so a later firstAvailableTime never starts the timeline earlier."""
    n, R, S, d, Lof = w['n'], w['R'], w['S'], w['d'], w['Lof']
    tc1, tc2, m1, s1, o1, m2, s2, o2 = z3.Ints('tc1 tc2 m1 s1 o1 m2 s2 o2')
    pc = [w['rep_valid'], R > 0, _strict_mono(w), S(n - 1) < R, 0 <= tc1, tc1 <= tc2] + \
        _gsi_facts(w, tc1, m1, s1, o1) + _gsi_facts(w, tc2, m2, s2, o2)
    a = z3.Implies(o1 > o2, o1 == o2 + R)       # both origins are multiples of R and tc1 <= tc2 < o2 + R
    b = z3.And(0 <= s1 - o1, s1 - o1 < R, 0 <= s2 - o2, s2 - o2 < R)
    return [('a_adjacent_loops', pc, a), ('b_offsets', pc, b), ('c_monotone', pc + [a, b], s1 <= s2)]


def lemma_cross_track_alignment(w):
    """C02: when Rref*ts is a multiple of tsref the per-loop duration R of this track, in seconds, equals the
    reference duration exactly (R/ts == Rref/tsref), so tracks stay aligned after any number of loops."""
    R, Rref, ts, tsref = w['R'], w['Rref'], w['ts'], w['tsref']
    return [ts >= 1, tsref >= 1, Rref >= 0, R == floordiv(Rref * ts, tsref), pymod(Rref * ts, tsref) == 0], R * tsref == Rref * ts


def lemma_cross_track_drift_canary(w):
    """...and without that divisibility it is false (known finding C02-cross-track-drift): must not be provable"""
    R, Rref, ts, tsref = w['R'], w['Rref'], w['ts'], w['tsref']
    return [ts >= 1, tsref >= 1, Rref >= 0, R == floordiv(Rref * ts, tsref)], R * tsref == Rref * ts


def lemma_number_in_window_accepted(w):
    """C01 ($Number$): every number k whose 5.3.9.5.3 availability window [(k+1)*D, (k+2)*D + B] (D = sd/ts,
    computed from manifest values only) contains the elapsed time E is accepted by
    LiveMedia.calculate_media_segment_index - in the region leeway W*ts >= 2*sd*10^6 + ts (known finding
    outside it) and segment duration >= 1 us."""
    ts, sd, sn, E, F, W, B = (w[k] for k in ('ts', 'sd', 'sn', 'E', 'F', 'W', 'B'))
    k = z3.Int('k')
    tc = k * sd
    num = sn + k
    inwin = z3.And(k >= 0, (k + 1) * sd * MILLION <= E * ts, E * ts <= (k + 2) * sd * MILLION + B * MILLION * ts)
    last = sn + floordiv(floordiv(ts * E, z3.IntVal(MILLION)), sd)
    first = z3.If(last - 2 - floordiv(ts * B, sd) >= sn, last - 2 - floordiv(ts * B, sd), sn)
    may = z3.Or(2 * MILLION * tc < (2 * (F - W) + 1) * ts, 2 * MILLION * tc > (2 * E - 1) * ts, tc < 0,
                num < first, num > last)
    region = z3.And(W * ts >= 2 * sd * MILLION + ts, sd * MILLION >= ts)     # leeway >= 2 segments; a segment lasts >= 1 us
    pc = [ts >= 1, sd >= 1, w['live_clock'], inwin, region]
    return pc, z3.Not(may)      # "may raise" is false => the call returns (contract: raised => may)


def _timeline_entry(w, drop=()):
    """C01 ($Time$): a SegmentTimeline entry (t, sd) that ends no later than now is accepted by
    LiveMedia.calculate_media_segment_index(None, t).  Uses: every listed segment is canonical and not earlier than
    the timeline start (timeline contract), which is within half a segment of floor(ts*F/10^6) (get_segment_index
    contract, clause `reached`).  Region: uniform durations (all d == sd, R == n*sd: every canonical start is a
    multiple of sd), start_number <= 1, the entry's number j >= start_number (stream older than its window), leeway
    W*ts >= (sd//2 + 1)*10^6 + ts, segment duration >= 1 us.  Each dropped assumption is a known finding."""
    ts, sd, sn, E, F, W, B = (w[k] for k in ('ts', 'sd', 'sn', 'E', 'F', 'W', 'B'))
    j, t, tl_start, tl0 = z3.Ints('j t tl_start tl0')
    facts = {
        'uniform': t == j * sd,
        'listed': z3.And(j >= 0, t >= tl_start, tl_start + floordiv(sd, z3.IntVal(2)) >= tl0,
                         tl0 == floordiv(ts * F, z3.IntVal(MILLION))),
        'ended': (t + sd) * MILLION <= E * ts,
        'sn_le_1': z3.And(0 <= sn, sn <= 1),
        'not_young': j >= sn,
        'leeway': W * ts >= (floordiv(sd, z3.IntVal(2)) + 1) * MILLION + ts,
        'min_duration': sd * MILLION >= ts,
    }
    num = floordiv(t, sd)
    last = sn + floordiv(floordiv(ts * E, z3.IntVal(MILLION)), sd)
    first = z3.If(last - 2 - floordiv(ts * B, sd) >= sn, last - 2 - floordiv(ts * B, sd), sn)
    may = z3.Or(2 * MILLION * t < (2 * (F - W) + 1) * ts, 2 * MILLION * t > (2 * E - 1) * ts, t < 0,
                num < first, num > last)
    pc = [ts >= 1, sd >= 1, w['live_clock']] + [f for k, f in facts.items() if k not in drop]
    return pc, z3.Not(may)


def lemma_timeline_entry_accepted(w):
    return _timeline_entry(w)


def lemma_number_in_window_needs_leeway(w):
    """canary: without the leeway region the claim is false (known finding C01-number-leeway)"""
    pc, goal = lemma_number_in_window_accepted(w)
    return pc[:-1], goal


GROUP = Group(
    name='rep',
    world=world,
    contracts=[MEDIA_DURATION_USING_TIMESCALE, GET_SEGMENT_INDEX, CALC_SEGMENT_FROM_TIMECODE, TIMESCALE_TO_TIMEDELTA,
               FL_LIVE, FL_VOD, SNT_LIVE_NUMBER, SNT_LIVE_TIME, SNT_VOD_NUMBER, SNT_VOD_TIME] + MSI +
              [GENERATE_SEGMENT_LIST, timeline('live'), timeline('vod')] + GMS + [GMS_FLAGS, GMS_RANGE] + LIVE_GET,
    lemmas=[
        Lemma('time_exact', ['C02'], lemma_time_exact),
        Lemma('prefix_step', ['C02'], lemma_prefix_monotone),
        Lemma('mod_reference', ['C02'], lemma_mod_reference),
        Lemma('number_near', ['C02'], lemma_number_near),
        Lemma('canonical_contiguity', ['C02', 'C09'], lemma_canonical_contiguity),
        Lemma('canonical_unique', ['C09'], lemma_canonical_unique),
        Lemma('get_segment_index_monotone', ['C09'], lemma_gsi_monotone),
        Lemma('cross_track_alignment', ['C02'], lemma_cross_track_alignment),
        Lemma('cross_track_alignment_without_divisibility', ['C02'], lemma_cross_track_drift_canary, canary=True),
        Lemma('number_in_window_accepted', ['C01'], lemma_number_in_window_accepted),
        Lemma('number_in_window_accepted_without_leeway', ['C01'], lemma_number_in_window_needs_leeway, canary=True),
        Lemma('timeline_entry_accepted', ['C01'], lemma_timeline_entry_accepted),
        Lemma('timeline_entry_accepted_without_leeway', ['C01'], lambda w: _timeline_entry(w, ('leeway',)), canary=True),
        Lemma('timeline_entry_accepted_young_stream', ['C01'], lambda w: _timeline_entry(w, ('not_young',)), canary=True),
        Lemma('timeline_entry_accepted_start_number_2', ['C01'], lambda w: _timeline_entry(w, ('sn_le_1',)), canary=True),
        Lemma('timeline_entry_accepted_irregular', ['C01'], lambda w: _timeline_entry(w, ('uniform',)), canary=True),
    ],
    assumptions=[
        'rep_valid: n >= 2 media segments, every stored duration >= 1, timescale >= 1, nominal segment duration >= 1 '
        '(what Representation.__init__/load establish for an indexed file)',
        'R > 0 (reference duration in this track\'s timescale; the code asserts it)',
        'float arithmetic in timescale_to_timedelta is exact real arithmetic, rounded to the nearest microsecond by '
        'datetime.timedelta (gap: bounded stand-in c19_tick_grid)',
        'lemmas time_exact / mod_reference assume monotone prefix sums, which follows from d >= 1 by induction '
        '(single step proved as lemma prefix_step)',
    ],
    trusted=[],
    not_covered=['generate_media_segment is under contract for the listed variants (live/vod x number/time x audio/video, missing tfdt, '
                 'fix-ups, range + corruption); the served decode time equals the proved start only if the stored tfdt of '
                 'segment m is t0 + S(m-1) (what Representation.load establishes, group load)',
                 'generateSegmentTimeline run-length list (see evidence of the timeline contract when present)'],
)
GROUP.callees = [DT_GROUP.TIMEDELTA_TO_TIMECODE, DT_GROUP.SCALE_TIMEDELTA, DT_GROUP.TIMECODE_TO_TIMEDELTA]
