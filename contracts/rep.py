"""Contracts for dashlive/mpeg/dash/representation.py + reference.py (C02, C01, C06, C09).

Vocabulary (DESIGN.md section 3): a Representation with n media segments, durations
d(1..n), prefix sums S, timescale ts, nominal segment duration sd, start number sn,
first decode time t0; timing reference (Rref ticks @ tsref); R = Rref*ts // tsref.
"""
import z3
from pyvc.vals import *          # noqa: F401,F403
from pyvc.contract import Contract, Loop, Lemma, Group

REP = 'dashlive/mpeg/dash/representation.py'
REF = 'dashlive/mpeg/dash/reference.py'


def world():
    w = {}
    for nm in ('n', 'ts', 'sd', 'sn', 't0', 'R', 'Rref', 'tsref', 'track_id',
               'E', 'F', 'W', 'B', 'ref_sd', 'ref_n'):
        w[nm] = z3.Int(nm)
    w['d'] = z3.Function('d', INT, INT)
    w['S'] = z3.Function('S', INT, INT)
    w['pos'] = z3.Function('pos', INT, INT)
    w['size'] = z3.Function('size', INT, INT)
    i = z3.Int('i!ax')
    n, d, S = w['n'], w['d'], w['S']
    # prefix sums: S(0)=0, S(i)=S(i-1)+d(i); every media segment has a positive duration
    w['rep_valid'] = z3.And(
        n >= 2, w['ts'] >= 1, w['sd'] >= 1, S(0) == 0,
        z3.ForAll([i], z3.Implies(z3.And(1 <= i, i <= n), z3.And(S(i) == S(i - 1) + d(i), d(i) >= 1))))
    w['M'] = S(n)
    w['__bases__'] = {}
    return w


def ref_obj(w):
    return Obj('StreamTimingReference', {
        'media_duration': w['Rref'], 'timescale': w['tsref'], 'segment_duration': w['ref_sd'],
        'num_media_segments': w['ref_n'], 'media_name': Opaque('name')})


def timing_obj(w, mode):
    return Obj('DashTiming', {
        'mode': mode, 'stream_reference': ref_obj(w),
        'elapsedTime': TD(w['E']), 'firstAvailableTime': TD(w['F']), 'leeway': TD(w['W']),
        'timeShiftBufferDepth': w['B'], 'now': DT(z3.Int('now')),
        'availabilityStartTime': DT(z3.Int('ast'))})


def rep_obj(w, mode='live'):
    segs = SeqFn('segments', {'duration': w['d'], 'pos': w['pos'], 'size': w['size']}, w['n'] + 1, 'Segment')
    return Obj('Representation', {
        'segments': segs, 'num_media_segments': w['n'], 'timescale': w['ts'],
        'segment_duration': w['sd'], 'start_number': w['sn'], 'start_time': w['t0'],
        'mediaDuration': w['M'], 'track_id': w['track_id'], 'content_type': Opaque('content_type'),
        'id': Opaque('id'), '_timing': timing_obj(w, mode)})


# ----------------------------------------------------------------------------- contracts
def gsi_result(eng, frame):
    frame['L'] = fresh('L')
    return (fresh('mod_segment'), fresh('seg_start_tc'), fresh('origin_time'))


def gsi_witness(w):
    def wt(ev):
        n = ev(w['n'])
        out = {k: ev(w[k]) for k in ('n', 'ts', 'sd', 'sn', 't0', 'R', 'Rref', 'tsref')}
        out['timecode'] = ev(z3.Int('timecode'))
        if isinstance(n, int) and 0 <= n <= 64:
            out['d'] = [ev(w['d'](z3.IntVal(i))) for i in range(1, n + 1)]
        return out
    return wt


MEDIA_DURATION_USING_TIMESCALE = Contract(
    key=f'{REF}:StreamTimingReference.media_duration_using_timescale',
    props=['C02', 'C01', 'C06'],
    env=lambda w: {'self': ref_obj(w), 'timescale': w['ts']},
    requires=[('ts_pos', 'self.timescale >= 1'), ('same_ts', 'timescale == ts')],
    defs=['R == (Rref * ts) // tsref'],
    ensures=[('is_R', 'result == R')],
    result=lambda eng, frame: fresh('ref_duration_tc'),
    canaries=['result == R + 1'],
)

GET_SEGMENT_INDEX = Contract(
    key=f'{REP}:Representation.get_segment_index',
    props=['C02', 'C01', 'C12'],
    env=lambda w: {'self': rep_obj(w), 'timecode': z3.Int('timecode')},
    requires=[('rep_valid', 'rep_valid'), ('R_pos', 'R > 0'), ('tc_nonneg', 'timecode >= 0'),
              ('ref_ts', 'tsref >= 1')],
    loops={0: Loop(
        ghost={'L': 'timecode // R'},
        ghost_update={'L': 'L + 1 if origin_time == (L + 1) * R else L'},
        invariant=[
            ('range', '1 <= mod_segment and mod_segment <= n'),
            ('origin', 'origin_time == L * R'),
            ('start', 'seg_start_tc == origin_time + S(mod_segment - 1)'),
            ('loops', 'timecode // R <= L and L <= timecode // R + 1'),
            ('wrapped_first', 'implies(L == timecode // R + 1, mod_segment == 1)'),
            ('earlier_too_early',
             'forall(lambda j: origin_time + S(j - 1) + d(j) // 2 < timecode, 1, mod_segment)'),
            ('prev_loop_too_early',
             'implies(L == timecode // R + 1, '
             'forall(lambda j: (L - 1) * R + S(j - 1) + d(j) // 2 < timecode, 1, n + 1))'),
        ],
        variant=['timecode // R + 1 - L', 'n - mod_segment'])},
    native_ghost={'L': 'result[2] // R'},
    result=gsi_result,
    ensures=[
        ('range', '1 <= result[0] and result[0] <= n'),
        ('origin', 'result[2] == L * R'),
        ('start', 'result[1] == result[2] + S(result[0] - 1)'),
        ('loops', 'timecode // R <= L and L <= timecode // R + 1'),
        ('reached', 'result[1] + d(result[0]) // 2 >= timecode'),
        ('wrapped_first', 'result[0] == 1 if L == timecode // R + 1 else True'),
        ('first_such', 'forall(lambda j: result[2] + S(j - 1) + d(j) // 2 < timecode, 1, result[0])'),
        ('first_such_prev_loop',
         'forall(lambda j: (L - 1) * R + S(j - 1) + d(j) // 2 < timecode, 1, n + 1) '
         'if L == timecode // R + 1 else True'),
    ],
    canaries=['result[1] + d(result[0]) // 2 > timecode', 'result[0] < n'],
    witness_terms=gsi_witness,
)


GROUP = Group(
    name='rep',
    world=world,
    contracts=[MEDIA_DURATION_USING_TIMESCALE, GET_SEGMENT_INDEX],
    assumptions=[],
)
