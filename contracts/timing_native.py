"""Native builders for the `timing` group: real DashTiming objects driven through calculate_live_params."""
import datetime
from types import SimpleNamespace as NS

from dashlive.mpeg.dash.reference import StreamTimingReference
from dashlive.mpeg.dash.timing import DashTiming
from dashlive.utils.timezone import UTC

EPOCH = datetime.datetime(1970, 1, 1, tzinfo=UTC())
US = datetime.timedelta(microseconds=1)
DAY = 86400 * 10**6


def to_dt(us):
    return EPOCH + datetime.timedelta(microseconds=int(us))


def us_of(x):
    if isinstance(x, datetime.datetime):
        return (x - EPOCH) // US
    return x // US


def month_start(day):
    d = (EPOCH + datetime.timedelta(days=int(day))).replace(day=1)
    return (d - EPOCH).days


def year_start(day):
    d = (EPOCH + datetime.timedelta(days=int(day))).replace(month=1, day=1)
    return (d - EPOCH).days


def build(key, variant, i):
    qual = key.split(':')[1]
    if qual == 'DashTiming.calculate_vod_params':
        ref = StreamTimingReference(media_name='ref', media_duration=int(i['ref_dur']), num_media_segments=10,
                                    segment_duration=int(i.get('ref_sd', 1)), timescale=int(i['ref_ts']))
        t = DashTiming.__new__(DashTiming)
        now = to_dt(i['now'])
        t.mode, t.now, t.publishTime, t.stream_reference, t.leeway = 'vod', now, now.replace(microsecond=0), ref, datetime.timedelta(0)
        env = {'self': t, 'now': now, 'options': NS(mode='vod'), 'ref_dur': ref.media_duration, 'ref_ts': ref.timescale,
               'us': us_of, 'micros': us_of}
        return {'env': env, 'old_env': dict(env), 'call': lambda: t.calculate_vod_params(now, NS(mode='vod'))}
    now_us = int(i['now'])
    now = to_dt(now_us)
    ref = StreamTimingReference(media_name='ref', media_duration=int(i['ref_sd']) * 10, num_media_segments=10,
                                segment_duration=int(i['ref_sd']), timescale=int(i['ref_ts']))
    opt = lambda none, val: None if i[none] else int(i[val])
    start = to_dt(i['opt_ast']) if variant == 'explicit' else (variant if variant in ('epoch', 'today', 'month', 'year', 'now') else 'epoch')
    options = NS(mode='live', availabilityStartTime=start, timeShiftBufferDepth=opt('depth_none', 'opt_depth'),
                 minimumUpdatePeriod=opt('mup_none', 'opt_mup'), leeway=opt('leeway_none', 'opt_leeway'))
    t = DashTiming.__new__(DashTiming)
    t.mode, t.now, t.publishTime, t.stream_reference = 'live', now, now.replace(microsecond=0), ref
    t.leeway = datetime.timedelta(0)
    env = {
        'self': t, 'now': now, 'options': options, 'NOW': now_us, 'NOW_S': now_us - now_us % 10**6,
        'NOW_DAY0': now_us - now_us % DAY, 'now_day': now_us // DAY, 'now_sec': (now_us % DAY) // 10**6,
        'now_norm': True, 'calendar': True, 'month_start': month_start, 'year_start': year_start,
        'ref_sd': ref.segment_duration, 'ref_ts': ref.timescale,
        'opt_depth': int(i['opt_depth']), 'opt_mup': int(i['opt_mup']), 'opt_leeway': int(i['opt_leeway']),
        'opt_ast': int(i['opt_ast']), 'depth_none': bool(i['depth_none']), 'mup_none': bool(i['mup_none']),
        'leeway_none': bool(i['leeway_none']),
        'us': us_of, 'optval': lambda x: x, 'zmin': min, 'zmax': max,
    }
    old = dict(env)
    if qual == 'DashTiming.__init__':
        options.mode = variant
        env['ref_dur'] = ref.media_duration
        env['micros'] = us_of
        t2 = DashTiming.__new__(DashTiming)
        env['self'] = t2
        env['stream_ref'] = ref
        return {'env': env, 'old_env': old, 'call': lambda: t2.__init__(now, ref, options)}
    return {'env': env, 'old_env': old, 'call': lambda: t.calculate_live_params(now, options)}


def finding_fractional_start(i):
    """C08: an explicit availabilityStartTime with fractional seconds makes the (truncated) publishTime earlier than
    availabilityStartTime and not a whole number of periods after it."""
    case = build('x:DashTiming.calculate_live_params', 'explicit', i)
    case['call']()
    t = case['env']['self']
    bad = t.publishTime < t.availabilityStartTime
    if t.minimumUpdatePeriod:
        off = (t.publishTime - t.availabilityStartTime) / datetime.timedelta(seconds=t.minimumUpdatePeriod)
        bad = bad or off != int(off)
    return bad, f'availabilityStartTime={t.availabilityStartTime.isoformat()} publishTime={t.publishTime.isoformat()} minimumUpdatePeriod={t.minimumUpdatePeriod}'
