"""Effective decorators of a handler method, read from the source text (no z3, importable by the native side too)."""
import ast
import os


def effective_decorators(repo, relpath, cls_name, method):
    tree = ast.parse(open(os.path.join(repo, relpath), encoding='utf-8').read())
    cls = next((n for n in tree.body if isinstance(n, ast.ClassDef) and n.name == cls_name), None)
    if cls is None:
        return None
    out = []
    for st in cls.body:
        tgt = st.targets[0] if isinstance(st, ast.Assign) else getattr(st, 'target', None)
        if isinstance(st, (ast.Assign, ast.AnnAssign)) and isinstance(tgt, ast.Name) and tgt.id == 'decorators' and st.value is not None:
            out += [ast.unparse(x) for x in getattr(st.value, 'elts', [])]
    if method != '*':
        fn = next((m for m in cls.body if isinstance(m, ast.FunctionDef) and m.name == method), None)
        if fn is None:
            return None
        out += [ast.unparse(d) for d in fn.decorator_list]
    return out
