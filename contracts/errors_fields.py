"""z3-free constants shared by contracts/errors.py and its native side"""
CONTEXT_FIELDS = ('periods', 'patch', 'mpd_id', 'availabilityStartTime', 'timeShiftBufferDepth', 'minimumUpdatePeriod', 'startNumber',
                  'title', 'profiles', 'timing_ref', 'cgi_params', 'timeSource', 'elapsedTime', 'mediaDuration', 'minBufferTime',
                  'suggestedPresentationDelay', 'locationURL')
