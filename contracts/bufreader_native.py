"""Native builders for the `bufreader` group: a real BufferedReader over an in-memory file."""
import io

from dashlive.utils.buffered_reader import BufferedReader


def build(key, variant, i):
    qual = key.split(':')[1]
    Len, bs, off, size = int(i['Len']), int(i['buffersize']), int(i['offset']), int(i['size'])
    if Len > 1 << 20:
        raise ValueError('file too large to realise')
    F = bytes((7 * k + 3) % 251 for k in range(Len))
    r = BufferedReader(io.BytesIO(F), buffersize=bs, offset=off, size=size, max_buffers=int(i['max_buffers']))
    r.pos = int(i['pos'])
    cached = [int(b) for b in i.get('cached', [])]
    if isinstance(i.get('card'), int) and i['card'] != len(cached):
        raise ValueError('model state not realisable: cached buckets outside the sampled candidates')
    if len(cached) > r.max_buffers:
        raise ValueError('model state not realisable')
    for b in cached:
        r.cache(b)
    if isinstance(i.get('fpos'), int) and i['fpos'] >= 0:
        r.reader.seek(int(i['fpos']))

    def wf(o):
        ok = (o.buffersize >= 1 and o.offset >= 0 and 0 <= o.pos <= o.size and o.offset + o.size <= Len
              and o.max_buffers >= 1 and o.num_buffers == len(o.buffers) <= o.max_buffers)
        for b, buf in o.buffers.items():
            ok = ok and b >= 0 and buf.pos == b and bytes(buf.data) == F[o.offset + b: o.offset + b + o.buffersize] \
                and buf.size == len(buf.data)
        return ok
    is_bytes = lambda x: isinstance(x, (bytes, bytearray))
    env = {
        'self': r, 'Len': Len, 'wf': wf, 'is_bytes': is_bytes, 'blen': len,
        'data_is': lambda x, lo, hi: is_bytes(x) and bytes(x) == F[lo:hi] and hi <= Len,
        'data_prefix': lambda x, lo, k: is_bytes(x) and len(x) >= k and bytes(x[:k]) == F[lo:lo + k],
        'card': len, 'zmin': min, 'zmax': max, 'val': lambda x: x,
    }
    if qual.endswith('.__init__'):
        r2 = BufferedReader.__new__(BufferedReader)
        env.update(self=r2, reader=io.BytesIO(F), buffersize=bs, data=None, offset=off, size=size,
                   max_buffers=int(i['max_buffers']), fpos=0)
        return {'env': env, 'old_env': dict(env), 'call': lambda: r2.__init__(env['reader'], buffersize=bs, offset=off, size=size,
                                                                             max_buffers=int(i['max_buffers']))}
    if qual.endswith('.cache'):
        env['bucket'] = int(i['bucket'])
        call = lambda: r.cache(int(i['bucket']))
    elif qual.endswith('.peek'):
        env['size'] = int(i['n'])
        call = lambda: r.peek(int(i['n']))
    elif qual.endswith('.readall'):
        call = lambda: r.readall()
    elif qual.endswith('.read'):
        env['n'] = int(i['n'])
        call = lambda: r.read(int(i['n']))
    elif qual.endswith('.seek'):
        env['offset'], env['whence'] = int(i['target']), int(i['whence'])
        call = lambda: r.seek(int(i['target']), int(i['whence']))
    elif qual.endswith('.tell'):
        call = lambda: r.tell()
    else:
        raise KeyError(qual)
    old = dict(env)
    old['self'] = type('Snap', (), {k: getattr(r, k) for k in ('pos', 'offset', 'size', 'buffersize', 'max_buffers', 'num_buffers')})()
    old['self'].buffers = dict(r.buffers)
    return {'env': env, 'old_env': old, 'call': call}


def search(key, variant, i):
    """Refutation aid: short random operation sequences on small windows, compared with an in-memory stream over
    the window (the statement of C20).  Deterministic (seeded); returns the first failing scenario or None."""
    import random
    rnd = random.Random(20)
    for trial in range(3000):
        Len = rnd.randint(1, 60)
        off = rnd.randint(0, Len)
        size = rnd.randint(0, Len - off)
        bs = rnd.randint(1, 9)
        mb = rnd.randint(1, 4)
        F = bytes((7 * k + 3) % 251 for k in range(Len))
        r = BufferedReader(io.BytesIO(F), buffersize=bs, offset=off, size=size, max_buffers=mb)
        ref = io.BytesIO(F[off:off + size])
        ops = []
        for _ in range(rnd.randint(1, 8)):
            kind = rnd.choice(['read', 'read', 'readall', 'seek', 'peek', 'tell'])
            try:
                if kind == 'read':
                    n = rnd.randint(0, size + 2)
                    ops.append(f'read({n})')
                    got, want = r.read(n), ref.read(n)
                elif kind == 'readall':
                    ops.append('read()')
                    got, want = r.read(), ref.read()
                elif kind == 'seek':
                    wh = rnd.choice([0, 0, 1, 2])
                    t = rnd.randint(-size - 2, size + 2) if wh else rnd.randint(0, size + 2)
                    ops.append(f'seek({t},{wh})')
                    got = r.seek(t, wh)
                    want = max(0, min(size, [t, ref.tell() + t, size + t][wh]))
                    ref.seek(want)
                elif kind == 'peek':
                    n = rnd.randint(1, size + 2)
                    ops.append(f'peek({n})')
                    got = r.peek(n)
                    k = max(0, min(n, size - ref.tell()))
                    want = F[off + ref.tell(): off + ref.tell() + k]
                    got = bytes(got[:k]) if isinstance(got, (bytes, bytearray)) else got
                else:
                    ops.append('tell()')
                    got, want = r.tell(), ref.tell()
            except Exception as err:
                return {'file_len': Len, 'offset': off, 'size': size, 'buffersize': bs, 'max_buffers': mb, 'ops': ops,
                        'observed': repr(err)}
            if got != want or r.tell() != ref.tell():
                return {'file_len': Len, 'offset': off, 'size': size, 'buffersize': bs, 'max_buffers': mb, 'ops': ops,
                        'observed': repr(got)[:80], 'expected': repr(want)[:80], 'pos': r.tell(), 'expected_pos': ref.tell()}
    return None
