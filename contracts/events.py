"""Contracts for dashlive/server/events (C14, C16): the in-band / manifest event schedule."""
import z3
from pyvc.vals import *          # noqa: F401,F403
from pyvc.contract import Contract, Loop, Lemma, Group

REB = 'dashlive/server/events/repeating_event_base.py'
SCTE = 'dashlive/server/events/scte35_events.py'


def world():
    w = {}
    for nm in ('start', 'interval', 'count', 'duration', 'ets', 'version', 'tfdt', 'rts', 'nseg',
               'mod_segment', 'segment_num', 'program_id', 'a', 'b'):
        w[nm] = z3.Int(nm)
    w['inband'] = z3.Bool('inband')
    for nm in ('opt_default', 'opt_min', 'opt_max', 'opt_v'):
        w[nm] = z3.Int(nm)
    w['opt_empty'] = z3.Bool('opt_empty')
    w['MPEG_TIMEBASE'] = 90000
    w['segdur'] = z3.Function('segdur', INT, INT)
    w['__bases__'] = {'Scte35Events': ['RepeatingEventBase'], 'PingPongEvents': ['RepeatingEventBase']}
    # a = segment start, b = segment end, both in the event timebase
    # (constants; their defining equations are the contract's `defs`)
    w['sched'] = lambda k: z3.And(
        zint(k) >= 0, z3.Or(w['count'] == 0, zint(k) < w['count']),
        w['a'] <= w['start'] + zint(k) * w['interval'], w['start'] + zint(k) * w['interval'] < w['b'])
    return w


def event_obj(w, cls='RepeatingEventBase'):
    return Obj(cls, {
        'start': w['start'], 'interval': w['interval'], 'count': w['count'], 'duration': w['duration'],
        'timescale': w['ets'], 'version': w['version'], 'inband': w['inband'],
        'schemeIdUri': Opaque('scheme'), 'value': Opaque('value'), 'program_id': w['program_id']})


def emsg_env(w):
    tfdt = Obj('TrackFragmentDecodeTimeBox', {'base_media_decode_time': w['tfdt']})
    moof = Obj('MovieFragmentBox', {'traf': Obj('TrackFragmentBox', {'tfdt': tfdt})})
    rep = Obj('Representation', {'timescale': w['rts'],
                                 'segments': SeqFn('segments', {'duration': w['segdur']}, w['nseg'] + 1, 'Segment')})
    return {'self': event_obj(w), 'segment_num': w['segment_num'], 'mod_segment': w['mod_segment'],
            'moof': moof, 'representation': rep, 'kwargs': {}}


EMSG_FIELDS = {'event_id': INT, 'pt': INT, 'version': INT, 'timescale': INT, 'event_duration': INT, 'is_delta': BOOL}


def ctor_emsg(eng, args, kw):
    """EventMessageBox(**kwargs): the record keeps whichever time field the caller supplied
    (`pt`); which one it must be for the box version is the postcondition's business."""
    has_pt, has_delta = 'presentation_time' in kw, 'presentation_time_delta' in kw
    if has_pt == has_delta:
        raise Unsupported('emsg constructed with both / neither time fields')
    pt = kw['presentation_time'] if has_pt else kw['presentation_time_delta']
    return Obj('EventMessageBox', {'event_id': kw['event_id'], 'pt': pt, 'version': kw['version'],
                                   'timescale': kw['timescale'], 'event_duration': kw['event_duration'],
                                   'is_delta': has_delta})


def emsg_witness(w):
    def wt(ev):
        out = {k: ev(w[k]) for k in ('start', 'interval', 'count', 'duration', 'ets', 'version', 'tfdt', 'rts',
                                     'mod_segment', 'inband')}
        out['segdur'] = ev(w['segdur'](w['mod_segment']))
        return out
    return wt


REQ_EMSG = [
    ('interval_pos', 'self.interval >= 1'), ('count_nonneg', 'self.count >= 0'),
    ('ets_pos', 'self.timescale >= 1'), ('rts_pos', 'representation.timescale >= 1'),
    ('start_nonneg', 'self.start >= 0'), ('tfdt_nonneg', 'moof.traf.tfdt.base_media_decode_time >= 0'),
    ('mod_range', '1 <= mod_segment and mod_segment <= nseg'),
    ('dur_pos', 'representation.segments[mod_segment].duration >= 1'),
    ('version01', 'self.version == 0 or self.version == 1'),
]

PT_OF = ('(self.start + result[k].event_id * self.interval if self.version == 1 '
         'else self.start + result[k].event_id * self.interval - a)')

CREATE_EMSG_BOXES = Contract(
    key=f'{REB}:RepeatingEventBase.create_emsg_boxes',
    props=['C14', 'C16'],
    env=emsg_env,
    requires=REQ_EMSG,
    defs=['a == (tfdt * ets) // rts', 'b == ((tfdt + segdur(mod_segment)) * ets) // rts'],
    lists={'retval': EMSG_FIELDS, 'result': EMSG_FIELDS},
    ctors={'EventMessageBox': ctor_emsg},
    models={'self.get_emsg_event_payload': lambda eng, e, args, kw: Opaque('payload')},
    loops={0: Loop(
        ghost={'lo': 'event_id'},
        ghost_update={'lo': 'event_id if length(retval) == 0 else lo'},
        invariant=[
            ('pt', 'presentation_time == self.start + event_id * self.interval'),
            ('ids', 'event_id >= 0 and lo >= 0 and event_id == lo + length(retval)'),
            ('bounds', 'seg_start == a and seg_end == b'),
            ('emitted_ids', 'forall(lambda k: retval[k].event_id == lo + k, 0, length(retval))'),
            ('emitted_sched', 'forall(lambda k: sched(lo + k), 0, length(retval))'),
            ('emitted_pt', 'forall(lambda k: retval[k].pt == (self.start + (lo + k) * self.interval '
                           'if self.version == 1 else self.start + (lo + k) * self.interval - a), 0, length(retval))'),
            ('emitted_meta', 'forall(lambda k: retval[k].version == self.version and retval[k].timescale == self.timescale '
                             'and retval[k].event_duration == self.duration and retval[k].is_delta == (self.version == 0), '
                             '0, length(retval))'),
            ('skipped', 'forall(lambda k: not sched(k), 0, lo)'),
            ('none_before', 'length(retval) > 0 or event_id == 0 or presentation_time - self.interval < a'),
            # the event emitted last lies inside the segment (makes the "skip" path obviously the empty-list case)
            ('after_first', 'length(retval) == 0 or presentation_time - self.interval >= a'),
        ],
        extra_modifies=['seg_start', 'seg_end'],     # abstracted to a, b by the `bounds` invariant
        variant=['b - presentation_time'])},
    ensures=[
        ('outband_empty', 'length(result) == 0 if not self.inband else True'),
        ('ids_contiguous', 'forall(lambda k: result[k].event_id == result[0].event_id + k, 0, length(result))'),
        ('only_scheduled', 'forall(lambda k: sched(result[k].event_id), 0, length(result))'),
        ('all_scheduled', 'forall(lambda j: (length(result) > 0 and result[0].event_id <= j '
                          'and j < result[0].event_id + length(result)) if (sched(j) and self.inband) else True, 0, None)'),
        ('times', f'forall(lambda k: result[k].pt == {PT_OF}, 0, length(result))'),
        ('delta_nonneg', 'forall(lambda k: result[k].pt >= 0, 0, length(result))'),
        ('meta', 'forall(lambda k: result[k].version == self.version and result[k].timescale == self.timescale '
                 'and result[k].event_duration == self.duration and result[k].is_delta == (self.version == 0), '
                 '0, length(result))'),
    ],
    canaries=['length(result) == 0', 'length(result) <= 1'],
    witness_terms=emsg_witness,
)


# ----------------------------------------------------------------------------- manifest-side listing
def ctor_event_stream(eng, args, kw):
    return Obj('EventStream', {'schemeIdUri': kw['schemeIdUri'], 'value': kw['value'], 'timescale': kw['timescale'],
                               'inband': kw['inband'],
                               'events': ArrList('events', {'id': INT, 'presentationTime': INT, 'duration': INT},
                                                 length=z3.IntVal(0), elem_cls='DashEvent')})


def append_event(eng, e, args, kw):
    d = args[0]
    stream = eng.eval(e.func.value.value)
    stream.f['events'] = stream.f['events'].appended({'id': d['id'], 'presentationTime': d['presentationTime'],
                                                      'duration': d['duration']})
    return None


append_event.modifies = ['stream.events']

CREATE_MANIFEST_CONTEXT = Contract(
    key=f'{REB}:RepeatingEventBase.create_manifest_context', props=['C14'],
    env=lambda w: {'self': event_obj(w), 'context': {}},
    requires=[('count_nonneg', 'self.count >= 0')],
    ctors={'EventStream': ctor_event_stream},
    models={'self.get_manifest_event_payload': lambda eng, e, args, kw: Opaque('payload'),
            'stream.events.append': append_event},
    loops={0: Loop(
        invariant=[('it', '0 <= _it0 and _it0 <= self.count'),
                   # the running time of the loop, where the code keeps one in a local of this name (a temporary, not part of the property)
                   ('pt', "(presentation_time == self.start + _it0 * self.interval) if bound('presentation_time') else True"),
                   ('len', 'length(stream.events) == _it0'),
                   ('events', 'forall(lambda k: stream.events[k].id == k and stream.events[k].duration == self.duration and '
                              'stream.events[k].presentationTime == self.start + k * self.interval, 0, length(stream.events))')],
        variant=['_hi0 - _it0'])},
    ensures=[('schedule', 'length(result.events) == (0 if self.inband else self.count)'),
             ('entries', 'forall(lambda k: result.events[k].id == k and result.events[k].duration == self.duration and '
                         'result.events[k].presentationTime == self.start + k * self.interval, 0, length(result.events))'),
             ('stream', 'result.timescale == self.timescale and result.inband == self.inband')],
    canaries=['length(result.events) == 0'],
    witness_terms=emsg_witness,
)


# ----------------------------------------------------------------------------- SCTE-35 signal of an event
def rec(cls):
    def ctor(eng, args, kw):
        return Obj(cls, dict(kw))
    return ctor


CREATE_BINARY_SIGNAL = Contract(
    key=f'{SCTE}:Scte35Events.create_binary_signal', props=['C14', 'C16'],
    env=lambda w: {'self': event_obj(w, 'Scte35Events'), 'event_id': z3.Int('event_id'),
                   'presentation_time': z3.Int('presentation_time')},
    # region: the schedule values fit the SCTE-35 field widths (8-bit avail counters, 33-bit durations): known
    # findings C14-scte35-avail-8bit / C14-scte35-duration-33bit outside it
    requires=[('ets_pos', 'self.timescale >= 1'), ('id', 'event_id >= 0'), ('pt', 'presentation_time >= 0'),
              ('count', 'self.count >= 0 and (self.count == 0 or event_id < self.count)'),
              ('duration', 'self.duration >= 0'),
              ('region_avail_8bit', 'self.count < 510'),
              ('region_duration_33bit', 'self.duration * 90000 // self.timescale < 8589934592'),
              ('region_event_id_32bit', 'event_id < 4294967296'), ('program_id_16bit', '0 <= self.program_id and self.program_id < 65536')],
    models={'attr:descriptors.SegmentationTypeId.PROVIDER_PLACEMENT_OP_START': lambda eng: 0x34,
            'attr:SapType.CLOSED_GOP_NO_LEADING_PICTURES': lambda eng: 0},
    ctors={'BinarySignal': rec('BinarySignal'), 'SpliceInsert': rec('SpliceInsert'),
           'descriptors.SegmentationDescriptor': rec('SegmentationDescriptor')},
    ensures=[
        ('pts', 'result.splice_insert.splice_time["pts"] == (presentation_time * 90000 // self.timescale) % 8589934592'),
        ('break_duration', 'result.splice_insert.break_duration["duration"] == self.duration * 90000 // self.timescale'),
        ('auto_return', 'result.splice_insert.break_duration["auto_return"] == (event_id % 2 == 0)'),
        ('event_id', 'result.splice_insert.splice_event_id == event_id and result.splice_insert.unique_program_id == self.program_id'),
        ('widths', '0 <= result.splice_insert.splice_time["pts"] and result.splice_insert.splice_time["pts"] < 8589934592 and '
                   '0 <= result.splice_insert.break_duration["duration"] and result.splice_insert.break_duration["duration"] < 8589934592 and '
                   '0 <= result.splice_insert.avail_num and result.splice_insert.avail_num < 256 and '
                   '0 <= result.splice_insert.avails_expected and result.splice_insert.avails_expected < 256 and '
                   'result.splice_insert.splice_event_id < 4294967296'),
        ('avail', 'result.splice_insert.avail_num <= result.splice_insert.avails_expected'),
        ('segmentation', 'result.descriptors[0].segmentation_type == 52 + event_id % 2 and '
                         'result.descriptors[0].segmentation_event_id == result.splice_insert.avail_num'),
    ],
    canaries=['result.splice_insert.avail_num == 0'],
    witness_terms=lambda w: (lambda ev: {k: ev(z3.Int(k) if k in ('event_id', 'presentation_time') else w[k])
                                         for k in ('event_id', 'presentation_time', 'count', 'duration', 'ets', 'program_id')}),
)


# ----------------------------------------------------------------------------- event option ranges (what establishes REQ_EMSG)
EVB = 'dashlive/server/events/base.py'
OPTION_RANGES = {'count': (0, None), 'duration': (0, None), 'interval': (1, None), 'start': (0, None), 'timescale': (1, None),
                 'version': (0, 1)}


def int_option(has_min, has_max):
    """EventBase.int_or_default_from_string(default, minimum, maximum) -> int_or_default(value): the default for an empty
    text, the number itself when it lies in the range, ValueError (the handlers' 400) otherwise"""
    def env(w):
        from pyvc.models.text import SignedDigits
        return {'value': Opaque('option-text'), 'default': z3.Int('opt_default'),
                'minimum': z3.Int('opt_min') if has_min else None, 'maximum': z3.Int('opt_max') if has_max else None}
    out = ' or '.join((['opt_v < opt_min'] if has_min else []) + (['opt_v > opt_max'] if has_max else [])) or 'False'
    return Contract(
        key=f'{EVB}:EventBase.int_or_default_from_string.int_or_default', variant=f'min={has_min},max={has_max}', props=['C16', 'C14'],
        env=env,
        models={'DashOption.int_or_none_from_string': lambda eng, e, a, kw: Opt(z3.Bool('opt_empty'), z3.Int('opt_v'))},
        ensures=[('default_for_an_empty_text', 'result == opt_default if opt_empty else True'),
                 ('the_number_itself_in_range', f'result == opt_v if not opt_empty else True'),
                 ('result_in_range', ('True' if not has_min else '(opt_empty or result >= opt_min)') + ' and ' +
                                     ('True' if not has_max else '(opt_empty or result <= opt_max)'))],
        raises={'ValueError': f'(not opt_empty) and ({out})'},
        canaries=['result == opt_default + 1 and opt_empty'],
        witness_terms=lambda w: (lambda ev: dict({k: ev(z3.Int(k)) for k in ('opt_default', 'opt_min', 'opt_max', 'opt_v')},
                                                 opt_empty=ev(z3.Bool('opt_empty')))),
    )


INT_OPTION = [int_option(True, True), int_option(True, False), int_option(False, False)]


def event_class_tables(repo):
    """MINIMUM_VALUES / MAXIMUM_VALUES / DEFAULT_VALUES as every event class of dashlive/server/events/*.py sees them: the
    class attribute is looked up along the base-class chain (as Python does), the first class that assigns it wins.  Only
    dict literals can be evaluated here; DEFAULT_VALUES may also be `merge(Base.DEFAULT_VALUES, {...})` (literal second
    argument).  Anything else cannot be decided by this lemma (Unsupported -> UNDECIDED, never a silent pass)."""
    import ast as _ast
    import os
    classes = {}
    d = os.path.join(repo, 'dashlive/server/events')
    for fn in sorted(os.listdir(d)):
        if fn.endswith('.py'):
            for node in _ast.parse(open(os.path.join(d, fn)).read()).body:
                if isinstance(node, _ast.ClassDef):
                    classes[node.name] = node

    def own(cls, attr):
        for st in cls.body:
            tgt = st.targets[0] if isinstance(st, _ast.Assign) and len(st.targets) == 1 else (st.target if isinstance(st, _ast.AnnAssign) else None)
            if isinstance(tgt, _ast.Name) and tgt.id == attr and getattr(st, 'value', None) is not None:
                return st.value
        return None

    def resolve(name, attr):
        cls = classes.get(name)
        if cls is None:
            return {}
        v = own(cls, attr)
        if v is None:
            for b in cls.bases:
                if isinstance(b, _ast.Name) and b.id in classes:
                    return resolve(b.id, attr)
            return {}
        if isinstance(v, _ast.Dict):
            return _ast.literal_eval(v)
        if isinstance(v, _ast.Call) and _ast.unparse(v.func) == 'merge' and len(v.args) == 2 and isinstance(v.args[0], _ast.Attribute) \
                and isinstance(v.args[0].value, _ast.Name) and v.args[0].attr == attr and isinstance(v.args[1], _ast.Dict):
            out = dict(resolve(v.args[0].value.id, attr))
            out.update(_ast.literal_eval(v.args[1]))
            return out
        raise Unsupported(f'{name}.{attr} is not a dict literal: {_ast.unparse(v)[:80]}')
    concrete = [n for n, c in classes.items() if n not in ('EventBase', 'RepeatingEventBase', 'EventFactory') and
                any(isinstance(b, _ast.Name) and b.id in ('EventBase', 'RepeatingEventBase') for b in c.bases)]
    return {n: {a: resolve(n, a) for a in ('MINIMUM_VALUES', 'MAXIMUM_VALUES', 'DEFAULT_VALUES')} for n in ['EventBase'] + concrete}


def lemma_option_ranges(w):
    """the ranges every event class declares (resolved along its base classes, read from the checked tree) establish the
    preconditions of create_emsg_boxes / create_manifest_context / create_binary_signal: interval >= 1, timescale >= 1,
    count, start, duration >= 0, version in {0, 1} - for the defaults as well; and get_dash_options hands each key's range to
    int_or_default_from_string"""
    import os
    repo = w.get('__repo__', '/repo')
    src = open(os.path.join(repo, EVB)).read()
    ok = True
    for name, t in event_class_tables(repo).items():
        mins, maxs, dflt = t['MINIMUM_VALUES'], t['MAXIMUM_VALUES'], t['DEFAULT_VALUES']
        ok = ok and all(k in mins and mins[k] >= lo for k, (lo, hi) in OPTION_RANGES.items()) and \
            all(hi is None or (k in maxs and maxs[k] <= hi) for k, (lo, hi) in OPTION_RANGES.items()) and \
            all(isinstance(dflt.get(k), int) and not isinstance(dflt.get(k), bool) and dflt[k] >= lo and (hi is None or dflt[k] <= hi)
                for k, (lo, hi) in OPTION_RANGES.items())
    wired = 'cls.int_or_default_from_string(dflt,cls.MINIMUM_VALUES.get(key),cls.MAXIMUM_VALUES.get(key))' in ''.join(src.split())
    return [], z3.BoolVal(bool(ok and wired))


GROUP = Group(
    name='events',
    world=world,
    contracts=[CREATE_EMSG_BOXES, CREATE_MANIFEST_CONTEXT, CREATE_BINARY_SIGNAL] + INT_OPTION,
    lemmas=[Lemma('event_option_ranges_establish_the_preconditions', ['C16', 'C14'], lemma_option_ranges)],
    assumptions=['C14: EventMessageBox / EventStream / BinarySignal / SpliceInsert / SegmentationDescriptor constructors are '
                 'records of their keyword arguments; payload generation (get_*_event_payload) is abstract in '
                 'create_emsg_boxes / create_manifest_context',
                 'C14: MPEG_TIMEBASE == 90000 (dashlive/mpeg/__init__.py)'],
    not_covered=['the SCTE-35 binary encode / parse round trip is proved in group scte35 (same property); here only the field '
                 'values handed to the encoder and their widths (create_binary_signal/post.widths)',
                 'the preconditions of create_emsg_boxes on the event options (interval >= 1, timescale >= 1, ...) are established where the '
                 'options are parsed (int_or_default contracts + range lemma); EventFactory and values stored as stream defaults are not covered',
                 'exactly-once across consecutive segments: follows from the per-segment exact-set postcondition only if '
                 'consecutive segments have b(k) == a(k+1), i.e. the same floor of the same tick count (C02 gaplessness); '
                 'stated, not mechanised'],
)
