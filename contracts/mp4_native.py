"""Native builders for the `mp4` group: real box objects, encode_fields into a BytesIO, parse it back."""
import io
from types import SimpleNamespace as NS

from dashlive.mpeg import mp4

FIELDS = {
    'MovieFragmentHeaderBox': ['sequence_number'],
    'MovieExtendsHeaderBox': ['fragment_duration'],
    'TrackExtendsBox': ['track_id', 'default_sample_description_index', 'default_sample_duration', 'default_sample_size',
                        'default_sample_flags'],
    'TrackFragmentDecodeTimeBox': ['base_media_decode_time'],
    'TrackFragmentRunBox': ['data_offset', 'first_sample_flags'],
    'TrackFragmentHeaderBox': ['track_id', 'base_data_offset', 'sample_description_index', 'default_sample_duration',
                               'default_sample_size', 'default_sample_flags'],
}
FOURCC = {'MovieFragmentHeaderBox': 'mfhd', 'MovieExtendsHeaderBox': 'mehd', 'TrackExtendsBox': 'trex',
          'TrackFragmentDecodeTimeBox': 'tfdt', 'TrackFragmentHeaderBox': 'tfhd', 'TrackFragmentRunBox': 'trun'}


class Stream(io.BytesIO):
    pass


def build(key, variant, i):
    qual = key.split(':')[1]
    if qual == 'TrackFragmentDecodeTimeBox.__setattr__':
        box = mp4.TrackFragmentDecodeTimeBox(atom_type='tfdt', position=0, size=16, version=int(i['version']), flags=0,
                                             base_media_decode_time=int(i['bmdt']) if int(i['version']) == 1 else min(int(i['bmdt']), 2**32 - 1))
        env = {'self': box, 'name': 'base_media_decode_time', 'value': int(i['value'])}
        old = {'self': NS(version=box.version, base_media_decode_time=box.base_media_decode_time), 'value': int(i['value'])}
        return {'env': env, 'old_env': old, 'call': lambda: setattr(box, 'base_media_decode_time', int(i['value']))}
    cls = getattr(mp4, variant)
    kw = {f: int(i[f]) for f in FIELDS[variant] if f in i}
    if variant == 'TrackFragmentRunBox':
        kw.update(sample_count=0, samples=[])
    box = cls(atom_type=FOURCC[variant], position=0, size=0, version=int(i['version']), flags=int(i['flags']), **kw)
    moof = NS(position=int(i.get('moof_position', 0)))
    parent = NS(find_atom=lambda name: moof, tfhd=None)
    if variant == 'TrackFragmentHeaderBox':
        box.find_atom = lambda name: moof
    dest = Stream()
    env = {'self': box, 'dest': dest, 'moof_position': moof.position,
           'consumed': lambda d: d.src.tell() == len(d.getvalue()), 'nbytes': lambda d: len(d.getvalue())}
    old = {'self': NS(**{f: getattr(box, f, None) for f in ['version', 'flags'] + FIELDS[variant]})}

    def call():
        box.encode_fields(dest)
        dest.src = io.BytesIO(dest.getvalue())
        return cls.parse(dest.src, parent, options=mp4.Options(), initial_data={})
    return {'env': env, 'old_env': old, 'call': call}
