"""Native builders for the `mp4` group: real box objects, encode_fields into a BytesIO, parse it back."""
import io
from types import SimpleNamespace as NS

from dashlive.mpeg import mp4

FIELDS = {
    'MovieFragmentHeaderBox': ['sequence_number'],
    'MovieExtendsHeaderBox': ['fragment_duration'],
    'TrackExtendsBox': ['track_id', 'default_sample_description_index', 'default_sample_duration', 'default_sample_size',
                        'default_sample_flags'],
    'TrackFragmentDecodeTimeBox': ['base_media_decode_time'],
    'TrackFragmentRunBox': ['data_offset', 'first_sample_flags'],
    'BitRateBox': ['bufferSizeDB', 'maxBitrate', 'avgBitrate'],
    'PixelAspectRatioBox': ['h_spacing', 'v_spacing'],
    'TrackFragmentHeaderBox': ['track_id', 'base_data_offset', 'sample_description_index', 'default_sample_duration',
                               'default_sample_size', 'default_sample_flags'],
}
FIELDS.update({
    'TrackEncryptionBox': ['is_encrypted', 'iv_size'],
    'MediaHeaderBox': ['timescale', 'duration'],
    'EventMessageBox': ['timescale', 'presentation_time_delta', 'presentation_time', 'event_duration', 'event_id'],
    'ContentProtectionSpecificBox': [],
    'SegmentIndexBox': ['reference_id', 'timescale', 'earliest_presentation_time', 'first_offset'],
    'SampleAuxiliaryInformationSizesBox': ['aux_info_type', 'aux_info_type_parameter', 'sample_count', 'default_sample_info_size'],
    'SampleAuxiliaryInformationOffsetsBox': ['aux_info_type', 'aux_info_type_parameter'],
})
SIDX_REF_FIELDS = ['ref_type', 'ref_size', 'duration', 'starts_with_SAP', 'SAP_type', 'SAP_delta_time']
EMSG_SCHEME, EMSG_VALUE = 'urn:scte:scte35:2014:xml+bin', '5'
FOURCC = {'SampleAuxiliaryInformationSizesBox': 'saiz', 'SampleAuxiliaryInformationOffsetsBox': 'saio', 'SegmentIndexBox': 'sidx', 'ContentProtectionSpecificBox': 'pssh', 'TrackEncryptionBox': 'tenc', 'MediaHeaderBox': 'mdhd', 'EventMessageBox': 'emsg',
          'MovieFragmentHeaderBox': 'mfhd', 'MovieExtendsHeaderBox': 'mehd', 'TrackExtendsBox': 'trex',
          'TrackFragmentDecodeTimeBox': 'tfdt', 'TrackFragmentHeaderBox': 'tfhd', 'TrackFragmentRunBox': 'trun'}


class Stream(io.BytesIO):
    pass


def build_encode(variant, i):
    import re
    m = re.match(r'(\d)children-depth(\d)', variant)
    nchildren, depth = int(m.group(1)), int(m.group(2))
    g = lambda k: int(i[k])
    if any(abs(int(v)) > 2_000_000 for k, v in i.items() if isinstance(v, int) and k != 'old_position' and k != 'old_size'):
        raise ValueError('witness sizes too large to realise as real byte strings')

    class Blob(mp4.Mp4Atom):
        """a box whose fields are `nfields` opaque bytes"""
        def encode_fields(self, dest):
            dest.write(b'\xAB' * self.nfields)
    kids = [Blob(atom_type='chld', position=0, size=0, nfields=max(0, g(f'child{k}_size') - 8)) for k in range(nchildren)]
    box = Blob(atom_type='moof', position=g('old_position'), size=g('old_size'), nfields=max(0, g('fields_len')),
               children=kids if nchildren else None)
    dest = io.BytesIO()
    before = bytes((k * 7) % 251 for k in range(max(0, g('p0'))))
    dest.write(before)
    env = {'self': box, 'dest': dest, 'depth': depth, '__kids__': kids, 'p0': g('p0'), 'fields_len': g('fields_len'),
           'stream_end': lambda d: len(d.getvalue()), 'at_end': lambda d: d.tell() == len(d.getvalue()),
           'size_field': lambda d, pos: int.from_bytes(d.getvalue()[pos:pos + 4], 'big'),
           'prefix_untouched': lambda d: d.getvalue()[:len(before)] == before}
    for k in range(3):
        env[f'child{k}_size'] = int(i.get(f'child{k}_size', 8))
    return {'env': env, 'old_env': dict(env), 'call': lambda: box.encode(dest=dest, depth=depth)}


def build_header(variant, i):
    import struct
    g = lambda k: int(i[k])
    pos0, total, size32, size64 = g('pos0'), g('total'), g('size32'), g('size64')
    if total > 2_000_000 or pos0 < 0 or total < pos0:
        raise ValueError('witness source too large (or not a source) to realise')
    tb = {'mdat': b'mdat', 'uuid': b'uuid', 'non-ascii-type': b'\xff\xfe\xfd\xfc'}[variant]
    content = struct.pack('>I', size32 % 2**32) + tb
    if size32 == 1:
        content += struct.pack('>Q', size64 % 2**64)
    if tb == b'uuid':
        content += bytes(range(16))
    data = (b'\x11' * pos0 + content + b'\x22' * total)[:total]
    src = io.BytesIO(data)
    src.seek(pos0)
    env = {'pos0': pos0, 'total': total, 'size32': size32, 'size64': size64, 'is_unset': lambda x: x is None}
    return {'env': env, 'old_env': dict(env), 'call': lambda: mp4.Mp4Atom.parse(src, None, options=mp4.Options())}


def build_aux_json(cls_name, variant, i):
    cls = getattr(mp4, cls_name)
    fourcc = {'SampleAuxiliaryInformationSizesBox': 'saiz', 'SampleAuxiliaryInformationOffsetsBox': 'saio'}[cls_name]
    aux = int(i['aux_info_type'])
    kw = dict(atom_type=fourcc, position=0, size=0, version=0, flags=1 if variant == 'aux' else 0)
    if variant == 'aux':
        kw.update(aux_info_type=aux, aux_info_type_parameter=0)
    if fourcc == 'saiz':
        kw.update(default_sample_info_size=8, sample_count=0, sample_info_sizes=[])
    else:
        kw.update(offsets=[])
    box = cls(**kw)
    rebuilt = {}
    env = {'self': box, 'aux_info_type': aux, 'has_attr': lambda o, k: k in o._fields}

    def call():
        rebuilt['box'] = mp4.Mp4Atom.fromJSON(box.toJSON())

    return {'env': env, 'old_env': dict(env), 'call': call, 'post_env': lambda: {'self': rebuilt['box']}}


def build(key, variant, i):
    qual = key.split(':')[1]
    if qual.endswith('._to_json'):
        return build_aux_json(qual.split('.')[0], variant, i)
    if qual == 'Mp4Atom.parse':
        return build_header(variant, i)
    if qual == 'Mp4Atom.encode':
        return build_encode(variant, i)
    if qual == 'TrackFragmentDecodeTimeBox.__setattr__':
        box = mp4.TrackFragmentDecodeTimeBox(atom_type='tfdt', position=0, size=16, version=int(i['version']), flags=0,
                                             base_media_decode_time=int(i['bmdt']) if int(i['version']) == 1 else min(int(i['bmdt']), 2**32 - 1))
        env = {'self': box, 'name': 'base_media_decode_time', 'value': int(i['value'])}
        old = {'self': NS(version=box.version, base_media_decode_time=box.base_media_decode_time), 'value': int(i['value'])}
        return {'env': env, 'old_env': old, 'call': lambda: setattr(box, 'base_media_decode_time', int(i['value']))}
    if qual == 'TrackFragmentRunBox.post_encode':
        import logging
        g = lambda k: int(i[k])
        tfhd = NS(base_data_offset=g('base_data_offset'))
        moof = NS(position=g('moof_position'), size=g('moof_size'), traf=NS(tfhd=tfhd),
                  find_peer=lambda name: NS(header_size=g('mdat_header_size')))
        me = NS(flags=g('flags'), data_offset=g('data_offset'), position=g('position'), header_size=g('header_size'),
                _first_field_pos=0, _fullname='trun', options=NS(log=logging.getLogger('x')),
                data_offset_present=1, find_atom=lambda *a, **k: moof, encode_fields=lambda d: None,
                output_box_fields=lambda d: None)
        dest = io.BytesIO()
        env = {'self': me, 'dest': dest, 'base_data_offset': tfhd.base_data_offset, 'moof_position': moof.position,
               'moof_size': moof.size, 'mdat_header_size': g('mdat_header_size')}
        old = dict(env, self=NS(flags=me.flags, data_offset=me.data_offset))
        return {'env': env, 'old_env': old, 'call': lambda: mp4.TrackFragmentRunBox.post_encode(me, dest)}
    if qual == 'SampleAuxiliaryInformationOffsetsBox.post_encode':
        import logging
        g = lambda k: int(i[k])
        senc = NS(position=g('senc_position'), samples=[NS(offset=g('sample0_offset'))])
        tfhd = NS(base_data_offset=None if i['bdo_none'] else g('base_data_offset'))
        parent = NS(find_child=lambda name: senc if name == 'senc' else tfhd)
        me = NS(offsets=None if variant.endswith('none') else [g('offset0')], position=g('position'), _fullname='saio',
                parent=parent, options=NS(log=logging.getLogger('x'), has_bug=lambda name: bool(i['has_bug_saio'])),
                find_atom=lambda name: NS(position=g('moof_position')), encode=lambda d: None)
        me.find_first_cenc_sample = lambda: mp4.SampleAuxiliaryInformationOffsetsBox.find_first_cenc_sample(me)
        dest = io.BytesIO()
        env = {'self': me, 'dest': dest, 'senc_position': senc.position, 'sample0_offset': g('sample0_offset'),
               'base_data_offset': g('base_data_offset'), 'moof_position': g('moof_position'), 'offset0': g('offset0'),
               'bdo_none': bool(i['bdo_none']), 'has_bug_saio': bool(i['has_bug_saio']),
               'single': lambda x, v: isinstance(x, list) and len(x) == 1 and x[0] == v, 'is_unset': lambda x: x is None}
        return {'env': env, 'old_env': dict(env), 'call': lambda: mp4.SampleAuxiliaryInformationOffsetsBox.post_encode(me, dest)}
    if qual.endswith('.encode_fields') and not variant:
        variant = qual.split('.')[0]
        cls = getattr(mp4, variant)
        kw = {f: int(i[f]) for f in FIELDS[variant]}
        box = cls(atom_type={'BitRateBox': 'btrt', 'PixelAspectRatioBox': 'pasp'}[variant], position=0, size=0, **kw)
        dest = Stream()
        env = {'self': box, 'dest': dest, 'consumed': lambda d: d.src.tell() == len(d.getvalue()), 'nbytes': lambda d: len(d.getvalue())}
        old = {'self': NS(**kw)}

        def call2():
            box.encode_fields(dest)
            dest.src = io.BytesIO(dest.getvalue())
            return cls.parse(dest.src, None, options=mp4.Options(), initial_data={})
        return {'env': env, 'old_env': old, 'call': call2}
    payload = variant.endswith('+payload')
    parts = variant.split('+')
    variant = parts[0]
    cls = getattr(mp4, variant)
    kw = {f: int(i[f]) for f in FIELDS[variant] if f in i}
    extra_env = {}
    tfhd = None
    if variant == 'TrackFragmentRunBox' and len(parts) > 1 and parts[1].endswith('samples'):
        k = int(parts[1][0])
        flags_value = int(parts[2][5:], 16)
        SF = ('duration', 'size', 'flags', 'composition_time_offset')
        samples = []
        for j in range(k):
            vals = {f: int(i[f's{j}_{f}']) for f in SF}
            extra_env.update({f's{j}_{f}': v for f, v in vals.items()})
            samples.append(mp4.TrackSample(index=j, offset=0, **vals))
        kw.update(sample_count=k, samples=samples, data_offset=int(i['data_offset']), first_sample_flags=int(i['first_sample_flags']))
        i = dict(i, flags=flags_value)
        tfhd = NS(default_sample_duration=int(i['tfhd_duration']), default_sample_size=int(i['tfhd_size']),
                  default_sample_flags=int(i['tfhd_flags']))
        extra_env.update(tfhd_duration=tfhd.default_sample_duration, tfhd_size=tfhd.default_sample_size,
                         tfhd_flags=tfhd.default_sample_flags, sample_duration=lambda smp: smp.duration,
                         no_duration=lambda smp: smp.duration is None)
    elif variant == 'TrackFragmentRunBox':
        kw.update(sample_count=0, samples=[])
    if variant == 'TrackEncryptionBox':
        from dashlive.utils.binary import HexBinary
        kw['default_kid'] = HexBinary(None)
        kw['default_kid'].data = int(i['default_kid']).to_bytes(16, 'big') if 0 <= int(i['default_kid']) < 2 ** 128 else b''
        extra_env['default_kid'] = int(i['default_kid'])
    if variant == 'MediaHeaderBox':
        import datetime
        from dashlive.utils.date_time import ISO_EPOCH
        for f in ('creation', 'modification'):
            extra_env[f + '_s'] = int(i[f + '_s'])
            try:
                kw[f + '_time'] = ISO_EPOCH + datetime.timedelta(seconds=int(i[f + '_s']))
            except OverflowError:
                kw[f + '_time'] = ISO_EPOCH
        kw['language'] = 'und'
    if variant == 'ContentProtectionSpecificBox':
        from dashlive.utils.binary import Binary, HexBinary
        nk = int(parts[1][0])

        def raw(cls, name, n):
            b = cls(None)
            v = int(i[name])
            b.data = v.to_bytes(n, 'big') if 0 <= v < 256 ** n else b''
            extra_env[name] = v
            return b
        kw.update(system_id=raw(HexBinary, 'system_id', 16), key_ids=[raw(HexBinary, f'kid{k}', 16) for k in range(nk)],
                  data=raw(Binary, 'payload', 7) if 'data' in parts else None)
        extra_env['payload'] = int(i['payload'])
    if variant == 'SegmentIndexBox':
        nr = int(parts[1][0])
        refs = []
        for k in range(nr):
            vals = {f: int(i[f'r{k}_{f}']) for f in SIDX_REF_FIELDS}
            extra_env.update({f'r{k}_{f}': v for f, v in vals.items()})
            refs.append(mp4.SegmentReference(**vals))
        kw['references'] = refs
    if variant == 'SampleAuxiliaryInformationSizesBox':
        nsz = int(parts[1][0])
        sizes = [int(i[f'sz{j}']) for j in range(nsz)]
        extra_env.update({f'sz{j}': v for j, v in enumerate(sizes)})
        kw['sample_info_sizes'] = sizes
        if parts[1].endswith('table'):
            kw['default_sample_info_size'] = 0
        extra_env.update(aux_info_type=kw['aux_info_type'], aux_info_type_parameter=kw['aux_info_type_parameter'])
    saio_first = None
    if variant == 'SampleAuxiliaryInformationOffsetsBox':
        noff = int(parts[1][0])
        offs = [int(i[f'off{j}']) for j in range(noff)]
        extra_env.update({f'off{j}': v for j, v in enumerate(offs)})
        kw['offsets'] = offs
        extra_env.update(aux_info_type=kw['aux_info_type'], aux_info_type_parameter=kw['aux_info_type_parameter'])
        saio_first = None if i.get('senc_missing') else int(i.get('senc_pos', 0))
    if variant == 'EventMessageBox':
        kw.update(scheme_id_uri=EMSG_SCHEME, value=EMSG_VALUE,
                  data=int(i['payload']).to_bytes(7, 'big') if payload and 0 <= int(i['payload']) < 256 ** 7 else None)
        extra_env['payload'] = int(i['payload'])
    box = cls(atom_type=FOURCC[variant], position=0, size=0, version=int(i['version']), flags=int(i['flags']), **kw)
    moof = NS(position=int(i.get('moof_position', 0)))
    parent = NS(find_atom=lambda name: moof, tfhd=tfhd)
    if variant == 'SampleAuxiliaryInformationOffsetsBox':
        # what the box would find in its traf (a senc box with samples, or none): decided by the witness
        object.__setattr__(box, 'find_first_cenc_sample', lambda: saio_first)
    if variant == 'TrackFragmentHeaderBox':
        box.find_atom = lambda name: moof
    dest = Stream()
    env = {'self': box, 'dest': dest, 'moof_position': moof.position,
           'consumed': lambda d: d.src.tell() == len(d.getvalue()), 'nbytes': lambda d: len(d.getvalue()),
           'bytes_value': lambda b: int.from_bytes(bytes(getattr(b, 'data', b)), 'big') if isinstance(getattr(b, 'data', b), (bytes, bytearray)) else -1,
           'is_unset': lambda x: x is None}
    env.update(extra_env)
    old = {'self': NS(**{f: getattr(box, f, None) for f in ['version', 'flags', 'creation_time', 'modification_time'] + FIELDS[variant]})}

    def call():
        box.encode_fields(dest)
        dest.src = io.BytesIO(dest.getvalue())
        return cls.parse(dest.src, parent, options=mp4.Options(), initial_data={'position': 0, 'size': len(dest.getvalue())})
    old.update(extra_env)
    return {'env': env, 'old_env': old, 'call': call}
