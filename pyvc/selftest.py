"""setup_cmd: checks the tool chain and the generator on a tiny function with a contract that must
verify and two that must not (a wrong postcondition, a loop invariant that is not preserved)."""
import os
import shutil
import subprocess
import sys
import tempfile

import z3

from .contract import Contract, Loop
from .engine import Engine
from .solve import discharge

SRC = '''
def isum(n):
    s = 0
    i = 0
    while i < n:
        i += 1
        s += i
    return s

def fdiv(a, b):
    if b == 0:
        raise ValueError('zero')
    return a // b
'''


def run(c, repo):
    eng = Engine(repo, {}, {})
    obs = eng.verify(c)
    discharge(obs, [None] * len(obs), timeout_ms=10000, procs=1)
    return obs


def main():
    tmp = tempfile.mkdtemp(prefix='pyvc-selftest-')
    try:
        open(os.path.join(tmp, 'm.py'), 'w').write(SRC)
        env = lambda w: {'n': z3.Int('n')}
        good = Contract(key='m.py:isum', props=['T'], env=env, requires=['n >= 0'],
                        loops={0: Loop(invariant=['0 <= i and i <= n', '2 * s == i * (i + 1)'], variant=['n - i'])},
                        ensures=['2 * result == n * (n + 1)'])
        bad_post = Contract(key='m.py:isum', props=['T'], env=env, requires=['n >= 0'],
                            loops={0: Loop(invariant=['0 <= i and i <= n', '2 * s == i * (i + 1)'], variant=['n - i'])},
                            ensures=['result == n * n'])
        bad_inv = Contract(key='m.py:isum', props=['T'], env=env, requires=['n >= 0'],
                           loops={0: Loop(invariant=['0 <= i and i <= n', 's == i'], variant=['n - i'])},
                           ensures=['True'])
        divc = Contract(key='m.py:fdiv', props=['T'], env=lambda w: {'a': z3.Int('a'), 'b': z3.Int('b')},
                        raises={'ValueError': 'b == 0'},
                        ensures=['result * b <= a if b > 0 else result * b >= a', 'result == a // b'])
        ok = True
        for name, c, expect_all in (('good', good, True), ('bad_post', bad_post, False), ('bad_inv', bad_inv, False),
                                    ('floor-division', divc, True)):
            obs = run(c, tmp)
            allok = all(o.result['status'] == 'unsat' for o in obs)
            print(f'selftest {name}: {len(obs)} obligations, all discharged={allok} (expected {expect_all})')
            ok &= (allok == expect_all) and len(obs) > 0
        for tool in (['/usr/bin/cvc5', '--version'], ['/venv/bin/python', '-c', 'import dashlive.mpeg.mp4']):
            r = subprocess.run(tool, capture_output=True, text=True, cwd='/repo')
            print('tool', tool[0], 'ok' if r.returncode == 0 else 'MISSING')
            ok &= r.returncode == 0
        return 0 if ok else 1
    finally:
        shutil.rmtree(tmp, ignore_errors=True)


if __name__ == '__main__':
    sys.exit(main())
