"""Contract data model (sidecar specifications; /repo is never annotated)."""
from dataclasses import dataclass, field
from typing import Any, Callable


@dataclass
class Loop:
    invariant: list            # [(label, expr)] or [expr]
    variant: list              # lexicographic integer measure, [expr]
    ghost: dict = field(default_factory=dict)         # name -> init expr (evaluated at loop entry)
    ghost_update: dict = field(default_factory=dict)  # name -> expr over end-of-body state
    types: dict = field(default_factory=dict)         # havoc sort overrides: name -> 'int'|'real'|'bool'|'opt_int'
    extra_modifies: list = field(default_factory=list)
    instances: list = field(default_factory=list)     # [(label, expr)]: instances of assumed world axioms, assumed at the loop head
    unroll: int = 0            # >0: unroll completely; the obligation loopK.unwind.complete makes it a proof, not a bound

    def inv(self):
        return [x if isinstance(x, tuple) else (str(i), x) for i, x in enumerate(self.invariant)]


@dataclass
class Contract:
    key: str                   # 'dashlive/x/y.py:Class.method' or 'file.py:function'
    props: list                # property ids owning the obligations
    env: Callable = None       # world -> {param: symbolic value}
    requires: list = field(default_factory=list)
    ensures: list = field(default_factory=list)      # [(label, expr)] or [expr]
    raises: dict = field(default_factory=dict)       # exception name -> 'iff' condition expr (None: may raise freely)
    loops: dict = field(default_factory=dict)        # ordinal (source order) -> Loop
    modifies: list = field(default_factory=list)     # attribute paths the function may write ('self.pos')
    result: Callable = None    # (engine, args) -> fresh symbolic result (for use at call sites)
    inline: bool = False       # tiny helper: body is inlined at call sites instead of using the contract
    canaries: list = field(default_factory=list)     # deliberately false postconditions; must NOT be discharged
    models: dict = field(default_factory=dict)       # callee text -> python callable(engine, node, args, kwargs)
    ctors: dict = field(default_factory=dict)        # class name -> callable(engine, args, kwargs) -> value
    regions: dict = field(default_factory=dict)      # ensures label -> region expr (prove region => post)
    witness: Callable = None   # (model evaluator) -> JSON-able dict of concrete inputs for replay
    witness_terms: Callable = None  # world -> {name: z3 term} evaluated in the model
    unroll: int = 0            # >0: bounded mode (loops unrolled, no invariants) - never counted as proved
    cases: list = None         # optional list of (label, extra requires) case splits
    post_on_raise: dict = field(default_factory=dict)  # exception -> [(label, expr)] that must hold when it is raised
    raises_bounds: dict = field(default_factory=dict)  # exception -> (must_cond, may_cond): must => raised => may
    exports: dict = field(default_factory=dict)      # spec term -> ghost expr: skolem function defined by a ghost at exit
    sequel: dict = None        # {'qual', 'env': (engine, env_after, result) -> env}: run a second function afterwards (encode; parse)
    lists: dict = field(default_factory=dict)       # local name (or 'result') -> {field: sort}: lists built by the function
    defs: list = field(default_factory=list)        # definitional equations of spec constants (assumed, never obliged)
    native_ghost: dict = field(default_factory=dict)  # ghost name -> python expr over inputs/result (native replay)
    mod_types: dict = field(default_factory=dict)
    applies: Callable = None   # (bound call frame) -> bool: which variant of a function's contract fits a call site
    variant: str = ''          # label of a case split (mode, None-ness of optionals): same function, other env
    notes: str = ''

    @property
    def label(self):
        return self.qual + (f'[{self.variant}]' if self.variant else '')

    @property
    def file(self):
        return self.key.split(':')[0]

    @property
    def qual(self):
        return self.key.split(':')[1]

    def ens(self):
        return [x if isinstance(x, tuple) else (str(i), x) for i, x in enumerate(self.ensures)]

    def req(self):
        return [x if isinstance(x, tuple) else (str(i), x) for i, x in enumerate(self.requires)]


@dataclass
class Lemma:
    """A purely logical obligation over contracts' vocabulary: build(world) -> (assumptions, goal)."""
    name: str
    props: list
    build: Callable
    canary: bool = False       # a lemma that must NOT be provable (vacuity guard)
    witness_terms: Callable = None
    notes: str = ''


@dataclass
class Group:
    name: str
    world: Callable            # () -> dict of spec vocabulary (z3 consts / functions / python callables)
    contracts: list
    lemmas: list = field(default_factory=list)
    assumptions: list = field(default_factory=list)   # free-text assumptions for the evidence
    trusted: list = field(default_factory=list)
    not_covered: list = field(default_factory=list)
    callees: list = field(default_factory=list)      # contracts of other groups used only at call sites
    bounded: list = field(default_factory=list)      # [{'name', 'props', 'cmd': [argv...]}] bounded stand-ins (never counted as proved)
