"""Fixed-length byte / hex-string model for dashlive/drm/playready.py (C11).

A `bytes` / `bytearray` of statically known length is a Python list of 8-bit bit-vector terms; a hex string is a
list of 4-bit terms (and literal '-' characters).  Slicing with constant indices, ''.join, replace('-', ''),
binascii.b2a_hex / a2b_hex, bytearray(n) and item assignment are executed by the interpreter itself; only
byte-level operations (^) reach the solver.  SHA-256 and AES-ECB are uninterpreted functions of their input bytes
(assumed: deterministic functions of exactly those bytes - nothing else about them is used).
"""
import z3
from ..vals import *          # noqa: F401,F403

BV8 = z3.BitVecSort(8)


class BSeq:
    def __init__(self, items, kind='bytes'):
        self.items, self.kind = list(items), kind     # kind: bytes | bytearray | hex

    def clone_model(self):
        return BSeq(self.items, self.kind)

    def frame_terms(self):
        return {f'[{i}]': x for i, x in enumerate(self.items) if not isinstance(x, str)} | {'len': len(self.items)}

    def len(self, eng):
        return len(self.items)

    def getitem(self, eng, idx):
        if not isinstance(idx, int):
            raise Unsupported('symbolic index into a fixed-length byte string')
        if not -len(self.items) <= idx < len(self.items):
            from ..engine import PyRaise
            raise PyRaise('IndexError')
        return self.items[idx]

    def setitem(self, eng, idx, val):
        if self.kind != 'bytearray' or not isinstance(idx, int):
            raise Unsupported('item assignment on immutable / symbolic index')
        if isinstance(val, int):
            val = z3.BitVecVal(val, 8)
        self.items[idx] = val

    def getslice(self, eng, lo, hi):
        if not all(isinstance(x, (int, type(None))) for x in (lo, hi)):
            raise Unsupported('symbolic slice of a fixed-length byte string')
        return BSeq(self.items[lo:hi], 'bytes' if self.kind == 'bytearray' else self.kind)

    def binop(self, eng, op, other, swapped):
        import ast
        if isinstance(op, ast.Add) and isinstance(other, BSeq):
            a, b = (other, self) if swapped else (self, other)
            return BSeq(a.items + b.items, a.kind)
        raise Unsupported('operation on byte strings')

    def method(self, eng, name, args, kwargs, e):
        if name == 'replace' and args == ['-', ''] and self.kind == 'hex':
            return BSeq([x for x in self.items if not isinstance(x, str)], 'hex')
        if name == 'hex' and self.kind != 'hex':
            return b2a_hex(self)
        raise Unsupported(f'bytes.{name}')


def b2a_hex(b):
    out = []
    for x in b.items:
        out += [z3.Extract(7, 4, x), z3.Extract(3, 0, x)]
    return BSeq(out, 'hex')


def a2b_hex(eng, h):
    items = h.items
    if any(isinstance(x, str) for x in items) or len(items) % 2:
        from ..engine import PyRaise
        raise PyRaise('binascii.Error')
    return BSeq([z3.simplify(z3.Concat(items[i], items[i + 1])) for i in range(0, len(items), 2)], 'bytes')


def join(sep, parts):
    out = []
    for i, p in enumerate(parts):
        if not isinstance(p, BSeq) or p.kind != 'hex':
            raise Unsupported('join of non-hex pieces')
        if i and sep:
            out += list(sep)
        out += p.items
    return BSeq(out, 'hex')


class ShaModel:
    def __init__(self):
        self.data = []

    def clone_model(self):
        s = ShaModel()
        s.data = list(self.data)
        return s

    def method(self, eng, name, args, kwargs, e):
        if name == 'update':
            if not isinstance(args[0], BSeq) or args[0].kind == 'hex':
                raise Unsupported('SHA256.update of a non-bytes value')
            self.data += args[0].items
            return None
        if name == 'digest':
            return BSeq(uf('sha256', self.data, 32), 'bytes')
        if name == 'copy':
            return self.clone_model()
        raise Unsupported(f'SHA256.{name}')


class AesModel:
    def __init__(self, key):
        self.key = key

    def method(self, eng, name, args, kwargs, e):
        if name == 'encrypt' and isinstance(args[0], BSeq) and len(args[0].items) == 16:
            return BSeq(uf('aes_ecb', self.key.items + args[0].items, 16), 'bytes')
        raise Unsupported(f'AES.{name}')


def uf(name, inputs, nout):
    """output byte k of an uninterpreted function of exactly these input bytes"""
    n = len(inputs)
    return [z3.Function(f'{name}_{n}_{k}', *([BV8] * n), BV8)(*inputs) for k in range(nout)]


def bytes_eq(a, b):
    if not isinstance(a, BSeq) or not isinstance(b, BSeq) or len(a.items) != len(b.items):
        return z3.BoolVal(False)
    conj = []
    for x, y in zip(a.items, b.items):
        if isinstance(x, str) or isinstance(y, str):
            if x != y:
                return z3.BoolVal(False)
        else:
            conj.append(x == y)
    return z3.And(*conj) if conj else z3.BoolVal(True)


# ---------------------------------------------------------------------------------------------------------------
# base64 text of a fixed-length byte string (ClearKey endpoint, C11)
B64_STD = 'ABCDEFGHIJKLMNOPQRSTUVWXYZabcdefghijklmnopqrstuvwxyz0123456789+/'
BV6 = z3.BitVecSort(6)


def b64_code(table, s):
    """character code (Int term) that `table` assigns to the 6-bit term `s`: the standard alphabet is written out as
    its three linear runs, every entry in which `table` departs from it becomes one more case"""
    v = z3.BV2Int(s)
    code = z3.If(v < 26, v + 65, z3.If(v < 52, v + 71, z3.If(v < 62, v - 4, z3.If(v == 62, z3.IntVal(43), z3.IntVal(47)))))
    for k, ch in enumerate(table):
        if ch != B64_STD[k]:
            code = z3.If(v == k, z3.IntVal(ord(ch) if ch else -1), code)
    return code


class B64Text:
    """a str (or ascii bytes) whose characters are base64 symbols: items are 6-bit terms rendered through `table`
    (64 one-character strings, '' for a deleted symbol) or literal characters"""

    def __init__(self, items, table=None):
        self.items, self.table = list(items), list(table or B64_STD)

    def clone_model(self):
        return B64Text(self.items, self.table)

    def frame_terms(self):
        return {f'[{i}]': x for i, x in enumerate(self.items) if not isinstance(x, str)} | {'len': len(self.items)}

    def len(self, eng):
        if any(c == '' for c in self.table) and any(not isinstance(x, str) for x in self.items):
            raise Unsupported('length of base64 text after deleting an alphabet character')
        return len(self.items)

    def codes(self):
        return [z3.IntVal(ord(x)) if isinstance(x, str) else b64_code(self.table, x) for x in self.items]

    def binop(self, eng, op, other, swapped):
        import ast
        if isinstance(op, ast.Add) and isinstance(other, str) and not swapped:
            return B64Text(self.items + list(other), self.table)
        raise Unsupported('operation on base64 text')

    def method(self, eng, name, args, kwargs, e):
        if name == 'replace' and len(args) == 2 and all(isinstance(a, str) for a in args) and len(args[0]) == 1 \
                and len(args[1]) <= 1:
            a, b = args
            items = []
            for x in self.items:
                if isinstance(x, str) and x == a:
                    if b:
                        items.append(b)
                else:
                    items.append(x)
            return B64Text(items, [b if c == a else c for c in self.table])
        if name == 'translate' and len(args) == 1 and isinstance(args[0], dict) and \
                all(isinstance(k, int) and (v is None or isinstance(v, (int, str))) for k, v in args[0].items()):
            def tr(c):
                if c == '' or ord(c) not in args[0]:
                    return c
                v = args[0][ord(c)]
                return '' if v is None else (chr(v) if isinstance(v, int) else v)
            if any(len(tr(c)) > 1 for c in self.table):
                raise Unsupported('str.translate to a longer text')
            items = []
            for x in self.items:
                items += list(tr(x)) if isinstance(x, str) else [x]
            return B64Text(items, [tr(c) for c in self.table])
        if name in ('rstrip', 'strip', 'lstrip') and len(args) == 1 and isinstance(args[0], str):
            if any(c in args[0] for c in self.table if c):
                raise Unsupported(f'str.{name} of characters a base64 symbol may render to')
            items = list(self.items)
            if name in ('rstrip', 'strip'):
                while items and isinstance(items[-1], str) and items[-1] in args[0]:
                    items.pop()
            if name in ('lstrip', 'strip'):
                while items and isinstance(items[0], str) and items[0] in args[0]:
                    items.pop(0)
            return B64Text(items, self.table)
        raise Unsupported(f'str.{name} on base64 text')


def b64encode(b):
    """RFC 4648 section 4: the bits of the input in groups of six, zero-filled, '=' to a multiple of four"""
    if not isinstance(b, BSeq) or b.kind == 'hex':
        raise Unsupported('base64.b64encode of a non-bytes value')
    if not b.items:
        return B64Text([])
    bits = z3.Concat(*b.items) if len(b.items) > 1 else b.items[0]
    n = 8 * len(b.items)
    fill = (-n) % 6
    if fill:
        bits = z3.Concat(bits, z3.BitVecVal(0, fill))
        n += fill
    items = [z3.simplify(z3.Extract(n - 1 - 6 * k, n - 6 - 6 * k, bits)) for k in range(n // 6)]
    return B64Text(items + ['='] * ((-len(items)) % 4))


def b64decode(eng, t):
    """base64.b64decode(t) (validate=False) for text made of symbols and trailing '='.  CPython discards characters
    outside the standard alphabet, so the symbols decode to themselves only if every one is rendered by its standard
    character: that is the obligation `b64decode.standard_alphabet`; wrong padding raises binascii.Error."""
    from ..engine import PyRaise
    if isinstance(t, str):
        import base64 as _b, binascii as _ba
        try:
            return BSeq([z3.BitVecVal(x, 8) for x in _b.b64decode(t)], 'bytes')
        except _ba.Error:
            raise PyRaise('binascii.Error')
    if not isinstance(t, B64Text):
        raise Unsupported('base64.b64decode of an unmodelled value')
    syms = [x for x in t.items if not isinstance(x, str)]
    lits = [x for x in t.items if isinstance(x, str)]
    k = len(syms)
    if any(isinstance(x, str) for x in t.items[:k]) or any(c != '=' for c in lits):
        raise Unsupported('base64 text with literal characters between symbols')
    if syms:
        eng.oblige('safety', 'b64decode.standard_alphabet',
                   z3.And(*[b64_code(t.table, s) == b64_code(B64_STD, s) for s in syms]))
    if k % 4 == 1 or len(lits) < (-k) % 4:
        raise PyRaise('binascii.Error')
    if not syms:
        return BSeq([], 'bytes')
    bits = z3.Concat(*syms) if k > 1 else syms[0]
    nb = (6 * k) // 8
    return BSeq([z3.simplify(z3.Extract(6 * k - 1 - 8 * i, 6 * k - 8 - 8 * i, bits)) for i in range(nb)], 'bytes')


def b64_eq(a, b):
    """same characters: equal length and position-wise equal character codes"""
    if not isinstance(a, B64Text) or not isinstance(b, B64Text):
        return z3.BoolVal(False)
    if any(c == '' for c in a.table + b.table) or len(a.items) != len(b.items):
        # a deleted alphabet character makes the length depend on the data: not expressible here
        if a.items == b.items and a.table == b.table:
            return z3.BoolVal(True)
        raise Unsupported('comparison of base64 texts of data-dependent length')
    conj = [x == y for x, y in zip(a.codes(), b.codes())]
    return z3.And(*conj) if conj else z3.BoolVal(True)
