"""Fixed-length byte / hex-string model for dashlive/drm/playready.py (C11).

A `bytes` / `bytearray` of statically known length is a Python list of 8-bit bit-vector terms; a hex string is a
list of 4-bit terms (and literal '-' characters).  Slicing with constant indices, ''.join, replace('-', ''),
binascii.b2a_hex / a2b_hex, bytearray(n) and item assignment are executed by the interpreter itself; only
byte-level operations (^) reach the solver.  SHA-256 and AES-ECB are uninterpreted functions of their input bytes
(assumed: deterministic functions of exactly those bytes - nothing else about them is used).
"""
import z3
from ..vals import *          # noqa: F401,F403

BV8 = z3.BitVecSort(8)


class BSeq:
    def __init__(self, items, kind='bytes'):
        self.items, self.kind = list(items), kind     # kind: bytes | bytearray | hex

    def clone_model(self):
        return BSeq(self.items, self.kind)

    def frame_terms(self):
        return {f'[{i}]': x for i, x in enumerate(self.items) if not isinstance(x, str)} | {'len': len(self.items)}

    def len(self, eng):
        return len(self.items)

    def getitem(self, eng, idx):
        if not isinstance(idx, int):
            raise Unsupported('symbolic index into a fixed-length byte string')
        if not -len(self.items) <= idx < len(self.items):
            from ..engine import PyRaise
            raise PyRaise('IndexError')
        return self.items[idx]

    def setitem(self, eng, idx, val):
        if self.kind != 'bytearray' or not isinstance(idx, int):
            raise Unsupported('item assignment on immutable / symbolic index')
        if isinstance(val, int):
            val = z3.BitVecVal(val, 8)
        self.items[idx] = val

    def getslice(self, eng, lo, hi):
        if not all(isinstance(x, (int, type(None))) for x in (lo, hi)):
            raise Unsupported('symbolic slice of a fixed-length byte string')
        return BSeq(self.items[lo:hi], 'bytes' if self.kind == 'bytearray' else self.kind)

    def binop(self, eng, op, other, swapped):
        import ast
        if isinstance(op, ast.Add) and isinstance(other, BSeq):
            a, b = (other, self) if swapped else (self, other)
            return BSeq(a.items + b.items, a.kind)
        raise Unsupported('operation on byte strings')

    def method(self, eng, name, args, kwargs, e):
        if name == 'replace' and args == ['-', ''] and self.kind == 'hex':
            return BSeq([x for x in self.items if not isinstance(x, str)], 'hex')
        if name == 'hex' and self.kind != 'hex':
            return b2a_hex(self)
        raise Unsupported(f'bytes.{name}')


def b2a_hex(b):
    out = []
    for x in b.items:
        out += [z3.Extract(7, 4, x), z3.Extract(3, 0, x)]
    return BSeq(out, 'hex')


def a2b_hex(eng, h):
    items = h.items
    if any(isinstance(x, str) for x in items) or len(items) % 2:
        from ..engine import PyRaise
        raise PyRaise('binascii.Error')
    return BSeq([z3.simplify(z3.Concat(items[i], items[i + 1])) for i in range(0, len(items), 2)], 'bytes')


def join(sep, parts):
    out = []
    for i, p in enumerate(parts):
        if not isinstance(p, BSeq) or p.kind != 'hex':
            raise Unsupported('join of non-hex pieces')
        if i and sep:
            out += list(sep)
        out += p.items
    return BSeq(out, 'hex')


class ShaModel:
    def __init__(self):
        self.data = []

    def clone_model(self):
        s = ShaModel()
        s.data = list(self.data)
        return s

    def method(self, eng, name, args, kwargs, e):
        if name == 'update':
            if not isinstance(args[0], BSeq) or args[0].kind == 'hex':
                raise Unsupported('SHA256.update of a non-bytes value')
            self.data += args[0].items
            return None
        if name == 'digest':
            return BSeq(uf('sha256', self.data, 32), 'bytes')
        if name == 'copy':
            return self.clone_model()
        raise Unsupported(f'SHA256.{name}')


class AesModel:
    def __init__(self, key):
        self.key = key

    def method(self, eng, name, args, kwargs, e):
        if name == 'encrypt' and isinstance(args[0], BSeq) and len(args[0].items) == 16:
            return BSeq(uf('aes_ecb', self.key.items + args[0].items, 16), 'bytes')
        raise Unsupported(f'AES.{name}')


def uf(name, inputs, nout):
    """output byte k of an uninterpreted function of exactly these input bytes"""
    n = len(inputs)
    return [z3.Function(f'{name}_{n}_{k}', *([BV8] * n), BV8)(*inputs) for k in range(nout)]


def bytes_eq(a, b):
    if not isinstance(a, BSeq) or not isinstance(b, BSeq) or len(a.items) != len(b.items):
        return z3.BoolVal(False)
    conj = []
    for x, y in zip(a.items, b.items):
        if isinstance(x, str) or isinstance(y, str):
            if x != y:
                return z3.BoolVal(False)
        else:
            conj.append(x == y)
    return z3.And(*conj) if conj else z3.BoolVal(True)
