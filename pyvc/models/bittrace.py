"""Bit-trace model for the SCTE-35 / MPEG section writers and readers (C14): dashlive/utils/fio BitsFieldWriter and
BitsFieldReader (repository helpers over the `bitstring` package - modelled, not verified).

A stream is a list of written fields (nbits, unsigned value term); every write carries the obligation that the value
fits its width (bitstring raises otherwise); reads are bit-granular (a read may span or split written fields), so an
encoder/parser disagreement about a width or an order is an unequal term or a failed `consumed` clause.  One-bit
reads return a Boolean, as `bitstring`'s 'bool' does."""
import z3
from ..vals import *          # noqa: F401,F403


class BitTrace:
    def __init__(self):
        self.fields = []         # [nbits, unsigned value]
        self.cursor, self.partial = 0, 0

    def clone_model(self):
        t = BitTrace()
        t.fields, t.cursor, t.partial = [list(f) for f in self.fields], self.cursor, self.partial
        t.crc_mark = getattr(self, 'crc_mark', None)
        return t

    def method(self, eng, name, args, kwargs, e):
        if name == 'tell':
            return self.readpos() // 8
        raise Unsupported(f'stream.{name}')

    def total(self):
        return sum(n for n, _ in self.fields)

    def readpos(self):
        return sum(n for n, _ in self.fields[:self.cursor]) + self.partial

    def read(self, eng, n):
        got, u = 0, z3.IntVal(0)
        while got < n:
            if self.cursor >= len(self.fields):
                eng.oblige('safety', 'bits.read_past_end', z3.BoolVal(False))
                from ..engine import PathCut
                raise PathCut()
            fn, fu = self.fields[self.cursor]
            avail = fn - self.partial
            take = min(avail, n - got)
            part = pymod(floordiv(zint(fu), z3.IntVal(2 ** (avail - take))), z3.IntVal(2 ** take))
            u = u * (2 ** take) + part
            got += take
            self.partial += take
            if self.partial == fn:
                self.cursor, self.partial = self.cursor + 1, 0
        return z3.simplify(u)


def as_uint(eng, v, e=None):
    if isinstance(v, bool):
        return z3.IntVal(1 if v else 0)
    if z3.is_bool(v):
        return z3.If(v, z3.IntVal(1), z3.IntVal(0))
    return zint(eng.num(v, e))


class BitsWriter:
    def __init__(self, obj, bits):
        self.obj, self.bits = obj, bits

    def method(self, eng, name, args, kwargs, e):
        b = self.bits
        if name == 'write':
            size, field = args[0], args[1]
            value = args[2] if len(args) > 2 else kwargs.get('value')
            if value is None:
                value = eng.getattr(self.obj, field, f'self.{field}')
            if not isinstance(size, int):
                raise Unsupported('symbolic field width')
            v = as_uint(eng, value, e)
            eng.oblige('safety', f'range:{field}', z3.And(v >= 0, v < 2 ** size))
            b.fields.append([size, v])
            return None
        if name == 'overwrite':
            pos, size, field = args[0], args[1], args[2]
            value = args[3] if len(args) > 3 else kwargs.get('value')
            if value is None:
                value = eng.getattr(self.obj, field, f'self.{field}')
            v = as_uint(eng, value, e)
            eng.oblige('safety', f'range:{field}', z3.And(v >= 0, v < 2 ** size))
            at = 0
            for f in b.fields:
                if at == pos and f[0] == size:
                    f[1] = v
                    return None
                at += f[0]
            raise Unsupported('overwrite that is not aligned with a written field')
        if name == 'bitpos':
            return b.total()
        if name == 'bytepos':
            if b.total() % 8:
                eng.oblige('safety', 'bits.byte_aligned', z3.BoolVal(False))
            return b.total() // 8
        if name == 'toBytes':
            return BitsBytes(b, b.total())
        if name == 'duplicate':
            return BitsWriter(args[0], b)
        raise Unsupported(f'BitsFieldWriter.{name}')


class BitsBytes:
    """bytes view [start, end) (in bits) of a trace: w.toBytes(), r.data, slices of them (only handed to the CRC model)"""

    def __init__(self, bits, end, start=0, nfields=None):
        self.bits, self.start, self.end = bits, start, end
        self.nfields = len(bits.fields) if nfields is None else nfields     # how many fields existed when taken
        self.snapshot = [(n, v) for n, v in bits.fields[:self.nfields]]     # bytes are immutable: the values as of now

    def len(self, eng):
        return (self.end - self.start) // 8

    def getslice(self, eng, lo, hi):
        lo = 0 if lo is None else lo
        hi = (self.end - self.start) // 8 if hi is None else hi
        if not isinstance(lo, int) or not isinstance(hi, int):
            raise Unsupported('symbolic slice of encoded bytes')
        out = BitsBytes(self.bits, self.start + 8 * hi, self.start + 8 * lo, self.nfields)
        out.snapshot = self.snapshot
        return out

    def method(self, eng, name, args, kwargs, e):
        if name == 'tolist':
            return self
        raise Unsupported(f'bytes.{name}')


class CrcModel:
    """crccheck.crc.Crc32Mpeg2 (external, trusted): final() over data d is an uninterpreted 32-bit value crc(d), with the
    single assumed property (CRC residue): crc(d || be32(crc(d))) == 0."""

    def __init__(self):
        self.data = None

    def method(self, eng, name, args, kwargs, e):
        if name == 'process':
            if not isinstance(args[0], BitsBytes) or self.data is not None:
                raise Unsupported('Crc32Mpeg2.process')
            self.data = args[0]
            return None
        if name == 'final':
            d = self.data
            bits = d.bits
            if d.start == 0 and d.end == sum(n for n, _ in bits.fields[:d.nfields]) and getattr(bits, 'crc_mark', None) is None \
                    and d.nfields == len(bits.fields):
                # encode side: CRC of everything written so far
                c = fresh('crc32')
                eng.assume(z3.And(c >= 0, c < 2 ** 32))
                # the CRC is of the field VALUES at this moment (a later overwrite changes the data, not the CRC)
                bits.crc_mark = (len(bits.fields), c, list(d.snapshot))
                return c
            mark = getattr(bits, 'crc_mark', None)
            if mark is not None and d.start == 0 and len(bits.fields) == mark[0] + 1 and bits.fields[-1][0] == 32 \
                    and bits.fields[-1][1].eq(mark[1]) and d.end == bits.total() \
                    and len(mark[2]) == mark[0] \
                    and all(n == n0 and zint(v).eq(zint(v0)) for (n, v), (n0, v0) in zip(d.snapshot[:mark[0]], mark[2])):
                return z3.IntVal(0)          # residue property
            return fresh('crc32_of_other_data')
        raise Unsupported(f'Crc32Mpeg2.{name}')


class BitsReader:
    def __init__(self, bits, kwargs):
        self.bits, self.kwargs = bits, kwargs

    def getattr(self, eng, attr):
        if attr == 'data':
            return BitsBytes(self.bits, self.bits.total())
        from ..vals import BoundMethod
        return BoundMethod(self, attr)

    def method(self, eng, name, args, kwargs, e):
        b = self.bits
        if name in ('read', 'get'):
            size = args[0]
            if not isinstance(size, int):
                raise Unsupported('symbolic field width')
            u = b.read(eng, size)
            v = (u != 0) if size == 1 else u
            if name == 'get':
                return v
            self.kwargs[args[1]] = v
            return None
        if name == 'bitpos':
            return b.readpos()
        if name == 'bytepos':
            return b.readpos() // 8
        if name == 'duplicate':
            return BitsReader(b, args[1])
        raise Unsupported(f'BitsFieldReader.{name}')


def ctor_writer(eng, args, kw):
    obj = args[0] if args else kw.get('obj')
    dest = args[1] if len(args) > 1 else kw.get('dest')
    if dest is None:
        return BitsWriter(obj, BitTrace())
    if isinstance(dest, BitsWriter):
        return BitsWriter(obj, dest.bits)
    if isinstance(dest, BitTrace):
        return BitsWriter(obj, dest)
    raise Unsupported('BitsFieldWriter destination')


def ctor_reader(eng, args, kw):
    src, kwargs = args[1], args[2]
    if isinstance(src, BitsReader):
        return BitsReader(src.bits, kwargs)
    if isinstance(src, BitTrace):
        return BitsReader(src, kwargs)
    raise Unsupported('BitsFieldReader source')
