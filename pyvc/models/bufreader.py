"""Library models for dashlive/utils/buffered_reader.py (C20).

Every `bytes` value in that module is a contiguous slice [lo, hi) of ONE underlying file of
length Len (vals.Slice).  The raw reader, the bucket dictionary and io.BytesIO are modelled by
the small classes below; they are the trusted base of the C20 proof.
"""
import z3
from ..vals import *          # noqa: F401,F403
from ..engine import PyRaise, PathCut

ASET = z3.ArraySort(INT, BOOL)
AINT = z3.ArraySort(INT, INT)
AREAL = z3.ArraySort(INT, REAL)


class FileModel:
    """io.RawIOBase over a file of `Len` bytes: seek/tell/read."""

    def __init__(self, Len, fpos):
        self.Len, self.fpos = Len, fpos

    def clone_model(self):
        return FileModel(self.Len, self.fpos)

    def frame_terms(self):
        return {'fpos': zint(self.fpos)}

    def havoc(self, eng, name):
        f = FileModel(self.Len, fresh(name + '.fpos'))
        eng.assume(f.fpos >= 0)
        return f

    def method(self, eng, name, args, kwargs, e):
        Len, p = zint(self.Len), zint(self.fpos)
        if name == 'seek':
            off = zint(args[0])
            wh = args[1] if len(args) > 1 else 0
            if not isinstance(wh, int):
                raise Unsupported('file seek with symbolic whence')
            if wh == 0:
                # io: seek to a negative absolute position raises; the callers' arguments are obliged to be >= 0
                eng.oblige('safety', 'file.seek.nonneg', off >= 0)
                self.fpos = off
            elif wh == 2:
                self.fpos = Len + off
                eng.oblige('safety', 'file.seek.nonneg', self.fpos >= 0)
            else:
                raise Unsupported('file seek whence 1')
            return self.fpos
        if name == 'tell':
            return p
        if name == 'read':
            lo = z3.If(p <= Len, p, Len)
            if args and not (isinstance(args[0], int) and args[0] < 0):
                k = zint(args[0])
                eng.oblige('safety', 'file.read.count', k >= 0)
                hi = z3.If(p + k <= Len, p + k, Len)
                hi = z3.If(hi >= lo, hi, lo)
            else:
                hi = Len
            self.fpos = z3.If(p <= Len, hi, p)
            return Slice(z3.simplify(lo), z3.simplify(hi), 'bytes')
        raise Unsupported(f'file.{name}')


class BytesIOModel:
    """io.BytesIO that is only written sequentially: its value is one slice; a write that does not
    continue the accumulated slice is wrong data and fails the obligation `contiguous`."""

    def __init__(self, lo=0, hi=0):
        self.lo, self.hi = lo, hi

    def clone_model(self):
        return BytesIOModel(self.lo, self.hi)

    def havoc(self, eng, name):
        b = BytesIOModel(fresh(name + '.lo'), fresh(name + '.hi'))
        eng.assume(b.lo <= b.hi)
        return b

    def method(self, eng, name, args, kwargs, e):
        if name == 'write':
            x = args[0]
            if not isinstance(x, Slice) or x.kind != 'bytes':
                eng.oblige('safety', 'bytesio.write.type', z3.BoolVal(False))
                raise PathCut()
            lo, hi, xl, xh = zint(self.lo), zint(self.hi), zint(x.lo), zint(x.hi)
            eng.oblige('safety', 'bytesio.write.contiguous', z3.Or(hi == lo, xh == xl, xl == hi))
            self.lo = z3.If(hi == lo, xl, lo)
            self.hi = z3.If(xh == xl, z3.If(hi == lo, xl, hi), xh)
            return xh - xl
        if name == 'getvalue':
            return Slice(self.lo, self.hi, 'bytes')
        if name == 'close':
            return None
        raise Unsupported(f'BytesIO.{name}')


class BufMap:
    """dict[int, Buffer]: domain set + one array per Buffer field + ghost cardinality."""
    FIELDS = {'pos': AINT, 'lo': AINT, 'hi': AINT, 'size': AINT, 'timestamp': AREAL}

    def __init__(self, name='buffers', entry=False):
        self.name = name
        mk = (lambda n, s=INT: z3.Const(n, s)) if entry else fresh      # entry state: stable names for witnesses
        self.dom = mk(name + '.dom', ASET)
        self.arr = {f: mk(f'{name}.{f}', s) for f, s in self.FIELDS.items()}
        self.card = mk(name + '.card')

    @staticmethod
    def empty(name='buffers'):
        b = BufMap(name)
        b.dom = z3.K(INT, z3.BoolVal(False))
        b.card = z3.IntVal(0)
        return b

    def frame_terms(self):
        return dict(self.arr, dom=self.dom, card=zint(self.card))

    def clone_model(self):
        b = BufMap.__new__(BufMap)
        b.name, b.dom, b.arr, b.card = self.name, self.dom, dict(self.arr), self.card
        return b

    def havoc(self, eng, name):
        b = BufMap(self.name)
        eng.assume(b.card >= 0)
        return b

    def contains(self, eng, k):
        return z3.Select(self.dom, zint(k))

    def buffer(self, k):
        k = zint(k)
        lo, hi = z3.Select(self.arr['lo'], k), z3.Select(self.arr['hi'], k)
        o = Obj('Buffer', {'pos': z3.Select(self.arr['pos'], k), 'buf': Slice(lo, hi), 'data': Slice(lo, hi),
                           'size': z3.Select(self.arr['size'], k), 'timestamp': z3.Select(self.arr['timestamp'], k)})
        o.frozen = True
        return o

    def getitem(self, eng, k):
        if not eng.in_spec:
            eng.oblige('safety', 'keyerror:buffers[...]', self.contains(eng, k))
        return self.buffer(k)

    def setitem(self, eng, k, v):
        k = zint(k)
        if not isinstance(v, Obj) or v.cls != 'Buffer' or not isinstance(v.f['data'], Slice):
            raise Unsupported('buffers[k] = non-Buffer')
        was = z3.Select(self.dom, k)
        self.card = z3.If(was, self.card, self.card + 1)
        self.dom = z3.Store(self.dom, k, z3.BoolVal(True))
        vals = {'pos': v.f['pos'], 'lo': v.f['data'].lo, 'hi': v.f['data'].hi, 'size': v.f['size'],
                'timestamp': v.f['timestamp']}
        for f in self.FIELDS:
            self.arr[f] = z3.Store(self.arr[f], k, zint(vals[f]) if f != 'timestamp' else zreal(vals[f]))
        v.frozen = True

    def delitem(self, eng, k):
        k = zint(eng.num(k))
        was = z3.Select(self.dom, k)
        eng.oblige('safety', 'keyerror:del buffers[...]', was)
        self.card = self.card - 1
        self.dom = z3.Store(self.dom, k, z3.BoolVal(False))

    def method(self, eng, name, args, kwargs, e):
        if name == 'items':
            return ItemsView(eng, self)
        raise Unsupported(f'dict.{name}')


class ItemsView:
    """d.items(): an enumeration enum(0..card-1) of the domain (order unspecified, as in Python for
    the purposes of the caller: it only looks for a minimum)."""

    def __init__(self, eng, m):
        self.m = m
        self.length = m.card
        self.enum = z3.Function(f'enum!{next(_fresh_id)}', INT, INT)
        i = fresh('i')
        eng.assume(z3.ForAll([i], z3.Implies(z3.And(0 <= i, i < m.card), z3.Select(m.dom, self.enum(i)))))
        eng.assume(m.card >= 0)

    def elem(self, i):
        k = self.enum(zint(i))
        return (k, self.m.buffer(k))


import itertools
_fresh_id = itertools.count()


