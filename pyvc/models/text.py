"""Formatted-text model for toIsoDuration (C19): '%d' % x, '%03d' % x, ''.join(list).

Texts are kept as structure (format + value), so the postcondition can talk about the number a text
denotes.  '%03d' % x is a digit string (num, ndigits) supporting exactly what the trailing-zero loop
uses: truthiness, s[-1] == '0', s[:-1].  Trusted: the digit-string arithmetic below
(last digit is '0' iff num % 10 == 0; dropping it divides num by 10).
"""
import ast
import z3
from ..vals import *          # noqa: F401,F403


class Formatted(Opaque):
    def __init__(self, fmt, value):
        super().__init__('formatted')
        self.fmt, self.value = fmt, value


class DigitStr:
    """decimal digit string of `ndigits` digits (python int) whose numeric value is `num`"""

    def __init__(self, num, ndigits):
        self.num, self.ndigits = num, ndigits

    def havoc(self, eng, name):
        raise Unsupported('digit string across a loop cut (the trailing-zero loop is unrolled completely)')

    def truthy(self):
        return self.ndigits > 0

    def getitem(self, eng, idx):
        if idx != -1:
            raise Unsupported('digit string index other than -1')
        if self.ndigits <= 0:
            from ..engine import PyRaise
            raise PyRaise('IndexError')
        return LastDigit(self)

    def getslice(self, eng, lo, hi):
        if lo is None and hi == -1:
            return DigitStr(floordiv(zint(self.num), z3.IntVal(10)), max(0, self.ndigits - 1))
        raise Unsupported('digit string slice other than [:-1]')


class LastDigit:
    def __init__(self, s):
        self.s = s

    def compare(self, eng, op, other, swapped):
        if other == '0' and isinstance(op, (ast.Eq, ast.NotEq)):
            r = pymod(zint(self.s.num), z3.IntVal(10)) == 0
            return z3.Not(r) if isinstance(op, ast.NotEq) else r
        raise Unsupported('digit comparison')


class Joined(Opaque):
    def __init__(self, parts):
        super().__init__('joined')
        self.parts = parts


class SignedDigits:
    """an optional sign character followed by decimal digits whose value is `num` (python: int(text, 10) == sign * num)"""
    py_types = ('str',)

    def __init__(self, sign, num):
        self.sign, self.num = sign, num          # sign: '' | '+' | '-'

    def clone_model(self):
        return SignedDigits(self.sign, self.num)

    def to_int(self, eng, base):
        if base != 10:
            raise Unsupported('int(digits, base) for a base other than 10')
        return -zint(self.num) if self.sign == '-' else zint(self.num)

    def binop(self, eng, op, other, swapped):
        # '<sign>' + digits
        if isinstance(op, ast.Add) and swapped and other in ('+', '-', '') and self.sign == '':
            return SignedDigits(other, self.num)
        raise Unsupported('operation on a digit string')


class HexText:
    """'0x%x' % v for a non-negative integer v: the text Python's int(text, 16) reads back as v"""
    py_types = ('str',)

    def __init__(self, value):
        self.value = value

    def clone_model(self):
        return HexText(self.value)

    def to_int(self, eng, base):
        if base in (16, 0):
            return self.value
        from ..engine import PyRaise
        raise PyRaise('ValueError')          # '0x..' is not a literal of any other base


def percent_format(eng, fmt, value, e):
    """'<fmt>' % value for the formats the anchored functions use."""
    if fmt == '0x%x' and not isinstance(value, (tuple, str)):
        v = eng.num(value, e)
        if isinstance(v, int) and not isinstance(v, bool):
            return fmt % v
        # a negative value would print as '0x-..', which no int() reads back
        eng.oblige('safety', 'format.%x.nonneg', zint(v) >= 0)
        return HexText(zint(v))
    if fmt == '%03d':
        v = zint(eng.num(value, e))
        # three digits for 0..999, four for 1000..9999: the model decides which (both are real behaviours)
        eng.oblige('safety', 'format.%03d.range', z3.And(v >= 0, v <= 9999))
        if eng.branch(v <= 999):
            return DigitStr(v, 3)
        return DigitStr(v, 4)
    if isinstance(fmt, str) and fmt.count('%') == 1 and '%d' in fmt and isinstance(value, int) and not isinstance(value, bool):
        return fmt % value                      # concrete text (e.g. the bitstring token 'uint:%d' % size)
    if isinstance(fmt, str) and fmt.count('%') == 1 and '%d' in fmt:
        return Formatted(fmt, value)
    return Opaque('formatted')
