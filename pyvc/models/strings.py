"""Opaque-string model for RequestHandlerBase.get_http_range (C13).

The Range header is an optional opaque string described by the predicates the code can observe:
present, bytes_prefix (startswith 'bytes=' after lower/strip), has_comma, arity (number of parts of
h[6:].split('-')), and for the two parts p, q: empty / isnum / val.  Model axioms (assumed): a part
of split('-') contains no '-', so int(part, 10) >= 0 whenever it succeeds; int('') fails.
"""
import ast
import z3
from ..vals import *          # noqa: F401,F403
from ..engine import PyRaise, PathCut


class Headers:
    def __init__(self, w):
        self.w = w

    def getitem(self, eng, key):
        if key != 'range':
            raise Unsupported(f'headers[{key!r}]')
        if eng.branch(self.w['present']):
            return HdrStr(self.w)
        raise PyRaise('KeyError')

    def contains(self, eng, key):
        if key != 'range':
            raise Unsupported(f'{key!r} in headers')
        return self.w['present']


class HdrStr:
    def __init__(self, w, cut=0):
        self.w, self.cut = w, cut

    def method(self, eng, name, args, kwargs, e):
        if name in ('lower', 'strip') and not args:
            return self
        if name == 'startswith' and args == ['bytes='] and self.cut == 0:
            return self.w['bytes_prefix']
        if name == 'split' and args == ['-'] and self.cut == 6:
            return SplitParts(self.w)
        raise Unsupported(f'str.{name}{args!r}')

    def contains(self, eng, item):
        if item == ',' and self.cut == 0:
            return self.w['has_comma']
        raise Unsupported(f'{item!r} in header')

    def getslice(self, eng, lo, hi):
        if lo == 6 and hi is None and self.cut == 0:
            return HdrStr(self.w, 6)
        raise Unsupported('header slice')


class SplitParts:
    def __init__(self, w):
        self.w = w

    def unpack(self, eng, n):
        if n != 2:
            raise Unsupported('unpack of split() into other than 2')
        if eng.branch(self.w['arity'] == 2):
            return (PartStr(self.w, 'p'), PartStr(self.w, 'q'))
        raise PyRaise('ValueError')     # too many / not enough values to unpack


class PartStr:
    def __init__(self, w, nm):
        self.w, self.nm = w, nm

    def compare(self, eng, op, other, swapped):
        if other == '' and isinstance(op, (ast.Eq, ast.NotEq)):
            r = self.w[self.nm + '_empty']
            return z3.Not(r) if isinstance(op, ast.NotEq) else r
        raise Unsupported('string comparison')

    def to_int(self, eng, base):
        if base != 10:
            raise Unsupported('int(x, base != 10)')
        if eng.branch(self.w[self.nm + '_num']):
            return self.w[self.nm + '_val']
        raise PyRaise('ValueError')


class FString(Opaque):
    """f'...' : constant pieces and evaluated values, so that equal texts are equal part lists."""

    def __init__(self, parts):
        super().__init__('fstring')
        self.parts = parts
