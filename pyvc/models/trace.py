"""Byte-trace model for the ISO-BMFF field writers / readers (C04, C02 tfdt clause).

A destination stream is a list of written fields (nbytes, unsigned big-endian value as an integer term); reading
consumes whole fields (several written fields may be read as one wider field and vice versa is rejected).  The
repository's own helpers FieldWriter.write / FieldReader.read (dashlive/utils/fio) and struct.pack / unpack are
modelled for the format codes the anchored boxes use (B H I Q i q, '3I', integer sizes with packed or constant
bytes); every write emits the obligation that the value fits the field (`safety.range`), so a value the struct
module would reject (struct.error -> 5xx) or silently truncate shows up as a failed obligation.
"""
import ast
import z3
from ..vals import *          # noqa: F401,F403
from ..engine import PyRaise

CODES = {'B': (1, False), 'H': (2, False), 'I': (4, False), 'Q': (8, False),
         'b': (1, True), 'h': (2, True), 'i': (4, True), 'q': (8, True)}


class Packed:
    """bytes produced by struct.pack / read from a trace: (nbytes, unsigned value)"""
    py_types = ('bytes',)

    def __init__(self, n, u):
        self.n, self.u = n, u

    def len(self, eng):
        return self.n

    def getslice(self, eng, lo, hi):
        """bytes [lo:hi) of the big-endian value, for concrete bounds (Python slice semantics)"""
        if (lo is None or isinstance(lo, int)) and (hi is None or isinstance(hi, int)):
            lo, hi, _ = slice(lo, hi).indices(self.n)
            k = max(0, hi - lo)
            if k == 0:
                return b''
            if k == self.n:
                return self
            return Packed(k, pymod(floordiv(zint(self.u), z3.IntVal(256 ** (self.n - hi))), z3.IntVal(256 ** k)))
        raise Unsupported('slice of packed bytes with symbolic bounds')

    def byte_var(self, eng, k):
        """byte k as an integer: the bytes of an n-byte big-endian value are fresh integers b_k in [0, 256) with
        sum(b_k * 256^(n-1-k)) == u - the unique decomposition of u (0 <= u < 256^n holds for every traced field: it
        is a `fits` result)"""
        if self.n == 1:
            return zint(self.u)
        if getattr(self, '_bytes', None) is None:
            self._bytes = [fresh('byte') for _ in range(self.n)]
            eng.assume(z3.And(*[z3.And(b >= 0, b < 256) for b in self._bytes]))
            eng.assume(zint(self.u) == z3.Sum([b * (256 ** (self.n - 1 - k)) for k, b in enumerate(self._bytes)]))
        return self._bytes[k]

    def getitem(self, eng, idx):
        if isinstance(idx, int) and -self.n <= idx < self.n:
            if self.n == 1:
                return zint(self.u)
            return ByteSum(eng, [(self, idx % self.n, 1)])
        raise Unsupported('index into packed bytes')


class ByteSum:
    """A weighted sum of bytes of packed values, as code that reassembles an integer from its bytes builds it
    (`(d[0] << 8) + d[1]`).  When the sum contains every byte of a packed value with its big-endian weight it IS
    that value (times a common factor); anything else falls back to the linear byte decomposition."""

    def __init__(self, eng, terms, rest=0):
        self.eng, self.terms, self.rest = eng, terms, rest

    def as_int(self):
        groups = {}
        for p, k, c in self.terms:
            groups.setdefault(id(p), (p, {}))[1][k] = groups.get(id(p), (p, {}))[1].get(k, 0) + c
        total = zint(self.rest)
        for p, coefs in groups.values():
            low = coefs.get(p.n - 1)
            if len(coefs) == p.n and low and all(coefs[k] == low * 256 ** (p.n - 1 - k) for k in range(p.n)):
                total = total + low * zint(p.u)
            else:
                for k, c in coefs.items():
                    total = total + c * p.byte_var(self.eng, k)
        return z3.simplify(total)

    def done(self):
        """plain integer as soon as nothing but whole values is left"""
        groups = {}
        for p, k, c in self.terms:
            groups.setdefault(id(p), (p, {}))[1][k] = c
        for p, coefs in groups.values():
            low = coefs.get(p.n - 1)
            if not (len(coefs) == p.n and low and all(coefs[k] == low * 256 ** (p.n - 1 - k) for k in range(p.n))):
                return self
        return self.as_int()

    def binop(self, eng, op, other, swapped):
        if isinstance(op, ast.LShift) and not swapped and isinstance(other, int) and other >= 0:
            return self.scale(2 ** other)
        if isinstance(op, ast.Mult) and isinstance(other, int):
            return self.scale(other)
        if isinstance(op, ast.Add):
            if isinstance(other, ByteSum):
                return ByteSum(eng, self.terms + other.terms, zint(self.rest) + zint(other.rest)).done()
            return ByteSum(eng, self.terms, zint(self.rest) + zint(other)).done()
        a, b = (other, self.as_int()) if swapped else (self.as_int(), other)
        return eng.binop(op, a, b)

    def scale(self, m):
        return ByteSum(self.eng, [(p, k, c * m) for p, k, c in self.terms], zint(self.rest) * m).done()

    def compare(self, eng, op, other, swapped):
        a, b = (other, self.as_int()) if swapped else (self.as_int(), other)
        return eng.compare(op, a, b)


class Trace:
    py_types = ('BytesIO', 'RawIOBase', 'BufferedReader')

    def __init__(self):
        self.fields = []        # [(nbytes, unsigned value term)]
        self.cursor = 0         # index of the next field to read
        self.partial = 0

    def clone_model(self):
        t = Trace()
        t.fields, t.cursor, t.partial, t.reading = list(self.fields), self.cursor, self.partial, self.reading
        return t

    def total(self):
        return sum(n for n, _ in self.fields)

    def append(self, n, u):
        self.fields.append((n, u))

    def method(self, eng, name, args, kwargs, e):
        if name == 'write':
            v = args[0]
            if isinstance(v, Packed):
                self.append(v.n, v.u)
                return v.n
            if isinstance(v, bytes):
                self.append(len(v), z3.IntVal(int.from_bytes(v, 'big')))
                return len(v)
            raise Unsupported('write of a non-packed value to a trace')
        if name == 'tell':
            return sum(n for n, _ in self.fields[:self.cursor]) if self.reading else self.total()
        if name == 'read':
            return self.read(eng, args[0])
        raise Unsupported(f'stream.{name}')

    reading = False

    def read(self, eng, n):
        """n bytes from the cursor, at byte granularity (a read may cover several written fields or part of one)"""
        if not isinstance(n, int):
            raise Unsupported('symbolic read size')
        got, u = 0, z3.IntVal(0)
        while got < n:
            if self.cursor >= len(self.fields):
                eng.oblige('safety', 'trace.read_past_end', z3.BoolVal(False))
                from ..engine import PathCut
                raise PathCut()
            fn, fu = self.fields[self.cursor]
            avail = fn - self.partial
            take = min(avail, n - got)
            # bytes [partial, partial+take) of the field, big-endian
            part = pymod(floordiv(zint(fu), z3.IntVal(256 ** (avail - take))), z3.IntVal(256 ** take))
            u = u * (256 ** take) + part
            got += take
            self.partial += take
            if self.partial == fn:
                self.cursor, self.partial = self.cursor + 1, 0
        u = z3.simplify(u)
        if z3.is_int_value(u):
            return u.as_long().to_bytes(n, 'big')       # constant data reads back as real bytes
        return Packed(n, u)


def fits(eng, v, n, signed, what):
    v = zint(v)
    lo, hi = (-(256 ** n) // 2, (256 ** n) // 2) if signed else (0, 256 ** n)
    eng.oblige('safety', f'range:{what}', z3.And(v >= lo, v < hi))
    return pymod(v, z3.IntVal(256 ** n))


def struct_pack(eng, e, args):
    fmt = args[0]
    if fmt in ('B', 'b'):
        fmt = '>' + fmt                 # one byte: no byte order, no alignment
    if not isinstance(fmt, str) or len(fmt) != 2 or fmt[0] != '>' or fmt[1] not in CODES:
        raise Unsupported(f'struct.pack({fmt!r})')
    n, signed = CODES[fmt[1]]
    return Packed(n, fits(eng, eng.num(args[1], e), n, signed, ast.unparse(e)[:40]))


def struct_unpack(eng, e, args):
    fmt, data = args
    if fmt in ('B', 'b'):
        fmt = '>' + fmt                 # one byte: no byte order, no alignment
    if isinstance(data, bytes):
        data = Packed(len(data), z3.IntVal(int.from_bytes(data, 'big')))
    if not isinstance(fmt, str) or len(fmt) != 2 or fmt[0] != '>' or fmt[1] not in CODES or not isinstance(data, Packed):
        raise Unsupported(f'struct.unpack({fmt!r})')
    n, signed = CODES[fmt[1]]
    if data.n != n:
        eng.oblige('safety', 'struct.unpack.size', z3.BoolVal(False))
        from ..engine import PathCut
        raise PathCut()
    u = z3.simplify(zint(data.u))
    if z3.is_int_value(u):
        c = u.as_long()                       # a constant that was written reads back as a Python int
        return (c - 256 ** n if signed and c >= (256 ** n) // 2 else c,)
    v = z3.If(u >= (256 ** n) // 2, u - 256 ** n, u) if signed else u
    return (v,)


class FieldWriterModel:
    def __init__(self, obj, dest):
        self.obj = obj
        self.dest = dest.dest if isinstance(dest, FieldWriterModel) else dest

    def method(self, eng, name, args, kwargs, e):
        if name != 'write':
            raise Unsupported(f'FieldWriter.{name}')
        size, field = args[0], args[1]
        value = args[2] if len(args) > 2 else kwargs.get('value')
        if value is None:
            value = eng.getattr(self.obj, field, f'self.{field}')
        what = f'{field}'
        if isinstance(size, str):
            if size in CODES:
                n, signed = CODES[size]
                self.dest.append(n, fits(eng, eng.num(value, e), n, signed, what))
            elif size == '3I':
                u = fits(eng, eng.num(value, e), 4, False, what)
                self.dest.append(3, pymod(u, z3.IntVal(256 ** 3)))
            else:
                raise Unsupported(f'FieldWriter format {size!r}')
        elif isinstance(size, int):
            if isinstance(value, Packed):
                if value.n != size:
                    raise Unsupported('FieldWriter padding / truncation of packed bytes')
                self.dest.append(size, value.u)
            elif isinstance(value, bytes) and len(value) == size:
                self.dest.append(size, z3.IntVal(int.from_bytes(value, 'big')))
            else:
                raise Unsupported('FieldWriter integer size with a non-bytes value')
        else:
            raise Unsupported('FieldWriter size')
        return None


class FieldReaderModel:
    def __init__(self, src, kwargs):
        self.src, self.kwargs = src, kwargs

    def method(self, eng, name, args, kwargs, e):
        if name not in ('read', 'get'):
            raise Unsupported(f'FieldReader.{name}')
        size, field = args[0], args[1]
        if isinstance(size, str) and size in CODES and size in 'BHIiQ':
            n, signed = CODES[size]
            v = struct_unpack(eng, e, ['>' + size, self.src.read(eng, n)])[0]
        elif size == '3I':
            v = zint(self.src.read(eng, 3).u)
        else:
            raise Unsupported(f'FieldReader format {size!r}')
        if name == 'get':
            return v
        self.kwargs[field] = v
        return None


class BitLen:
    """x.bit_length() of a non-negative int: only compared with constants"""

    def __init__(self, x):
        self.x = x

    def compare(self, eng, op, other, swapped):
        if swapped or not isinstance(other, int) or other < 0:
            raise Unsupported('bit_length comparison')
        x = zint(self.x)
        ax = z3.If(x >= 0, x, -x)
        if isinstance(op, ast.Gt):
            return ax >= 2 ** other
        if isinstance(op, ast.LtE):
            return ax < 2 ** other
        raise Unsupported('bit_length comparison operator')


# ----------------------------------------------------------------------------- the `bitstring` package (third party)
class BitArrayModel:
    """bitstring.BitArray(): bit fields appended most-significant first; .bytes needs a whole number of bytes"""

    def __init__(self):
        self.fields = []            # (nbits, value term)

    def truthy(self):
        return True

    def method(self, eng, name, args, kwargs, e):
        if name == 'append' and isinstance(args[0], tuple) and args[0] and args[0][0] == '__bits__':
            self.fields.append(args[0][1:])
            return None
        raise Unsupported(f'BitArray.{name}')

    def getattr(self, eng, attr):
        if attr == 'bytes':
            total = sum(n for n, _ in self.fields)
            if total % 8:
                raise PyRaise('InterpretError')       # bitstring: cannot interpret as bytes unambiguously
            u, left = z3.IntVal(0), total
            for n, v in self.fields:
                left -= n
                u = u + zint(v) * (2 ** left)
            return Packed(total // 8, z3.simplify(u))
        raise Unsupported(f'BitArray.{attr}')


def bits_ctor(eng, e, a, kw):
    """bitstring.Bits(uint=value, length=size): the value must fit (bitstring raises CreationError otherwise)"""
    if set(kw) != {'uint', 'length'} or not isinstance(kw['length'], int):
        raise Unsupported('bitstring.Bits form')
    v = zint(eng.num(kw['uint'], e))
    eng.oblige('safety', f'range:bits({kw["length"]})', z3.And(v >= 0, v < 2 ** kw['length']))
    return ('__bits__', kw['length'], v)


class BitStreamModel:
    """bitstring.ConstBitStream(bytes=data): read('bool' | 'uint:n' | 'bytes:n') from the current bit position"""

    def __init__(self, data):
        if isinstance(data, bytes):
            data = Packed(len(data), z3.IntVal(int.from_bytes(data, 'big')))
        self.data, self.pos = data, 0

    def getattr(self, eng, attr):
        if attr in ('bitpos', 'pos'):
            return self.pos
        if attr == 'bytepos':
            if self.pos % 8:
                raise PyRaise('ByteAlignError')
            return self.pos // 8
        raise Unsupported(f'ConstBitStream.{attr}')

    def take(self, eng, n):
        total = 8 * self.data.n
        if self.pos + n > total:
            raise PyRaise('ReadError')
        left = total - self.pos - n
        self.pos += n
        return z3.simplify(pymod(floordiv(zint(self.data.u), z3.IntVal(2 ** left)), z3.IntVal(2 ** n)))

    def method(self, eng, name, args, kwargs, e):
        if name != 'read' or not isinstance(args[0], str):
            raise Unsupported(f'ConstBitStream.{name}')
        tok = args[0]
        if tok == 'bool':
            return self.take(eng, 1) != 0
        kind, _, n = tok.partition(':')
        if kind == 'uint' and n.isdigit():
            v = self.take(eng, int(n))
            return v.as_long() if z3.is_int_value(v) else v
        if kind == 'bytes' and n.isdigit():
            return Packed(int(n), self.take(eng, 8 * int(n)))
        raise Unsupported(f'ConstBitStream.read({tok!r})')


BITSTRING_MODELS = {
    'bitstring.BitArray': lambda eng, e, a, kw: BitArrayModel(),
    'bitstring.Bits': bits_ctor,
    'bitstring.ConstBitStream': lambda eng, e, a, kw: BitStreamModel(kw['bytes']),
}


# ----------------------------------------------------------------------------- a stream of chunks with symbolic lengths
class SizedStream:
    """An output stream whose content is a sequence of chunks (length term, content tag); lengths may be symbolic.
    tell() is the sum of the lengths before the cursor; seek(p) must land on a chunk boundary that is syntactically the
    offset of a chunk start (back-patching a length field), a write there must replace a chunk of the same length."""
    py_types = ('BytesIO',)

    def __init__(self, initial_len):
        self.chunks = [(zint(initial_len), ('existing',))]     # what was in the stream before
        self.cursor = None                                      # None = at the end; else index of the chunk to overwrite

    def offset_of(self, k):
        t = z3.IntVal(0)
        for n, _ in self.chunks[:k]:
            t = t + n
        return z3.simplify(t)

    def end(self):
        return self.offset_of(len(self.chunks))

    def method(self, eng, name, args, kwargs, e):
        if name == 'tell':
            return self.end() if self.cursor is None else self.offset_of(self.cursor)
        if name == 'seek':
            whence = args[1] if len(args) > 1 else 0
            if whence == 2 and args[0] == 0:
                self.cursor = None
                return self.end()
            if whence != 0:
                raise Unsupported('seek whence')
            pos = z3.simplify(zint(args[0]))
            for k in range(len(self.chunks) + 1):
                if z3.simplify(self.offset_of(k) - pos).eq(z3.IntVal(0)):
                    self.cursor = None if k == len(self.chunks) else k
                    return pos
            # not syntactically a chunk boundary: a position the writer cannot justify
            eng.oblige('safety', 'stream.seek.chunk_boundary', z3.BoolVal(False))
            from ..engine import PathCut
            raise PathCut()
        if name == 'write':
            v = args[0]
            n, tag = (v.n, ('value', v.u)) if isinstance(v, Packed) else \
                ((len(v), ('bytes', v)) if isinstance(v, bytes) else (None, None))
            if n is None:
                raise Unsupported('write of an unsized value')
            if self.cursor is None:
                self.chunks.append((z3.IntVal(n), tag))
            else:
                old_n, _ = self.chunks[self.cursor]
                eng.oblige('safety', 'stream.overwrite.same_length', z3.simplify(old_n - n) == 0)
                self.chunks[self.cursor] = (z3.IntVal(n), tag)
                self.cursor = self.cursor + 1 if self.cursor + 1 < len(self.chunks) else None
            return n
        if name == 'getvalue':
            return self
        raise Unsupported(f'stream.{name}')

    def append_abstract(self, length, tag):
        if self.cursor is not None:
            raise Unsupported('abstract write in the middle of the stream')
        self.chunks.append((zint(length), tag))

    def value_at(self, pos):
        """the integer written in the chunk that starts at offset pos (None if there is no such chunk)"""
        pos = z3.simplify(zint(pos))
        for k, (n, tag) in enumerate(self.chunks):
            if z3.simplify(self.offset_of(k) - pos).eq(z3.IntVal(0)) and tag[0] == 'value':
                return tag[1]
        return None
