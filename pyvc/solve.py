"""Discharge verification conditions: z3 (Python API) first, /usr/bin/cvc5 for z3's unknowns, then z3 again with
other seeds and a larger budget.  VCs are independent and are farmed to fork()ed worker processes (children
inherit the z3 ASTs copy-on-write).

Robustness measures (all found necessary in practice with z3 5.1):
  * obligations emitted at the same point of a path share their hypotheses: their conjunction is tried first;
  * a query is first tried WITHOUT its quantified hypotheses (sound: fewer hypotheses); `unsat` is final, and a
    `sat` answer yields a *candidate* counter-model (z3 may never return on the full, satisfiable, quantified query);
  * z3 does not always honour its timeout (lp::dioph_eq) and cannot safely be interrupted from a second Python
    thread (GC there frees ASTs under the solver's feet): the parent kills a worker that exceeds a hard wall-clock
    limit, retries the work in smaller pieces / without the Diophantine module, and finally records `unknown`.
`unknown` is never reported as proved, and never as a counterexample: the caller replays candidate models natively.
"""
import multiprocessing as mp
import os
import sys
import subprocess
import tempfile
import time
from fractions import Fraction

import z3

_OBS = []          # set before the workers fork
_CFG = {}
_EXPENSIVE = None  # shared counter of VCs that entered the retry ladder (bounded: a badly broken tree is reported
                   # in minutes; on the unchanged tree the ladder is rarely entered at all)
_CONN = None       # worker side of the pipe (for early candidate-model messages)


def _val(v):
    if z3.is_int_value(v):
        return v.as_long()
    if z3.is_rational_value(v):
        f = Fraction(v.numerator_as_long(), v.denominator_as_long())
        return f.numerator if f.denominator == 1 else str(f)
    if z3.is_true(v):
        return True
    if z3.is_false(v):
        return False
    if z3.is_algebraic_value(v):
        return str(v.approx(10))
    return str(v)


def model_dict(m, ob, wt):
    """Everything replay may need: named constants of the VC, plus contract-specific terms."""
    ev = lambda t: _val(m.eval(t, model_completion=True))
    out = {}
    for d in m.decls():
        if d.arity() == 0:
            out[d.name()] = _val(m[d])
    if wt is not None:
        try:
            out['__witness__'] = wt(ev)
        except Exception as err:      # a witness builder must never turn a verdict into a crash
            out['__witness_error__'] = repr(err)
    return out


def small_model(s, m, ob, wt):
    """prefer a small counter-model (replays build real objects from it): bound every integer constant"""
    ints = [d() for d in m.decls() if d.arity() == 0 and d.range() == z3.IntSort()]
    for bound in (16, 256, 4096):
        s.push()
        s.set('timeout', 3000)
        for c in ints:
            s.add(c >= -bound, c <= bound)
        r = s.check()
        if r == z3.sat:
            m = s.model()
            s.pop()
            break
        s.pop()
    return model_dict(m, ob, wt)


def run_cvc5(smt2, tlimit_ms):
    with tempfile.NamedTemporaryFile('w', suffix='.smt2', delete=False) as f:
        f.write('(set-logic ALL)\n' + smt2 + '\n(check-sat)\n')
        path = f.name
    try:
        r = subprocess.run(['/usr/bin/cvc5', f'--tlimit={tlimit_ms}', '--strings-exp', path],
                           capture_output=True, text=True, timeout=tlimit_ms / 1000 + 10)
        out = r.stdout.strip().splitlines()
        return out[0] if out and out[0] in ('sat', 'unsat', 'unknown') else 'unknown'
    except Exception:
        return 'unknown'
    finally:
        os.unlink(path)


def _has_q(t, _memo={}):
    k = t.get_id()
    if k not in _memo:
        _memo[k] = z3.is_quantifier(t) or any(_has_q(c) for c in t.children())
    return _memo[k]


def _solver(hyps, goals_negated, timeout, seed=None):
    s = z3.Solver()
    s.set('timeout', timeout)
    if seed is None:
        seed = _CFG.get('seed')
    if os.environ.get('PYVC_MBQI', '0') == '0':
        # proofs only need E-matching; model-based quantifier instantiation is where z3 loops on our VCs, and
        # counter-models are obtained from the quantifier-free relaxation anyway
        s.set('smt.mbqi', False)
    if seed is not None:
        s.set('random_seed', seed)
    s.add(*hyps)
    s.add(goals_negated)
    return s


def _skolemize(goal, sk):
    """positive-polarity universal quantifiers of the goal replaced by fresh constants (sound for proving)"""
    if z3.is_quantifier(goal) and goal.is_forall():
        vs = [z3.Const(f'sk!{len(sk)}!{goal.var_name(i)}', goal.var_sort(i)) for i in range(goal.num_vars())]
        sk.extend(vs)
        return _skolemize(z3.substitute_vars(goal.body(), *reversed(vs)), sk)
    if z3.is_and(goal):
        return z3.And(*[_skolemize(c, sk) for c in goal.children()])
    if z3.is_implies(goal):
        return z3.Implies(goal.arg(0), _skolemize(goal.arg(1), sk))
    if z3.is_app_of(goal, z3.Z3_OP_ITE) and z3.is_bool(goal):
        return z3.If(goal.arg(0), _skolemize(goal.arg(1), sk), _skolemize(goal.arg(2), sk))
    return goal


def _index_terms(fs, limit=48):
    """ground integer terms used as arguments of uninterpreted functions / array reads: the relevant instances"""
    out, seen = [], set()

    def ground(t):
        if z3.is_var(t):
            return False
        return all(ground(c) for c in t.children())

    def walk(t, bound):
        if t.get_id() in seen:
            return
        seen.add(t.get_id())
        if z3.is_quantifier(t):
            return
        if z3.is_app(t):
            k = t.decl().kind()
            if k in (z3.Z3_OP_UNINTERPRETED, z3.Z3_OP_SELECT) and t.num_args() > 0:
                for a in t.children():
                    if a.sort() == z3.IntSort() and ground(a) and not any(a.eq(o) for o in out):
                        out.append(a)
            for c in t.children():
                walk(c, bound)
    for f in fs:
        walk(f, False)
    return out[:limit]


def _boost(hyps, goal, wide=True):
    """Quantifier-free strengthening by relevant instantiation: the goal is skolemized and every universally
    quantified hypothesis is replaced by its instances at the ground index terms of the problem (plus neighbours).
    Instances of hypotheses are consequences of them, so `unsat` of the boosted query is a proof."""
    sk = []
    g = _skolemize(goal, sk)
    qf = [h for h in hyps if not _has_q(h)]
    quant = [h for h in hyps if _has_q(h)]
    terms = list(sk) + _index_terms([g] + (qf if wide else []), 48 if wide else 16)
    extra = []
    for t in list(terms):
        for dlt in (1, -1):
            extra.append(z3.simplify(t + dlt))
    terms = terms + [t for t in extra if not any(t.eq(o) for o in terms)]
    terms = terms[:80]
    insts = []
    for q in quant:
        for conj in (q.children() if z3.is_and(q) else [q]):
            if z3.is_quantifier(conj) and conj.is_forall():
                nv = conj.num_vars()
                if nv == 1:
                    insts += [z3.substitute_vars(conj.body(), t) for t in terms]
                elif nv == 2:
                    short = terms[:14]
                    insts += [z3.substitute_vars(conj.body(), a, b) for a in short for b in short]
            elif not _has_q(conj):
                insts.append(conj)
            elif z3.is_implies(conj) and not _has_q(conj.arg(0)) and z3.is_quantifier(conj.arg(1)) and conj.arg(1).num_vars() == 1:
                insts += [z3.Implies(conj.arg(0), z3.substitute_vars(conj.arg(1).body(), t)) for t in terms]
            elif z3.is_app_of(conj, z3.Z3_OP_ITE):
                for br, cond in ((conj.arg(1), conj.arg(0)), (conj.arg(2), z3.Not(conj.arg(0)))):
                    if z3.is_quantifier(br) and br.num_vars() == 1:
                        insts += [z3.Implies(cond, z3.substitute_vars(br.body(), t)) for t in terms]
                    elif not _has_q(br):
                        insts.append(z3.Implies(cond, br))
    return qf + insts, g


def _relaxed(obs_list):
    """hypotheses without their quantified conjuncts; None if there are none to drop"""
    ob0 = obs_list[0]
    hyps = list(ob0.pc) + list(ob0.defs)
    qf = [h for h in hyps if not _has_q(h)]
    return qf if len(qf) < len(hyps) else None


def _solve(i):
    ob, wt = _OBS[i]
    timeout = _CFG['timeout']
    t0 = time.time()
    res = {'backend': 'z3'}
    done = lambda **kw: (res.update(ms=int(1000 * (time.time() - t0)), **kw), (i, res))[1]
    neg = z3.Not(ob.goal)
    if ob.kind == 'canary':
        # only `unsat` matters for a canary (it must NOT be provable): small budget, one back end
        r = _solver(list(ob.pc) + list(ob.defs), neg, min(timeout, 3000)).check()
        return done(status=str(r))
    # 1. without quantified hypotheses (smaller, and the only form in which z3 reliably finds counter-models)
    qf = _relaxed([ob])
    if qf is not None and not _has_q(ob.goal):
        s = _solver(qf, neg, max(2000, timeout // 4))
        r = s.check()
        if r == z3.unsat:
            return done(status='unsat', note='proved without the quantified hypotheses')
        if r == z3.sat and _CONN is not None:
            try:
                _CONN.send(('candidate', i, small_model(s, s.model(), ob, wt)))
            except Exception:
                pass
    # 2. without the definitional equations
    if ob.defs:
        r = _solver(ob.pc, neg, max(1000, timeout // 4)).check()
        if r == z3.unsat:
            return done(status='unsat', note='proved without the definitional equations')
    # 3. quantifier-free after relevant instantiation (skolemized goal, hypotheses instantiated at the problem's
    #    index terms): E-matching misses instances when index terms are not syntactically aligned
    full = list(ob.pc) + list(ob.defs)
    if any(_has_q(h) for h in full) or _has_q(ob.goal):
        try:
            for wide in (False, True):      # first only the goal's own index terms (small query), then all of them
                bh, bg = _boost(full, ob.goal, wide)
                if not _has_q(bg):
                    r = _solver(bh, z3.Not(bg), max(3000, timeout // (2 if wide else 5))).check()
                    if r == z3.unsat:
                        return done(status='unsat', note='proved after relevant instantiation (quantifier-free)')
        except z3.Z3Exception:
            pass
    if _CFG.get('no_full'):
        # retry of a member whose worker died / hung after it had reported a candidate counter-model: only the cheap,
        # terminating stages above are repeated (the full quantified query is where z3 does not return)
        return done(status='unknown', reason='not proved by the quantifier-free stages; a candidate counter-model exists')
    # 4. the full query
    s = _solver(full, neg, timeout)
    r = s.check()
    if r == z3.unknown and _CFG.get('cvc5', True):
        c = run_cvc5(s.to_smt2().replace('(check-sat)', ''), timeout)
        if c == 'unsat':
            return done(status='unsat', backend='cvc5')
        # a cvc5 `sat` carries no model through this route: fall through to z3's ladder
    ladder = True
    if r == z3.unknown and _EXPENSIVE is not None:
        with _EXPENSIVE.get_lock():
            _EXPENSIVE.value += 1
            ladder = _EXPENSIVE.value <= _CFG.get('max_ladder', 24)
    if r == z3.unknown and ladder:
        for seed in (7, 23, 101):       # nonlinear queries are sensitive to the search order
            s = _solver(full, neg, timeout, seed)
            r = s.check()
            if r != z3.unknown:
                res['backend'] = f'z3(seed {seed})'
                break
        if r == z3.unknown:
            s = _solver(full, neg, 4 * timeout)
            r = s.check()
            res['backend'] = 'z3(4x)'
    if r == z3.unknown:
        res['reason'] = s.reason_unknown()
    if r == z3.sat:
        try:
            res['model'] = small_model(s, s.model(), ob, wt)
        except Exception as err:
            res['model'] = {'__model_error__': repr(err)}
    if _CFG.get('second_backend') and r == z3.unsat:
        res['cvc5'] = run_cvc5(s.to_smt2().replace('(check-sat)', ''), timeout)
    return done(status=str(r))


def _batch(idxs):
    """Obligations emitted at the same point of the same path share their path condition: try their conjunction
    in one query first; `unsat` discharges them all, anything else falls back to one query each."""
    if len(idxs) > 1:
        obs = [_OBS[i][0] for i in idxs]
        t0 = time.time()
        neg = z3.Not(z3.And(*[o.goal for o in obs]))
        ok = lambda note: [(i, {'status': 'unsat', 'backend': 'z3', 'ms': int(1000 * (time.time() - t0)) // len(idxs),
                                'batched': len(idxs), 'note': note}) for i in idxs]
        qf = _relaxed(obs)
        full = list(obs[0].pc) + list(obs[0].defs)
        relaxed_sat = False
        if qf is not None and not any(_has_q(o.goal) for o in obs):
            r = _solver(qf, neg, max(2000, _CFG['timeout'] // 4)).check()
            if r == z3.unsat:
                return ok('proved without the quantified hypotheses')
            relaxed_sat = r == z3.sat
        if qf is not None or any(_has_q(o.goal) for o in obs):
            try:
                bh, bg = _boost(full, z3.And(*[o.goal for o in obs]), False)
                if not _has_q(bg) and _solver(bh, z3.Not(bg), max(3000, _CFG['timeout'] // 4)).check() == z3.unsat:
                    return ok('proved after relevant instantiation (quantifier-free)')
            except z3.Z3Exception:
                pass
            return [_solve(i) for i in idxs]          # quantified: members one by one rather than the full conjunction
        if relaxed_sat:
            return [_solve(i) for i in idxs]
        if _solver(full, neg, _CFG['timeout']).check() == z3.unsat:
            return ok('')
    return [_solve(i) for i in idxs]


def discharge(obligations, witness_terms, timeout_ms=20000, procs=None, second_backend=False, cvc5=True):
    """obligations: list of engine.Obligation; witness_terms: parallel list of callables or None.
    Sets ob.result = {'status': 'unsat'|'sat'|'unknown', 'backend', 'ms', 'model'?, 'model_relaxed'?}."""
    global _OBS, _CFG, _EXPENSIVE
    _EXPENSIVE = mp.get_context('fork').Value('i', 0)
    _OBS = list(zip(obligations, witness_terms))
    _CFG = {'timeout': timeout_ms, 'second_backend': second_backend, 'cvc5': cvc5}
    procs = procs or min(16, os.cpu_count() or 4)
    if not _OBS:
        return
    batches = {}
    for i, (ob, _) in enumerate(_OBS):
        if ob.kind in ('post', 'frame', 'raises', 'post_on_raise') and not second_backend:
            key = (ob.func, ob.name.split('/')[0], ob.path, tuple(c.get_id() for c in ob.pc))
        else:
            key = ('single', i)
        batches.setdefault(key, []).append(i)
    work = list(batches.values())
    if procs == 1 or len(_OBS) < 4:
        for idxs in work:
            for i, res in _batch(idxs):
                obligations[i].result = res
        return
    for i, res in _run_pool(work, procs, hard_limit_s=max(45.0, 3.0 * timeout_ms / 1000.0)):
        obligations[i].result = res


def _worker(conn):
    global _CONN
    _CONN = conn
    while True:
        try:
            k = conn.recv()
        except EOFError:
            return
        if k is None:
            return
        idxs, stage = k
        if stage >= 2:
            z3.set_param('lp.dio', False)
        if stage == 9:
            _CFG['no_full'] = True
        elif stage >= 3:
            _CFG['seed'] = (7, 23)[min(stage - 3, 1)]
        conn.send(('done', _batch(idxs)))
        return          # one batch per process: every batch starts from the parent's z3 state (deterministic)


def _run_pool(work, procs, hard_limit_s):
    from multiprocessing.connection import wait
    ctx = mp.get_context('fork')
    # retry stages after a hang / crash: 0 batch, 1 members one by one, 2 without lp.dio, 3-4 other random seeds
    pending = [(idxs, 0) for idxs in work]
    pending.reverse()
    workers = {}           # conn -> [process, (idxs, dio) | None, start time]
    results, candidates = {}, {}

    def spawn():
        parent, child = ctx.Pipe()
        p = ctx.Process(target=_worker, args=(child,), daemon=True)
        p.start()
        child.close()
        workers[parent] = [p, None, 0.0]

    def give_up(i, why):
        results[i] = {'status': 'unknown', 'backend': 'z3', 'ms': int(1000 * hard_limit_s), 'reason': why}

    for _ in range(min(procs, len(pending))):
        spawn()
    try:
        while pending or any(w[1] is not None for w in workers.values()):
            while pending and len(workers) < procs:
                spawn()
            for conn, w in list(workers.items()):
                if w[1] is None and pending:
                    w[1], w[2] = pending.pop(), time.time()
                    try:
                        conn.send(w[1])
                    except OSError:
                        w[2] = -1e18
            busy = [c for c, w in workers.items() if w[1] is not None]
            for conn in wait(busy, timeout=1.0):
                w = workers[conn]
                try:
                    msg = conn.recv()
                except (EOFError, OSError):          # the worker died (crash, out of memory): treated like a hang
                    if os.environ.get('PYVC_POOL_DEBUG'):
                        sys.stderr.write(f'[pool] worker for {w[1]} died after {time.time() - w[2]:.1f}s exit={w[0].exitcode}\n')
                    w[2] = -1e18
                    continue
                if msg[0] == 'candidate':
                    candidates[msg[1]] = msg[2]
                    # the full query now most likely is satisfiable (where z3 may never return): tighter deadline
                    w[2] = min(w[2], time.time() + max(30.0, 1.0 * _CFG['timeout'] / 1000.0) - hard_limit_s)
                    continue
                for i, res in msg[1]:
                    results[i] = res
                w[1] = None
                try:
                    conn.close()
                except Exception:
                    pass
                w[0].join(timeout=0.05)
                del workers[conn]
                if pending:
                    spawn()
            now = time.time()
            for conn, w in list(workers.items()):
                if w[1] is not None and now - w[2] > hard_limit_s:
                    idxs, stage = w[1]
                    if os.environ.get('PYVC_POOL_DEBUG'):
                        sys.stderr.write(f'[pool] killing worker for {w[1]} after {now - w[2]:.1f}s '
                                         f'({[_OBS[i][0].name for i in idxs][:3]})\n')
                    try:
                        w[0].kill()
                    except Exception:
                        pass
                    conn.close()
                    del workers[conn]
                    todo = [i for i in idxs if i not in results]
                    # a member whose relaxed query already produced a counter-model candidate is not retried: the
                    # full query is most likely satisfiable and z3 does not return on it
                    for i in [i for i in todo if i in candidates]:
                        if stage != 9:
                            pending.append(([i], 9))      # once more, cheap stages only (see _solve)
                        else:
                            give_up(i, 'solver did not return on the full query; a candidate counter-model exists')
                    todo = [i for i in todo if i not in candidates]
                    if stage == 0 and len(todo) > 1:
                        pending.extend(([i], 1) for i in todo)         # retry the batch's members one by one
                    elif todo and stage < 4:
                        pending.append((todo, max(2, stage + 1)))      # without the Diophantine module, other seeds
                    else:
                        for i in todo:
                            give_up(i, 'hard wall-clock limit: solver did not return (5 attempts)')
                    spawn()
    finally:
        for conn, w in workers.items():
            try:
                conn.send(None)
            except Exception:
                pass
            w[0].join(timeout=0.2)
            if w[0].is_alive():
                w[0].kill()
    for i, res in results.items():
        if res['status'] == 'unknown' and i in candidates:
            res['model'] = candidates[i]
            res['model_relaxed'] = True       # a model of the hypotheses without their quantified part: a candidate only
    return list(results.items())
