"""Discharge verification conditions: z3 (Python API) first, /usr/bin/cvc5 for z3's
unknowns, then z3 once more with a larger budget.  VCs are independent and are farmed
to a fork()ed process pool (children inherit the z3 ASTs copy-on-write)."""
import multiprocessing as mp
import os
import subprocess
import tempfile
import time
from fractions import Fraction

import z3

_OBS = []          # set before the pool forks
_CFG = {}


def _val(v):
    if z3.is_int_value(v):
        return v.as_long()
    if z3.is_rational_value(v):
        f = Fraction(v.numerator_as_long(), v.denominator_as_long())
        return f.numerator if f.denominator == 1 else str(f)
    if z3.is_true(v):
        return True
    if z3.is_false(v):
        return False
    if z3.is_algebraic_value(v):
        return str(v.approx(10))
    return str(v)


def model_dict(m, ob, wt):
    """Everything replay may need: named constants of the VC, plus contract-specific terms."""
    ev = lambda t: _val(m.eval(t, model_completion=True))
    out = {}
    for d in m.decls():
        if d.arity() == 0:
            out[d.name()] = _val(m[d])
    if wt is not None:
        try:
            out['__witness__'] = wt(ev)
        except Exception as err:      # a witness builder must never turn a verdict into a crash
            out['__witness_error__'] = repr(err)
    return out


def run_cvc5(smt2, tlimit_ms):
    with tempfile.NamedTemporaryFile('w', suffix='.smt2', delete=False) as f:
        f.write('(set-logic ALL)\n' + smt2 + '\n(check-sat)\n')
        path = f.name
    try:
        r = subprocess.run(['/usr/bin/cvc5', f'--tlimit={tlimit_ms}', '--strings-exp', path],
                           capture_output=True, text=True, timeout=tlimit_ms / 1000 + 10)
        out = r.stdout.strip().splitlines()
        return out[0] if out and out[0] in ('sat', 'unsat', 'unknown') else 'unknown'
    except Exception:
        return 'unknown'
    finally:
        os.unlink(path)


def _guarded_check(s, timeout_ms):
    """Plain check().  z3's timeout is not honoured inside some integer procedures (observed: lp::dioph_eq), but a
    watchdog *thread* is not an option: a second Python thread may run the garbage collector and release z3 ASTs
    while the main thread is inside the solver (observed: heap corruption).  Hangs are handled by the parent
    process, which kills a worker that exceeds the hard wall-clock limit (_run_pool)."""
    return s.check()


def _check(ob, with_defs, timeout, seed=None):
    s = z3.Solver()
    s.set('timeout', timeout)
    if seed is not None:
        s.set('random_seed', seed)
    s.add(*ob.pc)
    if with_defs:
        s.add(*ob.defs)
    s.add(z3.Not(ob.goal))
    return s, _guarded_check(s, timeout)


def _solve(i):
    ob, wt = _OBS[i]
    timeout = _CFG['timeout']
    t0 = time.time()
    res = {'backend': 'z3'}
    if ob.kind == 'canary':
        # only `unsat` matters for a canary (it must NOT be provable): small budget, one back end
        s, r = _check(ob, True, min(timeout, 3000))
        res.update(status=str(r), ms=int(1000 * (time.time() - t0)))
        return i, res
    if ob.defs:
        # definitional equations are only hypotheses: without them the query is smaller; `unsat` is final
        s, r = _check(ob, False, max(1000, timeout // 4))
        if r == z3.unsat:
            res.update(status='unsat', ms=int(1000 * (time.time() - t0)), defs_used=False)
            return i, res
    s, r = _check(ob, True, timeout)
    if r == z3.unknown and _CFG.get('cvc5', True):
        c = run_cvc5(s.to_smt2().replace('(check-sat)', ''), timeout)
        if c == 'unsat':
            res.update(status='unsat', backend='cvc5', ms=int(1000 * (time.time() - t0)))
            return i, res
        # a cvc5 `sat` carries no model through this route: fall through to z3's bigger budget
    if r == z3.unknown:
        # nonlinear queries are sensitive to the search order: other seeds before the big budget
        for seed in (7, 23, 101):
            s, r = _check(ob, True, timeout, seed)
            if r != z3.unknown:
                res['backend'] = f'z3(seed {seed})'
                break
    if r == z3.unknown:
        s, r = _check(ob, True, 4 * timeout)
        res['backend'] = 'z3(4x)'
    if r == z3.unknown:
        res['reason'] = s.reason_unknown()
    res['status'] = str(r)
    if r == z3.sat:
        try:
            m = s.model()
            # prefer a small counter-model (replays build real objects from it): bound every integer constant
            ints = [d() for d in m.decls() if d.arity() == 0 and d.range() == z3.IntSort()]
            for bound in (16, 256, 4096):
                s.push()
                s.set('timeout', 4000)
                for c in ints:
                    s.add(c >= -bound, c <= bound)
                if _guarded_check(s, 4000) == z3.sat:
                    m = s.model()
                    s.pop()
                    break
                s.pop()
            res['model'] = model_dict(m, ob, wt)
        except Exception as err:
            res['model'] = {'__model_error__': repr(err)}
    res['ms'] = int(1000 * (time.time() - t0))
    if _CFG.get('second_backend') and r == z3.unsat:
        res['cvc5'] = run_cvc5(s.to_smt2().replace('(check-sat)', ''), timeout)
    return i, res


def _batch(idxs):
    """Obligations emitted at the same point of the same path share their path condition: try their
    conjunction in one query first; `unsat` discharges them all, anything else falls back to one query each."""
    if len(idxs) > 1:
        ob0 = _OBS[idxs[0]][0]
        t0 = time.time()
        s = z3.Solver()
        s.set('timeout', _CFG['timeout'])
        s.add(*ob0.pc)
        s.add(z3.Not(z3.And(*[_OBS[i][0].goal for i in idxs])))
        if _guarded_check(s, _CFG['timeout']) == z3.unsat:
            ms = int(1000 * (time.time() - t0))
            return [(i, {'status': 'unsat', 'backend': 'z3', 'ms': ms // len(idxs), 'batched': len(idxs)}) for i in idxs]
        if ob0.defs:
            s.add(*ob0.defs)
            if _guarded_check(s, _CFG['timeout']) == z3.unsat:
                ms = int(1000 * (time.time() - t0))
                return [(i, {'status': 'unsat', 'backend': 'z3', 'ms': ms // len(idxs), 'batched': len(idxs)}) for i in idxs]
    return [_solve(i) for i in idxs]


def discharge(obligations, witness_terms, timeout_ms=20000, procs=None, second_backend=False, cvc5=True):
    """obligations: list of engine.Obligation; witness_terms: parallel list of callables or None.
    Sets ob.result = {'status': 'unsat'|'sat'|'unknown', 'backend', 'ms', 'model'?}."""
    global _OBS, _CFG
    _OBS = list(zip(obligations, witness_terms))
    _CFG = {'timeout': timeout_ms, 'second_backend': second_backend, 'cvc5': cvc5}
    procs = procs or min(16, os.cpu_count() or 4)
    if not _OBS:
        return
    batches = {}
    for i, (ob, _) in enumerate(_OBS):
        if ob.kind in ('post', 'frame', 'raises', 'post_on_raise') and not second_backend:
            key = (ob.func, ob.name.split('/')[0], ob.path, tuple(c.get_id() for c in ob.pc))
        else:
            key = ('single', i)
        batches.setdefault(key, []).append(i)
    work = list(batches.values())
    if procs == 1 or len(_OBS) < 4:
        for idxs in work:
            for i, res in _batch(idxs):
                obligations[i].result = res
        return
    for i, res in _run_pool(work, procs, hard_limit_s=max(45.0, 3.0 * timeout_ms / 1000.0)):
        obligations[i].result = res


def _worker(conn):
    while True:
        try:
            k = conn.recv()
        except EOFError:
            return
        if k is None:
            return
        idxs, dio = k
        if not dio:
            z3.set_param('lp.dio', False)
        conn.send(_batch(idxs))


def _run_pool(work, procs, hard_limit_s):
    """fork()ed workers fed one batch at a time; a worker that does not answer within the hard wall-clock limit
    (z3 5.1's integer procedures do not always honour their timeout or an interrupt) is killed, its batch is
    retried once without the Diophantine-equation module and otherwise recorded as `unknown`."""
    from multiprocessing.connection import wait
    ctx = mp.get_context('fork')
    pending = [(idxs, True) for idxs in work]
    pending.reverse()
    workers = {}           # conn -> [process, (idxs, dio) | None, start time]
    results = []

    def spawn():
        parent, child = ctx.Pipe()
        p = ctx.Process(target=_worker, args=(child,), daemon=True)
        p.start()
        child.close()
        workers[parent] = [p, None, 0.0]

    for _ in range(min(procs, len(pending))):
        spawn()
    try:
        while pending or any(w[1] is not None for w in workers.values()):
            for conn, w in list(workers.items()):
                if w[1] is None and pending:
                    w[1], w[2] = pending.pop(), time.time()
                    try:
                        conn.send(w[1])
                    except OSError:
                        w[2] = -1e18
            busy = [c for c, w in workers.items() if w[1] is not None]
            for conn in wait(busy, timeout=1.0):
                w = workers[conn]
                try:
                    results.extend(conn.recv())
                except (EOFError, OSError):          # the worker died (out of memory, crash): same treatment as a hang
                    w[2] = -1e18
                    continue
                w[1] = None
            now = time.time()
            for conn, w in list(workers.items()):
                if w[1] is not None and now - w[2] > hard_limit_s:
                    idxs, dio = w[1]
                    try:
                        w[0].kill()
                    except Exception:
                        pass
                    conn.close()
                    del workers[conn]
                    if dio and len(idxs) > 1:
                        pending.extend(([i], True) for i in idxs)      # retry the batch's members one by one
                    elif dio:
                        pending.append((idxs, False))                  # then once without the Diophantine module
                    else:
                        results.extend((i, {'status': 'unknown', 'backend': 'z3', 'ms': int(1000 * hard_limit_s),
                                            'reason': 'hard wall-clock limit: solver did not return'}) for i in idxs)
                    spawn()
    finally:
        for conn, w in workers.items():
            try:
                conn.send(None)
            except Exception:
                pass
            w[0].join(timeout=0.2)
            if w[0].is_alive():
                w[0].kill()
    return results
