"""pyvc engine: forward symbolic execution of the *real* function source (read with
`ast` from the working tree on every run) against sidecar contracts.

Single-path interpreter driven by a choice oracle: every symbolic branch asks the
oracle, alternatives are explored by re-executing the function from its entry with a
longer choice prefix.  Cut points are function entry, loop heads (invariants) and
calls of functions under contract (callee contract, never callee body).
"""
import ast
import hashlib
import os
import z3

from .vals import *          # noqa: F401,F403
from .vals import _fresh, _mul
from .contract import Contract, Loop

DROPPED_CALLS = ('logging.debug', 'logging.info', 'logging.warning', 'logging.error',
                 'print', 'sys.stdout.write', 'sys.stdout.flush')
LIB_CONSTS = {'io.SEEK_SET': 0, 'io.SEEK_CUR': 1, 'io.SEEK_END': 2, 'os.SEEK_SET': 0, 'os.SEEK_CUR': 1, 'os.SEEK_END': 2, 'AES.MODE_ECB': 1}
EXC_PARENTS = {'KeyError': 'LookupError', 'IndexError': 'LookupError', 'LookupError': 'Exception',
               'ValueError': 'Exception', 'TypeError': 'Exception', 'AttributeError': 'Exception',
               'AssertionError': 'Exception', 'ZeroDivisionError': 'ArithmeticError',
               'OverflowError': 'ArithmeticError', 'ArithmeticError': 'Exception',
               'struct.error': 'Exception', 'Exception': 'BaseException'}


class PyRaise(Exception):
    def __init__(self, name, info=None):
        self.name, self.info = name, info


class _Return(Exception):
    def __init__(self, value):
        self.value = value


class _Break(Exception):
    pass


class _Continue(Exception):
    pass


class PathCut(BaseException):
    """End of a loop-body path (invariant re-established) or of an infeasible path."""


class Obligation:
    def __init__(self, name, kind, pc, goal, props, func, path, info=None):
        self.name, self.kind, self.pc, self.goal = name, kind, pc, goal
        self.props, self.func, self.path, self.info = props, func, path, info or {}
        self.defs = []          # definitional equations: tried without them first (smaller query)
        self.result = None      # filled by the solver driver

    def __repr__(self):
        return f'<Ob {self.name} @{self.path}>'


class Source:
    """The function text as it is in the working tree right now."""
    _cache = {}

    def __init__(self, repo, relpath):
        self.path = os.path.join(repo, relpath)
        self.relpath = relpath
        with open(self.path, encoding='utf-8') as f:
            self.text = f.read()
        self.tree = ast.parse(self.text)

    @classmethod
    def get(cls, repo, relpath):
        k = (repo, relpath)
        if k not in cls._cache:
            cls._cache[k] = Source(repo, relpath)
        return cls._cache[k]

    def find(self, qual):
        node = self.tree
        for part in qual.split('.'):
            for n in node.body:
                if isinstance(n, (ast.ClassDef, ast.FunctionDef)) and n.name == part:
                    node = n
                    break
            else:
                raise Unsupported(f'{self.relpath}: {qual} not found (sidecar out of date)')
        return node

    def find_class(self, name):
        for n in self.tree.body:
            if isinstance(n, ast.ClassDef) and n.name == name:
                return n
        return None


def fn_hash(node):
    return hashlib.sha256(ast.dump(node).encode()).hexdigest()[:16]


def is_docstring(n):
    return isinstance(n, ast.Expr) and isinstance(n.value, ast.Constant) and isinstance(n.value.value, str)


def class_constant(cls, attr):
    """X = <constant> or X: T = <constant> in a class body"""
    for st in cls.body:
        if isinstance(st, ast.Assign) and len(st.targets) == 1 and isinstance(st.targets[0], ast.Name) \
                and st.targets[0].id == attr and isinstance(st.value, ast.Constant):
            return st.value.value
        if isinstance(st, ast.AnnAssign) and isinstance(st.target, ast.Name) and st.target.id == attr \
                and isinstance(st.value, ast.Constant):
            return st.value.value
    return NotImplemented


def literal_expression(e):
    """literals combined by str.maketrans / frozenset / set / tuple / dict only"""
    if isinstance(e, ast.Constant):
        return True
    if isinstance(e, (ast.List, ast.Tuple, ast.Set)):
        return all(literal_expression(x) for x in e.elts)
    if isinstance(e, ast.Dict):
        return all(k is not None and literal_expression(k) and literal_expression(v) for k, v in zip(e.keys, e.values))
    if isinstance(e, ast.Call) and not e.keywords and ast.unparse(e.func) in ('str.maketrans', 'frozenset', 'set', 'tuple', 'dict',
                                                                              're.compile'):
        return all(literal_expression(a) for a in e.args)
    return False


def eval_literal_expression(e):
    import re as _re
    return eval(compile(ast.Expression(e), '<constant>', 'eval'),
                {'__builtins__': {}, 'str': str, 'frozenset': frozenset, 'set': set, 'tuple': tuple, 'dict': dict, 're': _re})


def loops_in(fn):
    ls = [w for w in ast.walk(fn) if isinstance(w, (ast.While, ast.For))]
    ls.sort(key=lambda w: (w.lineno, w.col_offset))
    return {id(w): i for i, w in enumerate(ls)}


def _has_quantifier(t, _memo={}):
    k = t.get_id()
    if k in _memo:
        return _memo[k]
    r = z3.is_quantifier(t) or any(_has_quantifier(c) for c in t.children())
    _memo[k] = r
    return r


def _plain(t):
    """no Boolean structure / ite / div / mod inside a trigger candidate"""
    if z3.is_app(t):
        k = t.decl().kind()
        if k in (z3.Z3_OP_ITE, z3.Z3_OP_IDIV, z3.Z3_OP_MOD, z3.Z3_OP_DIV, z3.Z3_OP_AND, z3.Z3_OP_OR, z3.Z3_OP_NOT,
                 z3.Z3_OP_EQ, z3.Z3_OP_LE, z3.Z3_OP_LT, z3.Z3_OP_GE, z3.Z3_OP_GT, z3.Z3_OP_MUL):
            return False
    return all(_plain(c) for c in t.children())


def _patterns(body, vs):
    """Alternative single triggers for a universally quantified clause: every application of an uninterpreted
    function (or array read) that mentions all bound variables.  z3's own choice sometimes settles on one trigger
    (e.g. d(i)) that never matches the ground terms of the goal."""
    ids = {v.get_id() for v in vs}
    found, seen = [], set()

    def mentions(t):
        if t.get_id() in ids:
            return {t.get_id()}
        out = set()
        for c in t.children():
            out |= mentions(c)
        return out

    def walk(t):
        if t.get_id() in seen or z3.is_quantifier(t):
            return
        seen.add(t.get_id())
        if z3.is_app(t) and t.num_args() > 0:
            k = t.decl().kind()
            if k in (z3.Z3_OP_UNINTERPRETED, z3.Z3_OP_SELECT) and mentions(t) == ids and _plain(t):
                found.append(t)
            for c in t.children():
                walk(c)
    walk(body)
    # drop triggers that are proper subterms of another trigger's arguments only if identical; keep at most 6
    uniq = []
    for t in found:
        if not any(t.eq(u) for u in uniq):
            uniq.append(t)
    return uniq[:6]


class Run:
    def __init__(self, prefix):
        self.prefix, self.taken, self.alts, self.counts = list(prefix), [], [], {}

    def choose(self, options):
        """options: list of labels still feasible; returns the one to take on this run."""
        p = len(self.taken)
        if p < len(self.prefix):
            c = self.prefix[p]
            if c not in options:
                raise Unsupported(f'non-deterministic replay: {c!r} not in {options!r}')
        else:
            c = options[0]
            for o in options[1:]:
                self.alts.append(self.taken + [o])
        self.taken.append(c)
        return c


PY_EXACT_TYPES = {'str': str, 'int': int, 'bytes': bytes, 'float': float, 'bool': bool, 'list': list, 'dict': dict,
                  'tuple': tuple}


class Engine:
    def __init__(self, repo, world, registry, bases=None, feas_timeout=1500, max_paths=4000):
        self.repo, self.world, self.registry = repo, world, registry
        self.bases = bases or {}
        self.feas_timeout, self.max_paths = feas_timeout, max_paths
        self.dropped = []           # statements dropped by the extraction (for the evidence)
        self.notes = set()
        self.stats = {'paths': 0, 'feasibility_checks': 0}

    @staticmethod
    def spec_term(world, text, env=None):
        """Evaluate a clause text over a world only (for lemma builders): no program state."""
        eng = Engine('/nonexistent', world, {})
        eng.c = Contract(key='lemma:lemma', props=[])
        eng.pc, eng.in_spec, eng.ghost_env = [], 0, {}
        eng.env = dict(env or {})
        eng.env['__parent__'] = None
        eng.old_env = eng.env
        eng.run = Run([])
        return eng.spec(text)

    # ------------------------------------------------------------------ top level
    def verify(self, c: Contract, unroll=0, extra_requires=(), pin=None, collect_outcomes=None):
        """Generate all obligations of one function under contract.
        unroll>0: bounded mode (loops unrolled up to `unroll` iterations, invariants ignored).
        pin: {z3 const: value} - concrete inputs (interpreter / cross-check mode).
        collect_outcomes: list receiving (pc, kind, value, env) per completed path."""
        self.c = c
        self.src = Source.get(self.repo, c.file)
        self.fn = self.src.find(c.qual)
        self.loop_ids = loops_in(self.fn)
        self.unroll = unroll or c.unroll
        self.obligations = {}
        reset_fresh()
        work = [[]]
        npaths = 0
        while work:
            prefix = work.pop()
            npaths += 1
            if npaths > self.max_paths:
                raise Unsupported(f'{c.qual}: more than {self.max_paths} paths')
            self.run = Run(prefix)
            self.pc = []
            self.in_spec = 0
            self.frames = []
            try:
                self._run_once(c, extra_requires, pin, collect_outcomes)
            except PathCut:
                pass
            work.extend(self.run.alts)
        self.stats['paths'] += npaths
        return list(self.obligations.values())

    def _run_once(self, c, extra_requires, pin, collect_outcomes):
        env = c.env(self.world)
        self.weakened_by = None
        self.env = env
        self.top_env = env
        self.ghost_env = {}
        for k, v in (pin or {}).items():
            self.pc.append(k == v)
        for label, r in c.req():
            self.pc.append(zbool(self.spec(r)))
        self.defs = [zbool(self.spec(r)) for r in c.defs]
        for r in extra_requires:
            self.pc.append(zbool(self.spec(r)) if isinstance(r, str) else r)
        self.old_env = clone_env(env)
        fn = self.fn
        self.post_scope = set(env)        # the contract's own environment: parameters (+ hidden model objects)
        try:
            self.exec_block(fn.body)
            outcome, value = 'return', None
        except _Return as r:
            outcome, value = 'return', r.value
        except PyRaise as r:
            outcome, value = 'raise', r.name
        if outcome == 'return' and c.sequel is not None:
            seq_src = Source.get(self.repo, c.sequel['file'] if 'file' in c.sequel else c.file)
            fn2 = seq_src.find(c.sequel['qual'])
            self.env = c.sequel['env'](self, self.env, value)
            self.post_scope |= set(self.env)
            saved_fn, saved_src = self.fn, self.src
            self.fn, self.src = fn2, seq_src
            try:
                self.exec_block(fn2.body)
                outcome, value = 'return', None
            except _Return as r:
                outcome, value = 'return', r.value
            except PyRaise as r:
                outcome, value = 'raise', r.name
            finally:
                self.fn, self.src = saved_fn, saved_src
            self.env = dict(self.env)
            self.env.update({k: v for k, v in c.sequel.get('keep', {}).items()})
        if outcome == 'return' and isinstance(value, PyList) and 'result' in c.lists:
            al = ArrList('result', c.lists['result'], length=z3.IntVal(0))
            for it in value.items:
                al = al.appended(it)
            value = al
        if collect_outcomes is not None:
            collect_outcomes.append((list(self.pc), outcome, value, self.env))
        if outcome == 'return':
            for term, ghost in c.exports.items():
                self.pc.append(zint(self.spec(term, use_old=True)) == zint(self.spec(ghost)))
            for exc, (must, may) in c.raises_bounds.items():
                self.oblige('raises', f'{exc}.must', z3.Not(zbool(self.spec(must, use_old=True, params_only=True))))
            # "E is raised iff cond": on a normal return no declared raise-condition may hold
            for exc, cond in c.raises.items():
                if cond is not None:
                    self.oblige('raises', f'{exc}.only_if', z3.Not(zbool(self.spec(cond, use_old=True, params_only=True))))
            for label, p in c.ens():
                try:
                    goal = zbool(self.spec(p, {'result': value}, params_only=True))
                except (Unsupported, PyRaise, PathCut) as err:
                    # the clause cannot even be evaluated on this path's result (e.g. it reads a field of None):
                    # the result does not have the shape the postcondition describes - a failed obligation
                    self.oblige('post', label, z3.BoolVal(False), {'not_evaluable': str(err)[:200]})
                    continue
                if label in c.regions:
                    goal = z3.Implies(zbool(self.spec(c.regions[label], {'result': value}, use_old=True, params_only=True)), goal)
                self.oblige('post', label, goal)
            for i, p in enumerate(c.canaries):
                try:
                    cz = zbool(self.spec(p, {'result': value}, params_only=True))
                except (Unsupported, PyRaise, PathCut):
                    cz = z3.BoolVal(False)        # a canary that cannot be evaluated on this result is certainly not established
                self.oblige('canary', str(i), cz)
            self.frame_obligations(c)
        else:
            if value in c.raises_bounds:
                self.oblige('raises', f'{value}.may', zbool(self.spec(c.raises_bounds[value][1], use_old=True, params_only=True)))
            elif value in c.raises:
                cond = c.raises[value]
                if cond is not None:
                    self.oblige('raises', f'{value}.if', zbool(self.spec(cond, use_old=True, params_only=True)))
                for label, p in c.post_on_raise.get(value, []):
                    self.oblige('post_on_raise', f'{value}.{label}', zbool(self.spec(p)))
            else:
                self.oblige('safety', f'raise.{value}', z3.BoolVal(False))

    def frame_obligations(self, c):
        """Nothing outside `modifies` changes: every field of every parameter object that is not covered
        by a modifies path must have its entry value on return."""
        def covered(path):
            return any(path == m or path.startswith(m + '.') for m in c.modifies)

        def same(a, b):
            if a is b:
                return True
            if z3.is_expr(a) and z3.is_expr(b):
                return a.eq(b)
            return type(a) is type(b) and not z3.is_expr(a) and isinstance(a, (int, str, bool, float, type(None))) and a == b

        def walk(path, old, new, seen):
            if covered(path):
                return
            if isinstance(old, Obj):
                if id(old) in seen:
                    return
                seen.add(id(old))
                if not isinstance(new, Obj):
                    self.oblige('frame', path, z3.BoolVal(False))
                    return
                for k, ov in old.f.items():
                    walk(f'{path}.{k}', ov, new.f.get(k), seen)
                return
            if hasattr(old, 'frame_terms'):
                if not hasattr(new, 'frame_terms'):
                    self.oblige('frame', path, z3.BoolVal(False))
                    return
                nt = new.frame_terms()
                for k, ov in old.frame_terms().items():
                    if not same(ov, nt[k]):
                        self.oblige('frame', f'{path}.{k}', ov == nt[k])
                return
            if isinstance(old, Opt) and isinstance(new, Opt):
                if not (same(old.isnone, new.isnone) and same(old.val, new.val)):
                    self.oblige('frame', path, z3.And(old.isnone == new.isnone, z3.Or(old.isnone, zint(old.val) == zint(new.val))))
                return
            if isinstance(old, (TD, DT)) and type(old) is type(new):
                if not same(old.us, new.us):
                    self.oblige('frame', path, zint(old.us) == zint(new.us))
                return
            if isinstance(old, (Opaque, SeqFn, Closure, BoundMethod)):
                return
            if isinstance(old, tuple) and isinstance(new, tuple) and len(old) == len(new):
                for i, (a, b) in enumerate(zip(old, new)):
                    walk(f'{path}[{i}]', a, b, seen)
                return
            if isinstance(old, PyList) and isinstance(new, PyList):
                if len(old.items) != len(new.items):
                    self.oblige('frame', path, z3.BoolVal(False))
                    return
                for i, (a, b) in enumerate(zip(old.items, new.items)):
                    walk(f'{path}[{i}]', a, b, seen)
                return
            if same(old, new):
                return
            if (z3.is_expr(old) or isinstance(old, (int, bool, float))) and (z3.is_expr(new) or isinstance(new, (int, bool, float))):
                if z3.is_bool(old) or isinstance(old, bool):
                    self.oblige('frame', path, zbool(old) == zbool(new))
                else:
                    self.oblige('frame', path, zint(old) == zint(new))
                return
            self.oblige('frame', path, z3.BoolVal(False))

        params = [a.arg for a in self.fn.args.args]
        seen = set()
        for p in params:
            if p in self.old_env and isinstance(self.old_env[p], Obj):
                walk(p, self.old_env[p], self.env.get(p), seen)

    # ------------------------------------------------------------------ obligations / path condition
    def oblige(self, kind, label, goal, info=None):
        if self.in_spec:
            return
        goal = zbool(goal)
        name = f'{self.c.label}/{kind}.{label}'
        path = ''.join(str(t)[0] for t in self.run.taken)
        key = (name, tuple(self.run.taken))
        n = self.run.counts.get(key, 0)
        self.run.counts[key] = n + 1
        if (key + (n,)) in self.obligations:
            return          # same point of the same path prefix, reached again by a replay
        if getattr(self, 'weakened_by', None):
            info = dict(info or {}, weakened_by=self.weakened_by)
        ob = self.obligations[key + (n,)] = Obligation(name, kind, list(self.pc), goal, self.c.props,
                                                       self.c.key, path, info)
        ob.defs = list(getattr(self, 'defs', []))

    def _same(self, ob, goal):
        return ob.goal.eq(goal) and len(ob.pc) == len(self.pc) and all(a.eq(b) for a, b in zip(ob.pc, self.pc))

    def assume(self, cond):
        self.pc.append(zbool(cond))

    def feasible(self, extra):
        """Path pruning only: quantified conjuncts are left out (fewer constraints can only keep
        more paths alive, which is sound), `unknown` counts as feasible."""
        self.stats['feasibility_checks'] += 1
        s = z3.Solver()
        s.set('timeout', self.feas_timeout)
        for c in self.pc + list(getattr(self, 'defs', [])):
            if not _has_quantifier(c):
                s.add(c)
        s.add(extra)
        return s.check() != z3.unsat

    def branch(self, cond):
        """Decide a symbolic condition: returns a Python bool, extends the path condition."""
        if isinstance(cond, bool):
            return cond
        cond = z3.simplify(zbool(cond))
        if z3.is_true(cond):
            return True
        if z3.is_false(cond):
            return False
        p = len(self.run.taken)
        if p < len(self.run.prefix):
            pick = self.run.choose([self.run.prefix[p]])
        else:
            opts = [b for b in (True, False) if self.feasible(cond if b else z3.Not(cond))]
            if not opts:
                raise PathCut()
            pick = self.run.choose(opts)
        self.pc.append(cond if pick else z3.Not(cond))
        return pick

    # ------------------------------------------------------------------ specification expressions
    def spec(self, text, extra=None, use_old=False, params_only=False):
        """Evaluate a contract clause (a Python expression string) over the current state.
        params_only: pre/postconditions see the parameters, ghosts and the specification vocabulary - never the
        function's local variables (a local that happens to share a name with a spec constant must not capture it)."""
        e = ast.parse(text.strip(), mode='eval').body
        saved = self.env
        frame = dict(self.old_env if use_old else self.env)
        if params_only:
            frame = {k: v for k, v in frame.items() if k in self.post_scope or k.startswith('__')}
        frame.update(self.ghost_env)
        if extra:
            frame.update(extra)
        frame['__parent__'] = None
        self.env = frame
        self.in_spec += 1
        try:
            return self.eval(e)
        except PathCut:
            # evaluating a clause must never end the path silently (the obligations behind it would be lost)
            raise Unsupported(f'{self.c.qual}: clause cannot be evaluated on this path: {text[:80]}')
        finally:
            self.in_spec -= 1
            self.env = saved

    # ------------------------------------------------------------------ environment
    def lookup_scope(self, name):
        env = self.env
        while env is not None:
            if name in env:
                return env
            env = env.get('__parent__')
        return None

    def lookup(self, name):
        sc = self.lookup_scope(name)
        if sc is not None:
            return sc[name]
        if name in self.ghost_env:
            return self.ghost_env[name]
        if name in self.world:
            return self.world[name]
        if name.startswith('__') and name in getattr(self, 'top_env', {}):
            return self.top_env[name]       # hidden objects of the contract's environment (models look them up)
        for st in self.src.tree.body:
            # a module-level constant of the file under analysis built from literals (X = re.compile('...'))
            if isinstance(st, ast.Assign) and len(st.targets) == 1 and isinstance(st.targets[0], ast.Name) \
                    and st.targets[0].id == name and literal_expression(st.value):
                return eval_literal_expression(st.value)
            if isinstance(st, ast.AnnAssign) and isinstance(st.target, ast.Name) and st.target.id == name \
                    and st.value is not None and literal_expression(st.value):
                return eval_literal_expression(st.value)
        raise Unsupported(f'{self.c.qual}: unknown name {name!r}')

    def store(self, target, val):
        if isinstance(target, ast.Name):
            sc = self.lookup_scope(target.id) if target.id in self.env.get('__nonlocal__', ()) else None
            (sc if sc is not None else self.env)[target.id] = val
        elif isinstance(target, (ast.Tuple, ast.List)):
            vals = self.unpack(val, len(target.elts))
            for t, v in zip(target.elts, vals):
                self.store(t, v)
        elif isinstance(target, ast.Attribute) and isinstance(target.value, ast.Subscript) \
                and isinstance(self.eval(target.value.value), ArrList):
            lst = self.eval(target.value.value)
            idx = self.eval(target.value.slice)
            if isinstance(idx, int) and idx < 0:
                idx = zint(lst.length) + idx
            self.oblige('safety', 'index:' + ast.unparse(target.value)[:50], z3.And(zint(idx) >= 0, zint(idx) < zint(lst.length)))
            self.store(target.value.value, lst.with_field(idx, target.attr, val))
        elif isinstance(target, ast.Attribute):
            base = self.eval(target.value)
            if hasattr(base, 'setattr'):
                base.setattr(self, target.attr, val)
                return
            if not isinstance(base, Obj):
                raise Unsupported(f'attribute store on {base!r}')
            if base.frozen:
                # the record sits in a list: Python lists hold references, so the store is visible through the list
                if base.alias is None:
                    raise Unsupported(f'store to {base.cls}.{target.attr} of a record whose list slot is unknown')
                holder, key, idx = base.alias
                lst = holder.f[key] if isinstance(holder, Obj) else holder[key]
                if not isinstance(lst, ArrList) or target.attr not in lst.fields:
                    raise Unsupported(f'store to {base.cls}.{target.attr} after append: field not tracked by the list')
                new = lst.with_field(idx, target.attr, val)
                if isinstance(holder, Obj):
                    holder.f[key] = new
                else:
                    holder[key] = new
                base.f[target.attr] = val
                return
            hook = self.c.models.get(f'setattr:{base.cls}.{target.attr}')
            if hook:
                hook(self, base, val)
            else:
                base.f[target.attr] = val
        elif isinstance(target, ast.Subscript):
            base = self.eval(target.value)
            idx = self.eval(target.slice)
            if isinstance(base, dict) and isinstance(idx, (str, int)):
                base[idx] = val
            elif hasattr(base, 'setitem'):
                base.setitem(self, idx, val)
            else:
                raise Unsupported(f'subscript store on {base!r}')
        else:
            raise Unsupported(f'store target {ast.dump(target)[:60]}')

    def unpack(self, val, n):
        if isinstance(val, tuple):
            if len(val) != n:
                self.oblige('safety', 'unpack', z3.BoolVal(False))
                raise PathCut()
            return val
        if hasattr(val, 'unpack'):
            return val.unpack(self, n)
        raise Unsupported(f'unpack of {val!r}')

    # ------------------------------------------------------------------ statements
    def exec_block(self, stmts):
        for n in stmts:
            self.exec(n)

    def exec(self, n):
        m = getattr(self, 'x_' + type(n).__name__, None)
        if m is None:
            raise Unsupported(f'{self.c.qual}: statement {type(n).__name__} at line {n.lineno}')
        return m(n)

    def x_Pass(self, n):
        pass

    def x_Expr(self, n):
        if isinstance(n.value, ast.Constant):
            return
        if isinstance(n.value, ast.Call):
            t = ast.unparse(n.value.func)
            if t in DROPPED_CALLS or t.endswith('.log.debug') or t.endswith('.log.info') or t.endswith('.log.warning'):
                self.dropped.append(f'{self.c.qual}:{t}')
                return
        self.eval(n.value)

    def x_FunctionDef(self, n):
        self.env[n.name] = Closure(n, self.env)

    def x_Assign(self, n):
        v = self.eval(n.value)
        if isinstance(v, PyList) and not v.items and len(n.targets) == 1 and isinstance(n.targets[0], ast.Name) \
                and n.targets[0].id in self.c.lists:
            nm = n.targets[0].id
            v = ArrList(nm, self.c.lists[nm], length=z3.IntVal(0))
        for t in n.targets:
            self.store(t, v)

    def x_AnnAssign(self, n):
        if n.value is not None:
            self.store(n.target, self.eval(n.value))

    def x_AugAssign(self, n):
        cur = self.eval(n.target)
        val = self.eval(n.value)
        self.store(n.target, self.binop(n.op, cur, val, n))

    def x_Assert(self, n):
        c = self.eval(n.test)
        self.oblige('safety', 'assert:' + ast.unparse(n.test)[:50], zbool(c))
        self.assume(c)

    def x_Return(self, n):
        raise _Return(None if n.value is None else self.eval(n.value))

    def x_Break(self, n):
        raise _Break()

    def x_Continue(self, n):
        raise _Continue()

    def x_Raise(self, n):
        if n.exc is None:
            raise PyRaise(self.env['__exc__'])
        e = n.exc
        if isinstance(e, ast.Call):
            raise PyRaise(ast.unparse(e.func))
        if isinstance(e, ast.Name):
            v = self.lookup(e.id) if self.lookup_scope(e.id) else None
            if isinstance(v, Opaque) and v.what.startswith('exc:'):
                raise PyRaise(v.what[4:])
            raise PyRaise(e.id)
        raise Unsupported('raise form')

    def x_If(self, n):
        c = self.eval(n.test)
        if self.branch(self.truth(c)):
            self.exec_block(n.body)
        else:
            self.exec_block(n.orelse)

    def x_Delete(self, n):
        for t in n.targets:
            if isinstance(t, ast.Subscript):
                base = self.eval(t.value)
                if hasattr(base, 'delitem'):
                    base.delitem(self, self.eval(t.slice))
                    continue
                if isinstance(base, dict):
                    key = self.eval(t.slice)
                    if isinstance(key, (str, int)):
                        if key not in base:
                            raise PyRaise('KeyError')
                        del base[key]               # a dictionary with concrete keys: plain execution
                        continue
            if isinstance(t, ast.Attribute):
                base = self.eval(t.value)
                if isinstance(base, Obj):
                    hook = self.c.models.get(f'delattr:{base.cls}.{t.attr}')
                    if hook:
                        hook(self, base)
                        continue
                    if t.attr not in base.f:
                        raise PyRaise('AttributeError')
                    del base.f[t.attr]
                    continue
            raise Unsupported('del form')

    def x_With(self, n):
        """with <ctx> [as v]: body - the context value's model supplies `enter(eng)` (what __enter__ returns); __exit__
        is taken to release the resource only (no exception is swallowed): exceptions of the body propagate."""
        for item in n.items:
            ctx = self.eval(item.context_expr)
            val = ctx.enter(self) if hasattr(ctx, 'enter') else ctx
            if item.optional_vars is not None:
                self.store(item.optional_vars, val)
        self.exec_block(n.body)

    def x_Try(self, n):
        if n.finalbody:
            raise Unsupported('try/finally')
        try:
            self.exec_block(n.body)
        except PyRaise as r:
            for h in n.handlers:
                if self.exc_matches(r.name, h.type):
                    if h.name:
                        self.env[h.name] = Opaque('exc:' + r.name)
                    saved = self.env.get('__exc__')
                    self.env['__exc__'] = r.name
                    self.exec_block(h.body)
                    self.env['__exc__'] = saved
                    return
            raise
        else:
            self.exec_block(n.orelse)

    def exc_matches(self, name, typ):
        if typ is None:
            return True
        names = [ast.unparse(t) for t in (typ.elts if isinstance(typ, ast.Tuple) else [typ])]
        cur = name
        while cur:
            if cur in names:
                return True
            cur = EXC_PARENTS.get(cur)
        return False

    # ------------------------------------------------------------------ loops
    def x_While(self, n):
        k = self.loop_ids.get(id(n), -1)
        if k == -1 and not self.unroll:
            budget, spent = 3, 0
            while spent < budget:
                g = self.truth(self.eval(n.test))
                if z3.is_expr(g) and (z3.is_true(z3.simplify(g)) or z3.is_false(z3.simplify(g))):
                    g = z3.is_true(z3.simplify(g))
                if isinstance(g, bool):
                    # a guard that is decided by concrete data is plain execution, not unrolling (capped)
                    budget += 1
                    if budget > 5000:
                        raise Unsupported('concrete while loop runs more than 5000 iterations')
                spent += 1
                if not self.branch(g):
                    self.exec_block(n.orelse)
                    return
                try:
                    self.exec_block(n.body)
                except _Continue:
                    pass
                except _Break:
                    return
            g = self.truth(self.eval(n.test))
            self.oblige('unwind', f'while@{ast.unparse(n.test)[:30]}', (not g) if isinstance(g, bool) else z3.Not(zbool(g)))
            self.assume(z3.BoolVal(not g) if isinstance(g, bool) else z3.Not(zbool(g)))
            self.exec_block(n.orelse)
            return
        if self.unroll or k not in self.c.loops:
            if not self.unroll:
                raise Unsupported(f'{self.c.qual}: loop {k} (line {n.lineno}) has no invariant')
            return self.unrolled_while(n)
        lc = self.c.loops[k]
        if lc.unroll:
            # complete unrolling: after lc.unroll iterations the guard must be false (unwinding obligation)
            for _ in range(lc.unroll):
                if not self.branch(self.truth(self.eval(n.test))):
                    self.exec_block(n.orelse)
                    return
                try:
                    self.exec_block(n.body)
                except _Continue:
                    pass
                except _Break:
                    return
            g = self.truth(self.eval(n.test))
            self.oblige(f'loop{k}.unwind', 'complete', z3.Not(zbool(g)) if not isinstance(g, bool) else (not g))
            self.assume(z3.Not(zbool(g)) if not isinstance(g, bool) else z3.BoolVal(not g))
            self.exec_block(n.orelse)
            return
        self.loop_entry(k, lc)
        self.havoc_loop(n, lc)
        for label, inv in lc.inv():
            self.assume(self.spec(inv))
        for label, inst in lc.instances:
            self.assume(self.spec(inst))
        g = self.truth(self.eval(n.test))
        if self.branch(g):
            self.loop_body(k, lc, n.body)
        else:
            self.exec_block(n.orelse)

    def loop_entry(self, k, lc):
        for g, init in lc.ghost.items():
            self.ghost_env[g] = self.spec(init)
        for label, inv in lc.inv():
            self.oblige(f'loop{k}.init', label, self.spec(inv))

    def loop_body(self, k, lc, body, step=None):
        var0 = [zint(self.spec(v)) for v in lc.variant]
        try:
            self.exec_block(body)
        except _Continue:
            pass
        except _Break:
            return
        if step:
            step()
        new_ghost = {g: self.ghost_update_value(upd) for g, upd in lc.ghost_update.items()}
        self.ghost_env.update(new_ghost)
        for label, inv in lc.inv():
            self.oblige(f'loop{k}.preserve', label, self.spec(inv))
        var1 = [zint(self.spec(v)) for v in lc.variant]
        dec = z3.BoolVal(False)
        for i in range(len(var0)):
            dec = z3.Or(dec, z3.And(*[var1[j] == var0[j] for j in range(i)], var1[i] < var0[i], var0[i] >= 0))
        if lc.variant:
            self.oblige(f'loop{k}.variant', 'decreases', dec)
        raise PathCut()

    def ghost_update_value(self, text):
        """`X if C else Y` ghost updates are resolved per path when the path condition decides C, so that the
        ghost is a plain term (an ite inside a function argument defeats quantifier triggers)."""
        e = ast.parse(text.strip(), mode='eval').body
        if isinstance(e, ast.IfExp):
            c = self.spec(ast.unparse(e.test))
            if not isinstance(c, bool):
                c = zbool(c)
                if not self.feasible(z3.Not(c)):
                    c = True
                elif not self.feasible(c):
                    c = False
            if isinstance(c, bool):
                return self.ghost_update_value(ast.unparse(e.body if c else e.orelse))
        return self.spec(text)

    def unrolled_while(self, n):
        for _ in range(self.unroll + 1):
            g = self.truth(self.eval(n.test))
            if not self.branch(g):
                self.exec_block(n.orelse)
                return
            if _ == self.unroll:
                raise PathCut()      # bound reached: path dropped (bounded mode only)
            try:
                self.exec_block(n.body)
            except _Continue:
                pass
            except _Break:
                return

    def sym_range(self, args):
        """range(start, stop, step): step == 0 raises ValueError; otherwise one path per sign of the step"""
        step = zint(args[2])
        if self.branch(step == 0):
            raise PyRaise('ValueError')
        return SymRange(args[0], args[1], step, self.branch(step > 0))

    def x_For(self, n):
        k = self.loop_ids.get(id(n), -1)
        it = n.iter
        # --- what is iterated
        if isinstance(it, ast.Call) and ast.unparse(it.func) == 'range':
            args = [self.eval(a) for a in it.args]
            lo, hi = (0, args[0]) if len(args) == 1 else (args[0], args[1])
            conc = lambda v: z3.simplify(v).as_long() if z3.is_expr(v) and z3.is_int_value(z3.simplify(v)) else v
            if len(args) == 3:
                if all(isinstance(conc(a), int) for a in args):
                    return self.for_concrete(n, list(range(*[conc(a) for a in args])))
                seq = self.sym_range(args)
                lo, hi, get = 0, seq.length, seq.elem
            else:
                lo, hi = conc(lo), conc(hi)
                get = lambda i: i
        else:
            seq = self.eval(it)
            if isinstance(seq, (tuple, PyList, list)):
                items = seq.items if isinstance(seq, PyList) else list(seq)
                return self.for_concrete(n, items)
            if isinstance(seq, dict):
                return self.for_concrete(n, list(seq.keys()))
            if hasattr(seq, 'iterate'):
                return seq.iterate(self, n, k)
            if not isinstance(seq, (SeqFn, ArrList, SeqView)) and not (hasattr(seq, 'length') and hasattr(seq, 'elem')):
                raise Unsupported(f'for over {seq!r}')
            if isinstance(seq, SeqView):
                lo, hi, get = seq.lo, seq.base.length, seq.base.elem
            else:
                lo, hi, get = 0, seq.length, seq.elem
        if isinstance(lo, int) and isinstance(hi, int) and k not in self.c.loops:
            return self.for_concrete(n, [get(i) for i in range(lo, hi)])
        itname = f'_it{k}'
        self.env[itname] = lo
        self.env[f'_hi{k}'] = hi
        if k == -1 and not self.unroll:
            # a loop of an inlined / sequel function (no contract ordinal): unrolled 3 times with an unwinding
            # obligation - complete when that obligation is discharged, a reported failure otherwise
            for _ in range(3):
                if not self.branch(zint(self.env[itname]) < zint(hi)):
                    self.exec_block(n.orelse)
                    return
                self.store(n.target, get(self.env[itname]))
                self.env[itname] = zint(self.env[itname]) + 1
                try:
                    self.exec_block(n.body)
                except _Continue:
                    pass
                except _Break:
                    return
            self.oblige('unwind', f'for@{ast.unparse(n.iter)[:30]}', z3.Not(zint(self.env[itname]) < zint(hi)))
            self.assume(z3.Not(zint(self.env[itname]) < zint(hi)))
            self.exec_block(n.orelse)
            return
        if self.unroll or k not in self.c.loops:
            if not self.unroll:
                raise Unsupported(f'{self.c.qual}: for-loop {k} (line {n.lineno}) has no invariant')
            for _ in range(self.unroll + 1):
                if not self.branch(zint(self.env[itname]) < zint(hi)):
                    self.exec_block(n.orelse)
                    return
                if _ == self.unroll:
                    raise PathCut()
                self.store(n.target, get(self.env[itname]))
                self.env[itname] = zint(self.env[itname]) + 1
                try:
                    self.exec_block(n.body)
                except _Continue:
                    pass
                except _Break:
                    return
            return
        lc = self.c.loops[k]
        self.loop_entry(k, lc)
        self.havoc_loop(n, lc, extra_names=[itname] + [x.id for x in ast.walk(n.target) if isinstance(x, ast.Name)])
        for label, inv in lc.inv():
            self.assume(self.spec(inv))
        if self.branch(zint(self.env[itname]) < zint(hi)):
            self.store(n.target, get(self.env[itname]))

            def step():
                self.env[itname] = zint(self.env[itname]) + 1
            self.loop_body(k, lc, n.body, step)
        else:
            self.exec_block(n.orelse)

    def div_guard(self, txt, nonzero):
        """Division: a safety obligation, unless the contract speaks about ZeroDivisionError - then it is a branch
        of the analysed code like any other `raise`."""
        if ('ZeroDivisionError' in self.c.raises or 'ZeroDivisionError' in self.c.raises_bounds) and not self.in_spec:
            if not self.branch(nonzero):
                raise PyRaise('ZeroDivisionError')
            return
        self.oblige('safety', 'div:' + txt, nonzero)

    def for_concrete(self, n, items):
        for x in items:
            self.store(n.target, x)
            try:
                self.exec_block(n.body)
            except _Continue:
                continue
            except _Break:
                return
        self.exec_block(n.orelse)

    # ------------------------------------------------------------------ havoc
    def havoc_value(self, v, name, lc):
        t = lc.types.get(name)
        if t == 'int':
            return fresh(name)
        if t == 'real':
            return fresh(name, REAL)
        if t == 'bool':
            return fresh(name, BOOL)
        if t == 'opt_int':
            return Opt(fresh(name + '.isnone', BOOL), fresh(name))
        if t == 'opt_real':
            return Opt(fresh(name + '.isnone', BOOL), fresh(name, REAL))
        if t == 'td':
            return TD(fresh(name + '.us'))
        if t == 'dt':
            return DT(fresh(name + '.us'))
        if t == 'none':
            return None
        if isinstance(v, bool):
            return fresh(name, BOOL)
        if isinstance(v, int):
            return fresh(name)
        if isinstance(v, float):
            return fresh(name, REAL)
        if z3.is_expr(v):
            return fresh(name, v.sort())
        if isinstance(v, Opt):
            return Opt(fresh(name + '.isnone', BOOL), fresh(name, zint(v.val).sort()))
        if isinstance(v, TD):
            return TD(fresh(name + '.us'))
        if isinstance(v, DT):
            return DT(fresh(name + '.us'))
        if isinstance(v, ArrList):
            nv, c = v.havoc()
            self.assume(c)
            return nv
        if isinstance(v, Obj):
            o = Obj(v.cls)
            o.f = {k: (x if isinstance(x, (str, Opaque, SeqFn)) or x is None and f'{name}.{k}' not in lc.types
                       else self.havoc_value(x, f'{name}.{k}', lc)) for k, x in v.f.items()}
            return o
        if hasattr(v, 'havoc'):
            return v.havoc(self, name)
        if isinstance(v, Opaque):
            return v            # an opaque value has no observable state: nothing to forget
        # no symbolic form: the name is poisoned - any read before it is assigned again is a checker error
        return Poison(name)

    def modified_in(self, body, names, attrs, seen):
        """Syntactic write set of a loop body: local names, attribute paths (as text)."""
        for x in ast.walk(ast.Module(body=list(body), type_ignores=[])):
            if isinstance(x, (ast.Assign, ast.AugAssign, ast.AnnAssign)):
                for t in (x.targets if isinstance(x, ast.Assign) else [x.target]):
                    self._targets(t, names, attrs)
            elif isinstance(x, ast.For):
                self._targets(x.target, names, attrs)
            elif isinstance(x, ast.ExceptHandler) and x.name:
                names.add(x.name)
            elif isinstance(x, ast.Delete):
                for t in x.targets:
                    self._targets(t, names, attrs)
            elif isinstance(x, ast.Call):
                f = x.func
                ftxt = ast.unparse(f)
                if isinstance(f, ast.Attribute) and f.attr in ('append', 'add', 'write', 'extend', 'insert', 'pop'):
                    self._targets(f.value, names, attrs)
                if isinstance(f, ast.Name):
                    sc = self.lookup_scope(f.id)
                    v = sc[f.id] if sc else None
                    if isinstance(v, Closure) and id(v) not in seen:
                        seen.add(id(v))
                        self.modified_in(v.node.body, names, attrs, seen)
                if isinstance(f, ast.Attribute) and isinstance(f.value, ast.Name):
                    # method of an object under contract: its modifies clause, re-rooted at the receiver
                    recv = f.value.id
                    sc = self.lookup_scope(recv)
                    v = sc[recv] if sc else None
                    if isinstance(v, Obj):
                        cc = self.find_contract(v.cls, f.attr)
                        if cc is not None and not cc.inline:
                            for m in cc.modifies:
                                if m.startswith('self.'):
                                    attrs.add(recv + m[4:])
                        elif cc is not None and cc.inline:
                            node = Source.get(self.repo, cc.file).find(cc.qual)
                            if id(node) not in seen:
                                seen.add(id(node))
                                sub_n, sub_a = set(), set()
                                self.modified_in(node.body, sub_n, sub_a, seen)
                                for a in sub_a:
                                    if a.startswith('self.'):
                                        attrs.add(recv + a[4:])
                if ftxt in self.c.models and hasattr(self.c.models[ftxt], 'modifies'):
                    for m in self.c.models[ftxt].modifies:
                        attrs.add(m)

    def _targets(self, t, names, attrs):
        if isinstance(t, ast.Name):
            names.add(t.id)
        elif isinstance(t, (ast.Tuple, ast.List)):
            for e in t.elts:
                self._targets(e, names, attrs)
        elif isinstance(t, ast.Attribute):
            attrs.add(ast.unparse(t))
        elif isinstance(t, ast.Subscript):
            self._targets(t.value, names, attrs)
        elif isinstance(t, ast.Starred):
            self._targets(t.value, names, attrs)

    def havoc_loop(self, n, lc, extra_names=()):
        names, attrs = set(extra_names), set()
        body = list(n.body)
        self.modified_in(body + [ast.Expr(n.test)] if isinstance(n, ast.While) else body, names, attrs, set())
        for m in lc.extra_modifies:
            (attrs if '.' in m else names).add(m)
        names |= set(lc.ghost_update)        # ghosts without an update are constants fixed at loop entry
        done_objs = set()
        for name in sorted(names):
            if name in lc.ghost_update:
                self.ghost_env[name] = self.havoc_value(self.ghost_env[name], name, lc)
                continue
            sc = self.lookup_scope(name)
            if sc is None:
                continue        # first assigned inside the loop: loop-local
            sc[name] = self.havoc_value(sc[name], name, lc)
            if isinstance(sc[name], Obj):
                done_objs.add(name)
        for path in sorted(attrs):
            parts = path.split('.')
            if parts[0] in done_objs:
                continue
            sc = self.lookup_scope(parts[0])
            if sc is None:
                continue
            obj = sc[parts[0]]
            for p in parts[1:-1]:
                obj = obj.f[p] if isinstance(obj, Obj) else None
                if obj is None:
                    break
            if isinstance(obj, Obj):
                if parts[-1] in obj.f:
                    if obj.frozen:
                        raise Unsupported(f'loop writes {path} of an object already in a list')
                    obj.f[parts[-1]] = self.havoc_value(obj.f[parts[-1]], path, lc)
            elif obj is not None and hasattr(obj, 'havoc_attr'):
                obj.havoc_attr(self, parts[-1], path)

    # ------------------------------------------------------------------ expressions
    def truth(self, v):
        if hasattr(v, 'truthy'):
            return v.truthy()
        return v if isinstance(v, bool) else zbool(v)

    def eval(self, e):
        m = getattr(self, 'e_' + type(e).__name__, None)
        if m is None:
            raise Unsupported(f'{self.c.qual}: expression {type(e).__name__}: {ast.unparse(e)[:60]}')
        return m(e)

    def e_Constant(self, e):
        return e.value

    def e_Name(self, e):
        v = self.lookup(e.id)
        if isinstance(v, Poison):
            raise Unsupported(f'{self.c.qual}: {e.id} is read after a loop cut without a symbolic form; '
                              'declare its type in the loop contract')
        return v

    def e_Tuple(self, e):
        return tuple(self.eval(x) for x in e.elts)

    def e_List(self, e):
        return PyList([self.eval(x) for x in e.elts])

    def e_Dict(self, e):
        return {self.eval(k): self.eval(v) for k, v in zip(e.keys, e.values)}

    def e_Set(self, e):
        return PyList([self.eval(x) for x in e.elts])

    def e_JoinedStr(self, e):
        from .models.strings import FString
        parts = []
        for v in e.values:
            if isinstance(v, ast.Constant):
                parts.append(v.value)
            else:
                try:
                    parts.append(self.eval(v.value))
                except (Unsupported, PyRaise):
                    parts.append(Opaque('unevaluated'))   # operands of log/exception texts are not modelled
        plain = all(isinstance(v, ast.Constant) or (v.conversion == -1 and v.format_spec is None) for v in e.values)
        if plain and all(isinstance(p, str) or (isinstance(p, int) and not isinstance(p, bool)) for p in parts):
            return ''.join(str(p) for p in parts)         # concrete text
        if all(isinstance(p, str) for p in parts) and all(
                isinstance(v, ast.Constant) or (v.conversion == -1 and v.format_spec is None) for v in e.values):
            return ''.join(parts)                         # concrete text (e.g. a struct format f'>{size}')
        return FString(parts)

    def e_ListComp(self, e):
        """[elt for x in <statically known sequence> (if <concrete test>)]"""
        if len(e.generators) != 1 or e.generators[0].is_async:
            raise Unsupported('nested comprehension')
        g = e.generators[0]
        seq = self.eval(g.iter)
        if isinstance(seq, PyList):
            seq = seq.items
        if not isinstance(seq, (list, tuple, str, bytes)):
            raise Unsupported(f'comprehension over {seq!r}')
        out = []
        saved = self.env
        self.env = {'__parent__': saved}
        try:
            for x in seq:
                self.store(g.target, x)
                keep = True
                for cond in g.ifs:
                    c = self.truth(self.eval(cond))
                    if z3.is_expr(c):
                        c = z3.simplify(c)
                        if not (z3.is_true(c) or z3.is_false(c)):
                            raise Unsupported('comprehension filter is symbolic')
                        c = z3.is_true(c)
                    keep = keep and c
                if keep:
                    out.append(self.eval(e.elt))
        finally:
            self.env = saved
        return PyList(out)

    def e_Lambda(self, e):
        return Closure(e, self.env)

    def e_Attribute(self, e):
        t = ast.unparse(e)
        if t in LIB_CONSTS:
            return LIB_CONSTS[t]
        if ('attr:' + t) in self.c.models:
            return self.c.models['attr:' + t](self)
        if isinstance(e.value, ast.Name) and self.lookup_scope(e.value.id) is None and e.value.id not in self.world:
            cls = self.src.find_class(e.value.id)
            if cls is not None:
                # class attribute with a constant initialiser (e.g. PlayReady.DRM_AES_KEYSIZE_128 = 16)
                cv = class_constant(cls, e.attr)
                if cv is not NotImplemented:
                    return cv
                if self.find_contract(e.value.id, e.attr) is not None:
                    return BoundMethod(Opaque('class:' + e.value.id), e.attr)
        base = self.eval(e.value)
        return self.getattr(base, e.attr, t)

    def getattr(self, base, attr, text=''):
        if isinstance(base, Obj) and attr == '__class__' and attr not in base.f:
            return Opaque('class:' + base.cls)
        if isinstance(base, Opaque) and isinstance(base.what, str) and base.what.startswith('class:'):
            # ClassName.X / self.__class__.X: a constant of the class body (the class is looked up in the file under analysis
            # and in the files the world names for inlined constructors)
            cname = base.what[6:]
            ic = self.world.get('__inline_ctors__', {})
            files = [self.src] + ([Source.get(self.repo, ic[cname])] if isinstance(ic, dict) and ic.get(cname) else [])
            for src in files:
                cls = src.find_class(cname)
                if cls is not None:
                    cv = class_constant(cls, attr)
                    if cv is not NotImplemented:
                        return cv
        if isinstance(base, Obj):
            if attr in base.f:
                return base.f[attr]
            cc = self.find_contract(base.cls, attr)
            if cc is not None:
                node = Source.get(self.repo, cc.file).find(cc.qual)
                if any(ast.unparse(d) == 'property' for d in node.decorator_list):
                    return self.call_contract_or_inline(cc, base, [], {})
                return BoundMethod(base, attr)
            hook = self.c.models.get(f'getattr:{base.cls}.{attr}')
            if hook:
                return hook(self, base)
            v = self.undeclared_field(base, attr)
            if v is not NotImplemented:
                base.f[attr] = v
                return v
            raise Unsupported(f'{self.c.qual}: undeclared field {base.cls}.{attr} ({text})')
        if isinstance(base, Opt):
            self.oblige('safety', f'none:{text}'[:60], z3.Not(base.isnone))
            return self.getattr(base.val, attr, text)
        if isinstance(base, TD):
            us = zint(base.us)
            if base.parts is not None and attr in ('days', 'seconds', 'microseconds'):
                return base.parts[('days', 'seconds', 'microseconds').index(attr)]
            if attr == 'days':
                return floordiv(us, z3.IntVal(86400 * 10**6))
            if attr == 'seconds':
                return floordiv(pymod(us, z3.IntVal(86400 * 10**6)), z3.IntVal(10**6))
            if attr == 'microseconds':
                return pymod(us, z3.IntVal(10**6))
            if attr == 'total_seconds':
                return BoundMethod(base, attr)
        if isinstance(base, DT) and getattr(base, 'hms', None) is not None and attr in ('hour', 'minute', 'second'):
            return base.hms[('hour', 'minute', 'second').index(attr)]     # an instant given by its clock fields
        if isinstance(base, DT) and base.parts is not None and attr in ('hour', 'minute', 'second', 'microsecond'):
            _, sec, usec = base.parts
            sec = zint(sec)
            if attr == 'hour':
                return floordiv(sec, z3.IntVal(3600))
            if attr == 'minute':
                return floordiv(pymod(sec, z3.IntVal(3600)), z3.IntVal(60))
            if attr == 'second':
                return pymod(sec, z3.IntVal(60))
            return usec
        if isinstance(base, DT):
            us = zint(base.us)
            day = pymod(us, z3.IntVal(86400 * 10**6))
            if attr == 'hour':
                return floordiv(day, z3.IntVal(3600 * 10**6))
            if attr == 'minute':
                return floordiv(pymod(day, z3.IntVal(3600 * 10**6)), z3.IntVal(60 * 10**6))
            if attr == 'second':
                return floordiv(pymod(day, z3.IntVal(60 * 10**6)), z3.IntVal(10**6))
            if attr == 'microsecond':
                return pymod(us, z3.IntVal(10**6))
            if attr == 'replace':
                return BoundMethod(base, attr)
        if isinstance(base, Opaque) and base.what.startswith('class:'):
            cls = self.src.find_class(base.what[6:])
            if cls is not None:
                cv = class_constant(cls, attr)
                if cv is not NotImplemented:
                    return cv
                if self.find_contract(base.what[6:], attr) is not None:
                    return BoundMethod(base, attr)
        if hasattr(base, 'getattr'):
            return base.getattr(self, attr)
        if base is None:
            if self.in_spec:
                raise Unsupported(f'spec reads .{attr} of None ({text})')
            raise PyRaise('AttributeError')
        if isinstance(base, (ArrList, PyList, SeqFn, dict, str, SStr, Slice)) or hasattr(base, 'method'):
            return BoundMethod(base, attr)
        raise Unsupported(f'{self.c.qual}: attribute .{attr} of {base!r} ({text})')

    def undeclared_field(self, base, attr):
        """A field the sidecar's shape does not know (added by a code change): if the class's __init__ in the
        current source file initialises it with an int / bool / None constant, it is an arbitrary value of that
        type - no invariant is known about it, so proofs that depend on it fail as undischarged obligations."""
        cls = self.src.find_class(base.cls)
        if cls is not None:
            # a class attribute whose initialiser is built from literals by pure constructors (X = str.maketrans('+/', '-_'))
            for st in cls.body:
                if isinstance(st, ast.Assign) and len(st.targets) == 1 and isinstance(st.targets[0], ast.Name) \
                        and st.targets[0].id == attr and literal_expression(st.value):
                    return eval_literal_expression(st.value)
                if isinstance(st, ast.Assign) and len(st.targets) == 1 and isinstance(st.targets[0], ast.Name) \
                        and st.targets[0].id == attr and all(
                            n.id in ('frozenset', 'set', 'tuple') or isinstance(getattr(n, 'ctx', None), ast.Store) or
                            any(isinstance(p, ast.Attribute) and p.value is n for p in ast.walk(st.value))
                            for n in ast.walk(st.value) if isinstance(n, ast.Name)):
                    # built from enum members / constants of other classes (X = frozenset({Enum.A, Enum.B})): the
                    # contract's attribute models say what those are
                    try:
                        return self.eval(st.value)
                    except Unsupported:
                        break
        init = next((m for m in cls.body if isinstance(m, ast.FunctionDef) and m.name == '__init__'), None) if cls else None
        if init is None:
            return NotImplemented
        for st in ast.walk(init):
            if isinstance(st, ast.Assign) and len(st.targets) == 1 and ast.unparse(st.targets[0]) == f'self.{attr}' \
                    and isinstance(st.value, ast.Constant):
                v = st.value.value
                self.notes.add(f'{base.cls}.{attr}: field unknown to the contracts, treated as an arbitrary value')
                if isinstance(v, bool):
                    return fresh(f'{attr}', BOOL)
                if isinstance(v, int):
                    return fresh(f'{attr}')
                if v is None:
                    return Opt(fresh(f'{attr}.isnone', BOOL), fresh(f'{attr}'))
        return NotImplemented

    def e_Subscript(self, e):
        base = self.eval(e.value)
        if isinstance(e.slice, ast.Slice):
            lo = None if e.slice.lower is None else self.eval(e.slice.lower)
            hi = None if e.slice.upper is None else self.eval(e.slice.upper)
            if e.slice.step is not None:
                raise Unsupported('slice step')
            return self.slice(base, lo, hi, e)
        idx = self.eval(e.slice)
        r = self.index(base, idx, e)
        if isinstance(r, Obj) and isinstance(base, ArrList) and not self.in_spec:
            # the element is a reference into the list: remember its slot so that a later field store updates the list
            if isinstance(idx, int) and idx < 0:
                idx = zint(base.length) + idx
            if isinstance(e.value, ast.Name):
                r.alias = ((self.lookup_scope(e.value.id) or self.env), e.value.id, idx)
            elif isinstance(e.value, ast.Attribute):
                owner = self.eval(e.value.value)
                if isinstance(owner, Obj):
                    r.alias = (owner, e.value.attr, idx)
        return r

    def index(self, base, idx, e=None):
        txt = ast.unparse(e)[:50] if e is not None else ''
        if isinstance(base, (str, bytes)) and isinstance(idx, int):
            if not -len(base) <= idx < len(base):
                raise PyRaise('IndexError')
            return base[idx]
        if isinstance(base, tuple) or isinstance(base, PyList):
            items = base if isinstance(base, tuple) else base.items
            if isinstance(idx, int):
                if not -len(items) <= idx < len(items):
                    if self.in_spec:
                        raise PyRaise('IndexError')      # a clause that reads past the list is not evaluable
                    self.oblige('safety', 'index:' + txt, z3.BoolVal(False))
                    raise PathCut()
                return items[idx]
            if self.in_spec and items and all(not isinstance(x, (Obj, tuple)) for x in items):
                r = zint(items[-1])
                for j in range(len(items) - 2, -1, -1):
                    r = z3.If(zint(idx) == j, zint(items[j]), r)
                return r
            raise Unsupported('symbolic index into python list')
        if isinstance(base, dict):
            if idx in base:
                return base[idx]
            if self.in_spec:
                raise Unsupported(f'spec reads missing key {idx!r}')
            raise PyRaise('KeyError')
        if isinstance(base, (SeqFn, ArrList)):
            if isinstance(idx, int) and idx < 0:
                idx = zint(base.length) + idx
            self.oblige('safety', 'index:' + txt, z3.And(zint(idx) >= 0, zint(idx) < zint(base.length)))
            return base.elem(idx)
        if isinstance(base, SeqView):
            return self.index(base.base, zint(idx) + zint(base.lo), e)
        if hasattr(base, 'getitem'):
            return base.getitem(self, idx)
        raise Unsupported(f'{self.c.qual}: subscript of {base!r} ({txt})')

    def slice(self, base, lo, hi, e):
        if isinstance(base, (SeqFn, ArrList)) and hi is None:
            return SeqView(base, 0 if lo is None else lo)
        if isinstance(base, (tuple, str, bytes)) and all(isinstance(x, (int, type(None))) for x in (lo, hi)):
            return base[lo:hi]
        if isinstance(base, PyList) and all(isinstance(x, (int, type(None))) for x in (lo, hi)):
            return PyList(base.items[lo:hi])
        if isinstance(base, Slice):
            return self.slice_of_slice(base, lo, hi)
        if hasattr(base, 'getslice'):
            return base.getslice(self, lo, hi)
        raise Unsupported(f'{self.c.qual}: slice of {base!r}')

    def slice_of_slice(self, s, lo, hi):
        """b[lo:hi] of a bytes slice for 0 <= lo, hi (negative indices are a safety obligation)."""
        a, b = zint(s.lo), zint(s.hi)
        n = b - a
        l = zint(0 if lo is None else lo)
        self.oblige('safety', 'slice.index.nonneg', l >= 0)
        nl = a + z3.If(l <= n, l, n)
        if hi is None:
            nh = b
        else:
            h = zint(hi)
            self.oblige('safety', 'slice.index.nonneg', h >= 0)
            nh = a + z3.If(h <= n, h, n)
            nh = z3.If(nh >= nl, nh, nl)
        return Slice(z3.simplify(nl), z3.simplify(nh), s.kind)

    def e_UnaryOp(self, e):
        v = self.eval(e.operand)
        if isinstance(e.op, ast.Not):
            t = self.truth(v)
            return (not t) if isinstance(t, bool) else z3.Not(t)
        if isinstance(e.op, ast.USub):
            if isinstance(v, (int, float)):
                return -v
            if isinstance(v, TD):
                return TD(-zint(v.us))
            return -zint(self.num(v, e))
        if isinstance(e.op, ast.UAdd):
            return v
        raise Unsupported('unary op')

    def e_BoolOp(self, e):
        is_and = isinstance(e.op, ast.And)
        if not is_and and len(e.values) == 2 and not self.in_spec:
            # `x or y` used for its VALUE (default for None / 0): the first operand if it is truthy, else the second
            a = self.eval(e.values[0])
            av = a.val if isinstance(a, Opt) else a
            if (isinstance(a, Opt) or (z3.is_expr(a) and z3.is_arith(a))) and z3.is_expr(zint(av)) and not z3.is_bool(av):
                b = self.eval(e.values[1])
                if isinstance(b, int) and not isinstance(b, bool) or (z3.is_expr(b) and z3.is_arith(b)):
                    return z3.If(zbool(a), zint(av), zint(b))
                raise Unsupported('value of `or` with a non-numeric default')
            return self._boolop(e, is_and, first=a)
        return self._boolop(e, is_and)

    PURE_CALLS = {'len', 'isinstance', 'int', 'float', 'abs', 'min', 'max', 'str', 'getattr', 'hasattr', 'bool', 'round',
                  'ord', 'chr', 'bytes', 'tuple', 'list', 'sorted', 'sum', 'repr', 'type'}

    def _boolop(self, e, is_and, first=NotImplemented):
        def impure(x):
            return any(isinstance(n, ast.Call) and not (isinstance(n.func, ast.Name) and n.func.id in self.PURE_CALLS)
                       for n in ast.walk(x))
        if not self.in_spec and any(impure(x) for x in e.values[1:]):
            # a later operand calls code that may have effects: it runs only if the earlier operands let it (a branch per
            # operand, exactly Python's short-circuit evaluation)
            for k, x in enumerate(e.values):
                v = self.truth(first if (k == 0 and first is not NotImplemented) else self.eval(x))
                if z3.is_expr(v) and (z3.is_true(z3.simplify(v)) or z3.is_false(z3.simplify(v))):
                    v = z3.is_true(z3.simplify(v))
                taken = v if isinstance(v, bool) else self.branch(v)
                if taken != is_and:
                    return not is_and
            return is_and
        vals, pushed = [], 0
        try:
            for k, x in enumerate(e.values):
                v = self.truth(first if (k == 0 and first is not NotImplemented) else self.eval(x))
                if z3.is_true(v) or z3.is_false(v):
                    v = z3.is_true(v)        # a concrete operand (None, 0, '' ...) short-circuits as in Python
                if isinstance(v, bool):
                    if v != is_and:          # short-circuit decides
                        vals.append(v)
                        break
                    continue
                vals.append(v)
                self.pc.append(v if is_and else z3.Not(v))
                pushed += 1
        finally:
            for _ in range(pushed):
                self.pc.pop()
        if not vals:
            return is_and
        if any(isinstance(v, bool) for v in vals):
            # a constant that decides: result is the conjunction/disjunction up to it
            zs = [z3.BoolVal(v) if isinstance(v, bool) else v for v in vals]
        else:
            zs = vals
        return z3.And(*zs) if is_and else z3.Or(*zs)

    def e_IfExp(self, e):
        c = self.truth(self.eval(e.test))
        if isinstance(c, bool):
            return self.eval(e.body if c else e.orelse)
        c = z3.simplify(c)
        if z3.is_true(c):
            return self.eval(e.body)
        if z3.is_false(c):
            return self.eval(e.orelse)
        if not self.in_spec and any(isinstance(x, ast.Constant) and isinstance(x.value, (str, bytes)) for x in (e.body, e.orelse)):
            # text-valued alternatives (e.g. a struct format chosen by the box version) cannot be merged: one path each
            return self.eval(e.body) if self.branch(c) else self.eval(e.orelse)
        failed = {}
        vals = {}
        for key, cond, node in (('a', c, e.body), ('b', z3.Not(c), e.orelse)):
            self.pc.append(cond)
            try:
                vals[key] = self.eval(node)
            except (Unsupported, PyRaise, PathCut) as err:
                if isinstance(err, PathCut) and not self.in_spec:
                    raise
                # in a specification, a branch that cannot even be evaluated (e.g. a field of None) is acceptable
                # only if the path condition rules that branch out
                if not self.in_spec or self.feasible(z3.BoolVal(True)):
                    raise
                failed[key] = err
            finally:
                self.pc.pop()
        if failed:
            if len(failed) == 2:
                raise failed['a']
            return vals['b'] if 'a' in failed else vals['a']
        a, b = vals['a'], vals['b']
        if not self.in_spec and any(isinstance(x, (Closure, BoundMethod, Obj, Opaque, PyList, dict, str, bytes)) or hasattr(x, 'method')
                                    for x in (a, b)):
            # alternatives that are objects / functions / texts cannot be merged into one term: one path each
            return a if self.branch(c) else b
        return self.ite(c, a, b)

    def ite(self, c, a, b):
        if isinstance(a, TD) and isinstance(b, TD):
            return TD(z3.If(c, zint(a.us), zint(b.us)))
        if isinstance(a, DT) and isinstance(b, DT):
            return DT(z3.If(c, zint(a.us), zint(b.us)))
        if isinstance(a, Slice) and isinstance(b, Slice) and a.kind == b.kind:
            return Slice(z3.If(c, zint(a.lo), zint(b.lo)), z3.If(c, zint(a.hi), zint(b.hi)), a.kind)
        if a is None and b is None:
            return None
        if a is None or b is None:
            other = b if a is None else a
            none_when = c if a is None else z3.Not(c)
            if isinstance(other, Opt):
                return Opt(z3.Or(none_when, other.isnone), other.val)
            return Opt(none_when, zint(other))
        if isinstance(a, tuple) and isinstance(b, tuple) and len(a) == len(b):
            return tuple(self.ite(c, x, y) for x, y in zip(a, b))
        if isinstance(a, Opt) or isinstance(b, Opt):
            a = a if isinstance(a, Opt) else Opt(z3.BoolVal(False), zint(a))
            b = b if isinstance(b, Opt) else Opt(z3.BoolVal(False), zint(b))
            return Opt(z3.If(c, a.isnone, b.isnone), z3.If(c, zint(a.val), zint(b.val)))
        if isinstance(a, bool) or z3.is_bool(a):
            if isinstance(b, bool) or z3.is_bool(b):
                return z3.If(c, zbool(a), zbool(b))
        a, b = zint(a), zint(b)
        if a.sort() != b.sort():
            a, b = zreal(a), zreal(b)
        return z3.If(c, a, b)

    def num(self, v, e=None):
        if isinstance(v, Opt):
            self.oblige('safety', ('none:' + (ast.unparse(e) if e is not None else ''))[:60], z3.Not(v.isnone))
            return v.val
        if v is None and not self.in_spec:
            self.oblige('safety', ('none:' + (ast.unparse(e) if e is not None else ''))[:60], z3.BoolVal(False))
            raise PathCut()
        return v

    def e_BinOp(self, e):
        return self.binop(e.op, self.eval(e.left), self.eval(e.right), e)

    def binop(self, op, a, b, e=None):
        txt = (ast.unparse(e) if e is not None else '')[:50]
        a, b = self.num(a, e), self.num(b, e)
        if isinstance(a, bytes) and isinstance(b, bytes) and isinstance(op, ast.Add):
            return a + b
        if isinstance(a, PyList) and isinstance(b, PyList) and isinstance(op, ast.Add):
            return PyList(list(a.items) + list(b.items))
        if isinstance(op, ast.Mult) and ((isinstance(a, bytes) and isinstance(b, int)) or (isinstance(a, int) and isinstance(b, bytes))) \
                and not isinstance(a, bool) and not isinstance(b, bool):
            return a * b
        # --- time values
        if isinstance(a, (TD, DT)) or isinstance(b, (TD, DT)):
            if isinstance(op, ast.Add):
                if isinstance(a, TD) and isinstance(b, TD):
                    return TD(zint(a.us) + zint(b.us))
                if isinstance(a, DT) and isinstance(b, TD):
                    return DT(zint(a.us) + zint(b.us))
                if isinstance(a, TD) and isinstance(b, DT):
                    return DT(zint(a.us) + zint(b.us))
            if isinstance(op, ast.Sub):
                if isinstance(a, TD) and isinstance(b, TD):
                    return TD(zint(a.us) - zint(b.us))
                if isinstance(a, DT) and isinstance(b, DT):
                    return TD(zint(a.us) - zint(b.us))
                if isinstance(a, DT) and isinstance(b, TD):
                    return DT(zint(a.us) - zint(b.us))
            if isinstance(op, ast.Mult):
                td, k = (a, b) if isinstance(a, TD) else (b, a)
                if isinstance(td, TD) and zint(k).sort() == INT:
                    return TD(zint(td.us) * zint(k))
            raise Unsupported(f'time arithmetic {txt}')
        if z3.is_bv(a) or z3.is_bv(b):
            if isinstance(op, ast.BitXor) and z3.is_bv(a) and z3.is_bv(b):
                return a ^ b
            raise Unsupported(f'byte arithmetic {txt}')
        if hasattr(a, 'binop'):
            return a.binop(self, op, b, False)
        if hasattr(b, 'binop'):
            return b.binop(self, op, a, True)
        if isinstance(a, str) or isinstance(b, str):
            if isinstance(op, ast.Mod) and isinstance(a, str):
                from .models.text import percent_format
                return percent_format(self, a, b, e)
            if isinstance(op, ast.Mod):
                return Opaque('formatted')
            if isinstance(op, ast.Add) and isinstance(a, str) and isinstance(b, str):
                return a + b
            if isinstance(a, Opaque) or isinstance(b, Opaque):
                return Opaque('formatted')
            raise Unsupported(f'string op {txt}')
        if isinstance(a, Opaque) or isinstance(b, Opaque):
            return Opaque('formatted')
        if isinstance(a, Ratio) or isinstance(b, Ratio) or \
                (isinstance(op, ast.Div) and not isinstance(a, float) and not isinstance(b, float)
                 and as_ratio(a) is not None and as_ratio(b) is not None
                 and not (isinstance(a, int) and isinstance(b, int))):
            ra, rb = as_ratio(a), as_ratio(b)
            if ra is not None and rb is not None:
                sym = {ast.Add: '+', ast.Sub: '-', ast.Mult: '*', ast.Div: '/'}.get(type(op))
                if sym:
                    if sym == '/':
                        self.div_guard(txt, zint(rb.num) != 0)
                    return ratio_op(sym, ra, rb)
                if isinstance(op, ast.FloorDiv):
                    self.div_guard(txt, zint(rb.num) != 0)
                    q = ratio_op('/', ra, rb)
                    return Ratio(q.floor(), 1) if (isinstance(a, Ratio) or isinstance(b, Ratio)) else q.floor()
            a = a.real() if isinstance(a, Ratio) else a
            b = b.real() if isinstance(b, Ratio) else b
        pynum = lambda x: isinstance(x, (int, float)) and not isinstance(x, bool)
        if pynum(a) and pynum(b):
            try:
                return eval(compile(ast.Expression(ast.fix_missing_locations(
                    ast.BinOp(ast.Constant(a), op, ast.Constant(b)))), '<const>', 'eval'))
            except ZeroDivisionError:
                self.div_guard(txt, z3.BoolVal(False))
                raise PathCut()
        za, zb = zint(a), zint(b)
        real = za.sort() == REAL or zb.sort() == REAL
        if isinstance(op, (ast.Add, ast.Sub, ast.Mult)):
            if real:
                za, zb = zreal(za), zreal(zb)
            return za + zb if isinstance(op, ast.Add) else za - zb if isinstance(op, ast.Sub) else za * zb
        if isinstance(op, ast.Div):
            self.div_guard(txt, zb != 0)
            return zreal(za) / zreal(zb)
        if isinstance(op, ast.FloorDiv):
            self.div_guard(txt, zb != 0)
            if real and za.sort() == INT and isinstance(b, float) and b == int(b) and b != 0:
                # int // integral float constant: floor of the exact quotient == integer floor division; the float result is
                # kept as the exact rational q/1 so that what follows stays integer arithmetic
                return Ratio(floordiv(za, z3.IntVal(int(b))), 1)
            if real:
                return z3.ToReal(z3.ToInt(zreal(za) / zreal(zb)))
            return floordiv(za, zb)
        if isinstance(op, ast.Mod):
            self.div_guard(txt, zb != 0)
            if real:
                q = z3.ToReal(z3.ToInt(zreal(za) / zreal(zb)))
                return zreal(za) - zreal(zb) * q
            return pymod(za, zb)
        if isinstance(op, ast.RShift) and isinstance(b, int) and b >= 0 and not real:
            return floordiv(za, z3.IntVal(2 ** b))
        if isinstance(op, ast.LShift) and isinstance(b, int) and b >= 0 and not real:
            return za * (2 ** b)
        if isinstance(op, ast.BitAnd) and isinstance(b, int) and b >= 0 and (b & (b + 1)) == 0 and not real:
            # x & (2^k - 1) == x mod 2^k (also for negative x in Python)
            return pymod(za, z3.IntVal(b + 1))
        if isinstance(op, (ast.BitAnd, ast.BitOr)) and (isinstance(b, int) or isinstance(a, int)) and not real:
            x, c = (za, b) if isinstance(b, int) else (zb, a)
            if isinstance(c, int) and c >= 0 and bin(c).count('1') <= 12:
                self.oblige('safety', 'bitop.nonneg:' + txt, x >= 0)
                bits = [k for k in range(c.bit_length()) if c >> k & 1]
                bit = lambda k: pymod(floordiv(x, z3.IntVal(2 ** k)), z3.IntVal(2))
                if isinstance(op, ast.BitAnd):
                    return z3.Sum([bit(k) * (2 ** k) for k in bits]) if bits else z3.IntVal(0)
                return x + z3.Sum([(1 - bit(k)) * (2 ** k) for k in bits]) if bits else x
        if isinstance(op, ast.BitAnd) and (isinstance(b, int) or isinstance(a, int)) and not real:
            # constant mask with many bits: the mask is a union of runs of ones; x & m = sum of x's bit fields
            x, c = (za, b) if isinstance(b, int) else (zb, a)
            if c >= 0:
                self.oblige('safety', 'bitop.nonneg:' + txt, x >= 0)
                out, k = z3.IntVal(0), 0
                while (c >> k) != 0:
                    if (c >> k) & 1:
                        lo = k
                        while (c >> k) & 1:
                            k += 1
                        out = out + pymod(floordiv(x, z3.IntVal(2 ** lo)), z3.IntVal(2 ** (k - lo))) * (2 ** lo)
                    else:
                        k += 1
                return z3.simplify(out)
        if isinstance(op, (ast.BitOr, ast.BitAnd, ast.BitXor)) and not real and za.sort() == INT and zb.sort() == INT:
            # two symbolic operands: 64-bit two's-complement-free encoding (both obliged to be in [0, 2^64))
            for v in (za, zb):
                self.oblige('safety', 'bitop.range64:' + txt, z3.And(v >= 0, v < 2 ** 64))
            ba, bb = z3.Int2BV(za, 64), z3.Int2BV(zb, 64)
            r = ba | bb if isinstance(op, ast.BitOr) else (ba & bb if isinstance(op, ast.BitAnd) else ba ^ bb)
            return z3.BV2Int(r, is_signed=False)
        if isinstance(op, ast.Pow) and isinstance(b, int) and 0 <= b <= 4:
            r = z3.IntVal(1)
            for _ in range(b):
                r = r * za
            return r
        raise Unsupported(f'{self.c.qual}: operator {type(op).__name__} in {txt}')

    def e_Compare(self, e):
        if isinstance(e.left, ast.Call) and isinstance(e.left.func, ast.Name) and e.left.func.id == 'type' \
                and len(e.left.args) == 1 and len(e.ops) == 1 and isinstance(e.ops[0], (ast.Is, ast.IsNot, ast.Eq, ast.NotEq)) \
                and isinstance(e.comparators[0], ast.Name) and e.comparators[0].id in PY_EXACT_TYPES \
                and self.lookup_scope('type') is None:
            # type(v) is T: the exact class (no subclasses), decided for concrete values only
            v = self.eval(e.left.args[0])
            if v is None or type(v) in PY_EXACT_TYPES.values() or isinstance(v, (str, bytes)):
                same = type(v) is PY_EXACT_TYPES[e.comparators[0].id]
                return same if isinstance(e.ops[0], (ast.Is, ast.Eq)) else not same
            raise Unsupported('type(v) of a symbolic value')
        left = self.eval(e.left)
        out = []
        for op, r in zip(e.ops, e.comparators):
            right = self.eval(r)
            out.append(self.compare(op, left, right, e))
            left = right
        if len(out) == 1:
            return out[0]
        if all(isinstance(x, bool) for x in out):
            return all(out)
        return z3.And(*[zbool(x) for x in out])

    def compare(self, op, a, b, e=None):
        txt = (ast.unparse(e) if e is not None else '')[:50]
        if isinstance(op, (ast.Is, ast.IsNot)):
            if b is None or a is None:
                x = a if b is None else b
                if isinstance(x, Opt):
                    r = x.isnone
                else:
                    r = x is None
            elif isinstance(a, bool) or isinstance(b, bool) or z3.is_bool(a) or z3.is_bool(b):
                r = zbool(a) == zbool(b)
            else:
                r = a is b
            if isinstance(op, ast.IsNot):
                r = (not r) if isinstance(r, bool) else z3.Not(r)
            return r
        if isinstance(op, (ast.In, ast.NotIn)):
            if hasattr(b, 'contains'):
                r = b.contains(self, a)
            elif hasattr(a, 'compare') and isinstance(b, (tuple, PyList)):
                items = b.items if isinstance(b, PyList) else b
                r = z3.Or(*[zbool(a.compare(self, ast.Eq(), x, False)) for x in items]) if items else False
            elif isinstance(b, (tuple, PyList, dict, str, set, frozenset)) and not is_sym(a) and not isinstance(a, (Opt, SStr)):
                items = b.items if isinstance(b, PyList) else b
                r = a in items
            elif isinstance(b, (tuple, PyList)) and z3.is_expr(a):
                items = b.items if isinstance(b, PyList) else b
                r = z3.Or(*[zint(a) == zint(x) for x in items])
            else:
                raise Unsupported(f'membership {txt}')
            if isinstance(op, ast.NotIn):
                r = (not r) if isinstance(r, bool) else z3.Not(r)
            return r
        if hasattr(a, 'compare'):
            return a.compare(self, op, b, False)
        if hasattr(b, 'compare'):
            return b.compare(self, op, a, True)
        # equality with None / strings / heterogeneous constants
        if isinstance(op, (ast.Eq, ast.NotEq)):
            r = None
            if isinstance(a, Opt) or isinstance(b, Opt):
                x, y = (a, b) if isinstance(a, Opt) else (b, a)
                if y is None:
                    r = x.isnone
                elif isinstance(y, Opt):
                    r = z3.Or(z3.And(x.isnone, y.isnone), z3.And(z3.Not(x.isnone), z3.Not(y.isnone), zint(x.val) == zint(y.val)))
                elif isinstance(y, str):
                    r = False
                else:
                    r = z3.And(z3.Not(x.isnone), zint(x.val) == zint(y))
            elif a is None or b is None:
                r = a is None and b is None
            elif isinstance(a, (str, bytes)) or isinstance(b, (str, bytes)):
                if isinstance(a, (str, bytes)) and isinstance(b, (str, bytes)):
                    r = a == b
                elif isinstance(a, (DT, TD, Obj)) or isinstance(b, (DT, TD, Obj)) or is_sym(a) or is_sym(b) or isinstance(a, int) or isinstance(b, int):
                    r = False
                else:
                    raise Unsupported(f'string comparison {txt}')
            elif isinstance(a, (TD, DT)) and type(a) is type(b):
                r = zint(a.us) == zint(b.us)
            elif isinstance(a, tuple) and isinstance(b, tuple):
                r = z3.And(*[zbool(self.compare(ast.Eq(), x, y)) for x, y in zip(a, b)]) if len(a) == len(b) else False
            if r is not None:
                if isinstance(op, ast.NotEq):
                    r = (not r) if isinstance(r, bool) else z3.Not(r)
                return r
        if isinstance(a, (TD, DT)) and type(a) is type(b):
            a, b = a.us, b.us
        a, b = self.num(a, e), self.num(b, e)
        if isinstance(a, Ratio) or isinstance(b, Ratio):
            ra, rb = as_ratio(a), as_ratio(b)
            if ra is not None and rb is not None and isinstance(ra.den, int) and isinstance(rb.den, int) \
                    and ra.den > 0 and rb.den > 0:
                x, y = _mul(ra.num, rb.den), _mul(rb.num, ra.den)
                a, b = x, y
            else:
                a = a.real() if isinstance(a, Ratio) else a
                b = b.real() if isinstance(b, Ratio) else b
        if isinstance(a, (int, float)) and isinstance(b, (int, float)):
            return {ast.Lt: a < b, ast.LtE: a <= b, ast.Gt: a > b, ast.GtE: a >= b, ast.Eq: a == b, ast.NotEq: a != b}[type(op)]
        if (isinstance(a, bool) or z3.is_bool(a)) and (isinstance(b, bool) or z3.is_bool(b)) and isinstance(op, (ast.Eq, ast.NotEq)):
            r = zbool(a) == zbool(b)
            return z3.Not(r) if isinstance(op, ast.NotEq) else r
        za, zb = zint(a), zint(b)
        if za.sort() != zb.sort():
            za, zb = zreal(za), zreal(zb)
        return {ast.Lt: za < zb, ast.LtE: za <= zb, ast.Gt: za > zb, ast.GtE: za >= zb,
                ast.Eq: za == zb, ast.NotEq: za != zb}[type(op)]

    # ------------------------------------------------------------------ calls
    def local_helper(self, name, cls):
        """A helper the sidecar does not know (e.g. lines extracted into a private function by a refactoring): if it is
        defined in the file of the function under contract - as a method of the receiver's class (or of the class the
        function under contract belongs to) or at module level - and contains no loop, its real body is analysed in place.
        Helpers with loops need a contract (a loop needs an invariant)."""
        if getattr(self, '_helper_depth', 0) > 3:
            return None
        tree = self.src.tree
        cands = []
        if cls is not None:
            own = self.c.qual.split('.')[0] if '.' in self.c.qual else None
            for k in tree.body:
                if isinstance(k, ast.ClassDef) and k.name in (cls, own):
                    cands += [m for m in k.body if isinstance(m, ast.FunctionDef) and m.name == name]
        else:
            cands = [f for f in tree.body if isinstance(f, ast.FunctionDef) and f.name == name]
        for node in cands:
            if any(isinstance(x, (ast.For, ast.While, ast.AsyncFor)) for x in ast.walk(node)):
                return None
            if any(isinstance(x, (ast.Yield, ast.YieldFrom, ast.Await)) for x in ast.walk(node)):
                return None
            return node
        return None

    def find_contract(self, cls, meth):
        """First registered contract of cls.meth (searching base classes); variants are chosen at the call."""
        seen = [cls]
        while seen:
            c = seen.pop(0)
            cc = self.registry.get(f'{c}.{meth}')
            if cc:
                return cc[0] if isinstance(cc, list) else cc
            seen.extend(self.bases.get(c, []))
        return None

    def variants(self, cc):
        v = self.registry.get(cc.qual)
        return v if isinstance(v, list) else [cc]

    def e_Call(self, e):
        ftxt = ast.unparse(e.func)
        # ---- specification vocabulary
        if self.in_spec:
            r = self.spec_call(ftxt, e)
            if r is not NotImplemented:
                return r
        if ftxt in self.c.models:
            if getattr(self.c.models[ftxt], 'lazy', False):
                return self.c.models[ftxt](self, e, None, None)      # the model looks at the AST itself
            args, kwargs = self.args(e)
            return self.c.models[ftxt](self, e, args, kwargs)
        if ftxt in self.world.get('__models__', {}):
            args, kwargs = self.args(e)
            return self.world['__models__'][ftxt](self, e, args, kwargs)
        if isinstance(e.func, ast.Name):
            name = e.func.id
            sc = self.lookup_scope(name)
            if sc is not None:
                f = sc[name]
                args, kwargs = self.args(e)
                return self.call_value(f, args, kwargs, e)
            if name in self.world and callable(self.world[name]) and self.in_spec:
                args, kwargs = self.args(e)
                return self.call_value(self.world[name], args, kwargs, e)
            if name == 'getattr' and len(e.args) == 3 and isinstance(e.args[1], ast.Constant):
                o = self.eval(e.args[0])
                if isinstance(o, Obj):
                    return o.f[e.args[1].value] if e.args[1].value in o.f else self.eval(e.args[2])
            if name == 'getattr' and len(e.args) in (2, 3) and not isinstance(e.args[1], ast.Constant):
                attr = self.eval(e.args[1])
                if isinstance(attr, str):
                    o = self.eval(e.args[0])
                    if len(e.args) == 3 and isinstance(o, Obj) and attr not in o.f:
                        return self.eval(e.args[2])
                    return self.getattr(o, attr, ast.unparse(e))
            if name == 'hasattr' and len(e.args) == 2 and isinstance(e.args[1], ast.Constant):
                o = self.eval(e.args[0])
                if isinstance(o, Obj):
                    return e.args[1].value in o.f       # the sidecar env declares the object's shape
            if name == 'cast' and len(e.args) == 2:
                return self.eval(e.args[1])          # typing.cast(T, v) is v
            if name == 'isinstance':
                t = e.args[1]
                return self.isinstance(self.eval(e.args[0]),
                                       [ast.unparse(x) for x in (t.elts if isinstance(t, ast.Tuple) else [t])])
            args, kwargs = self.args(e)
            r = self.builtin(name, args, kwargs, e)
            if r is not NotImplemented:
                return r
            cc = self.registry.get(name)
            if cc:
                return self.call_contract_or_inline(cc[0] if isinstance(cc, list) else cc, None, args, kwargs)
            ctor = self.c.ctors.get(name) or self.world.get('__ctors__', {}).get(name)
            if ctor is not None:
                return ctor(self, args, kwargs)
            if name in self.world.get('__inline_ctors__', ()):
                ic = self.world['__inline_ctors__']
                cls = (Source.get(self.repo, ic[name]) if isinstance(ic, dict) and ic[name] else self.src).find_class(name)
                init = next((m for m in cls.body if isinstance(m, ast.FunctionDef) and m.name == '__init__'), None) if cls else None
                if init is None:
                    raise Unsupported(f'constructor {name}: class or __init__ not found in {self.src.relpath}')
                obj = Obj(name)
                self.inline(init, None, args, kwargs, recv=obj)
                return obj
            if name in self.world and callable(self.world[name]):
                return self.call_value(self.world[name], args, kwargs, e)
            node = self.local_helper(name, None)
            if node is not None:
                return self.inline(node, None, args, kwargs)
            raise Unsupported(f'{self.c.qual}: unmodelled call {ftxt}(...)')
        if isinstance(e.func, ast.Attribute) and isinstance(e.func.value, ast.Name) \
                and self.lookup_scope(e.func.value.id) is None and e.func.value.id not in self.world \
                and self.find_contract(e.func.value.id, e.func.attr) is not None and ftxt not in self.c.models:
            # ClassName.method(...): class / static method under contract
            args, kwargs = self.args(e)
            return self.call_contract_or_inline(self.find_contract(e.func.value.id, e.func.attr),
                                                Opaque('class:' + e.func.value.id), args, kwargs)
        if isinstance(e.func, ast.Attribute):
            if ftxt in self.c.ctors:
                args, kwargs = self.args(e)
                return self.c.ctors[ftxt](self, args, kwargs)
            lib = self.library(ftxt, e)
            if lib is not NotImplemented:
                return lib
            recv = self.eval(e.func.value)
            args, kwargs = self.args(e)
            return self.call_method(recv, e.func.attr, args, kwargs, e)
        f = self.eval(e.func)
        args, kwargs = self.args(e)
        return self.call_value(f, args, kwargs, e)

    def args(self, e):
        args = []
        for a in e.args:
            if isinstance(a, ast.Starred):
                v = self.eval(a.value)
                if isinstance(v, PyList):
                    v = tuple(v.items)
                if not isinstance(v, tuple):
                    raise Unsupported('*args of a non-tuple')
                args.extend(v)                 # f(*args): the positional arguments handed through
                continue
            args.append(self.eval(a))
        kwargs = {}
        for k in e.keywords:
            if k.arg is None:
                d = self.eval(k.value)
                if not isinstance(d, dict):
                    raise Unsupported('**kwargs of non-dict')
                kwargs.update(d)
            else:
                kwargs[k.arg] = self.eval(k.value)
        return args, kwargs

    def call_value(self, f, args, kwargs, e):
        if isinstance(f, Closure):
            return self.inline(f.node, f.env, args, kwargs)
        if isinstance(f, BoundMethod):
            return self.call_method(f.recv, f.name, args, kwargs, e)
        if isinstance(f, z3.FuncDeclRef):
            return f(*[zint(a) for a in args])
        if callable(f):
            return f(*args, **kwargs)
        raise Unsupported(f'call of {f!r}')

    def call_method(self, recv, name, args, kwargs, e):
        if isinstance(recv, (set, frozenset)) and name in ('intersection', 'union', 'difference') and len(args) == 1 and not kwargs:
            if hasattr(args[0], 'set_op'):
                return args[0].set_op(self, {'difference': 'rdifference'}.get(name, name), recv)
            if isinstance(args[0], (set, frozenset)):
                return getattr(recv, name)(args[0])
            if isinstance(args[0], PyList) and all(isinstance(x, (str, int)) for x in args[0].items):
                return getattr(recv, name)(args[0].items)
        if type(recv).__name__ == 'Pattern' and name in ('sub', 'match', 'search', 'fullmatch', 'findall', 'split') and not kwargs \
                and all(type(a) in (str, int) for a in args):
            r = getattr(recv, name)(*args)      # a compiled regular expression applied to concrete text: plain execution
            if name in ('match', 'search', 'fullmatch'):
                if r is not None:
                    raise Unsupported('regular expression match object')
                return None
            return PyList(r) if isinstance(r, list) else r
        if isinstance(recv, Opt):
            self.oblige('safety', f'none:{ast.unparse(e)}'[:60], z3.Not(recv.isnone))
            recv = recv.val
        if isinstance(recv, Obj) and name in recv.f and (isinstance(recv.f[name], (Closure, BoundMethod)) or
                                                          (callable(recv.f[name]) and not z3.is_expr(recv.f[name]))):
            return self.call_value(recv.f[name], args, kwargs, e)          # a field that holds a function
        if isinstance(recv, Obj):
            cc = self.find_contract(recv.cls, name)
            if cc is None:
                hook = self.c.models.get(f'{recv.cls}.{name}')
                if hook:
                    return hook(self, e, [recv] + args, kwargs)
                node = self.local_helper(name, recv.cls)
                if node is not None:
                    return self.inline(node, None, args, kwargs, recv=recv)
                raise Unsupported(f'{self.c.qual}: no contract for {recv.cls}.{name}')
            return self.call_contract_or_inline(cc, recv, args, kwargs)
        if name == 'bit_length' and (isinstance(recv, int) or (z3.is_expr(recv) and recv.sort() == INT)) and not args:
            from .models.trace import BitLen
            return recv.bit_length() if isinstance(recv, int) else BitLen(recv)
        if isinstance(recv, TD) and name == 'total_seconds':
            return Ratio(recv.us, 1000000)
        if isinstance(recv, DT) and name == 'replace':
            return self.dt_replace(recv, kwargs)
        if isinstance(recv, DT) and name == 'timestamp' and not args:
            return Ratio(recv.us, 1000000)      # POSIX seconds of an aware datetime (the float is treated as exact)
        if isinstance(recv, PyList) and name == 'append':
            recv.items.append(args[0])
            return None
        if isinstance(recv, PyList) and name == 'sort' and not args and not kwargs:
            if all(type(x) is str for x in recv.items) or all(type(x) is int for x in recv.items):
                recv.items.sort()               # concrete keys: plain execution (in place, as in Python)
                return None
            raise Unsupported('list.sort of symbolic items')
        if isinstance(recv, PyList) and name == 'pop' and len(args) <= 1 and not kwargs and all(isinstance(a, int) for a in args):
            if not recv.items or (args and not -len(recv.items) <= args[0] < len(recv.items)):
                raise PyRaise('IndexError')
            return recv.items.pop(*args)
        if isinstance(recv, ArrList) and name == 'append':
            item = args[0]
            if isinstance(item, Obj):
                item.frozen = True
                if isinstance(e.func.value, ast.Name):
                    item.alias = ((self.lookup_scope(e.func.value.id) or self.env), e.func.value.id, recv.length)
                elif isinstance(e.func.value, ast.Attribute):
                    owner = self.eval(e.func.value.value)
                    if isinstance(owner, Obj):
                        item.alias = (owner, e.func.value.attr, recv.length)
                # a field the list declares as plain int must not hold None when the record is appended
                vals = dict(item.f)
                for f, srt in recv.fields.items():
                    if not isinstance(srt, str) and isinstance(vals.get(f), Opt):
                        self.oblige('safety', f'none:append.{f}', z3.Not(vals[f].isnone))
                        vals[f] = vals[f].val
                item = vals
            new = recv.appended(item)
            if isinstance(e.func.value, ast.Name):
                # a list is an object: the update is visible through the scope that holds the name (closures too)
                (self.lookup_scope(e.func.value.id) or self.env)[e.func.value.id] = new
            else:
                self.store(e.func.value, new)
            return None
        if isinstance(recv, Slice) and name == 'tobytes':
            return recv
        if isinstance(recv, str) and name == 'join' and isinstance(args[0], PyList) and args[0].items \
                and all(type(x).__name__ == 'BSeq' for x in args[0].items):
            from .models.bytesmodel import join
            return join(recv, args[0].items)
        if isinstance(recv, str) and name == 'join' and isinstance(args[0], PyList) and all(isinstance(x, str) for x in args[0].items):
            return recv.join(args[0].items)
        if isinstance(recv, str) and recv != '' and name == 'join' and isinstance(args[0], PyList):
            from .models.text import Joined
            j = Joined(list(args[0].items))         # sep.join(items): the items are remembered, the separator too
            j.sep = recv
            return j
        if recv == '' and name == 'join' and isinstance(args[0], PyList):
            from .models.text import Joined
            return Joined(list(args[0].items))
        if isinstance(recv, dict) and name in ('values', 'keys', 'items') and not args:
            return PyList(list(getattr(recv, name)()))
        if isinstance(recv, str) and name == 'replace' and len(args) == 2 and all(isinstance(x, str) for x in args):
            return recv.replace(args[0], args[1])
        if isinstance(recv, str) and name in ('lower', 'upper', 'strip') and not args:
            return getattr(recv, name)()
        if isinstance(recv, dict) and name == 'update' and len(args) == 1 and isinstance(args[0], dict) and not kwargs:
            recv.update(args[0])
            return None
        if isinstance(recv, dict) and name == 'get':
            return recv.get(args[0], args[1] if len(args) > 1 else None)
        if hasattr(recv, 'method'):
            return recv.method(self, name, args, kwargs, e)
        if isinstance(recv, Opaque) and recv.what.startswith('class:'):
            cc = self.find_contract(recv.what[6:], name)
            if cc is not None:
                return self.call_contract_or_inline(cc, recv, args, kwargs)
        if isinstance(recv, (PyList, ArrList)) and not hasattr(list, name):
            raise PyRaise('AttributeError')      # e.g. `xs.push(...)`: Python lists have no such method
        raise Unsupported(f'{self.c.qual}: method .{name} of {recv!r}')

    def inline(self, node, closure_env, args, kwargs, recv=None, cls=None):
        a = node.args
        if a.kwonlyargs:
            raise Unsupported('inline: keyword-only parameters')
        params = [p.arg for p in a.args]
        frame = {'__parent__': closure_env}
        vals = list(args)
        if a.vararg:
            frame[a.vararg.arg] = tuple(vals[len(params):])
            vals = vals[:len(params)]
        if recv is not None or cls is not None:
            is_static = any(ast.unparse(d) == 'staticmethod' for d in getattr(node, 'decorator_list', []))
            if not is_static:
                vals = [recv if recv is not None else Opaque('class:' + str(cls))] + vals
        if len(vals) > len(params) or (not a.kwarg and any(k not in params for k in kwargs)):
            raise PyRaise('TypeError')          # too many positional arguments / an unexpected keyword argument
        defaults = [None] * (len(params) - len(a.defaults)) + list(a.defaults)
        for i, p in enumerate(params):
            if i < len(vals):
                frame[p] = vals[i]
            elif p in kwargs:
                frame[p] = kwargs[p]
            elif defaults[i] is not None:
                frame[p] = self.eval(defaults[i])
            else:
                raise Unsupported(f'inline: missing argument {p}')
        if a.kwarg:
            frame[a.kwarg.arg] = {k: v for k, v in kwargs.items() if k not in params}
        saved = self.env
        self.env = frame
        try:
            if isinstance(node, ast.Lambda):
                return self.eval(node.body)
            self.exec_block(node.body)
            return None
        except _Return as r:
            return r.value
        finally:
            self.env = saved

    def call_contract_or_inline(self, cc, recv, args, kwargs):
        node = Source.get(self.repo, cc.file).find(cc.qual)
        if cc.inline:
            # (loops of an inlined body are fine as long as they iterate over statically known lists;
            #  symbolic loops there have no contract ordinal and are rejected in x_For / x_While)
            return self.inline(node, None, args, kwargs, recv=recv,
                               cls=cc.qual.split('.')[0] if '.' in cc.qual else None)
        return self.apply_contract(cc, node, recv, args, kwargs)

    def bind(self, node, recv, args, kwargs, is_method):
        a = node.args
        params = [p.arg for p in a.args]
        is_static = any(ast.unparse(d) == 'staticmethod' for d in node.decorator_list)
        vals = list(args)
        if is_method and not is_static:
            vals = [recv] + vals
        defaults = [None] * (len(params) - len(a.defaults)) + list(a.defaults)
        frame = {}
        for i, p in enumerate(params):
            if i < len(vals):
                frame[p] = vals[i]
            elif p in kwargs:
                frame[p] = kwargs[p]
            elif defaults[i] is not None:
                frame[p] = self.eval(defaults[i])
            else:
                raise Unsupported(f'call of {node.name}: missing argument {p}')
        if a.kwarg:
            frame[a.kwarg.arg] = {k: v for k, v in kwargs.items() if k not in params}
        return frame

    def apply_contract(self, cc, node, recv, args, kwargs):
        """Modular call: assert requires, havoc modifies, assume ensures (never the body)."""
        frame = self.bind(node, recv, args, kwargs, '.' in cc.qual)
        cands = [v for v in self.variants(cc) if v.applies is None or v.applies(frame)]
        if len(cands) != 1:
            raise Unsupported(f'call of {cc.qual}: {len(cands)} contract variants fit this call site')
        cc = cands[0]
        if cc.inline:
            return self.inline(node, None, args, kwargs, recv=recv, cls=cc.qual.split('.')[0] if '.' in cc.qual else None)
        frame['__parent__'] = None
        short = cc.qual.split('.')[-1]
        
        saved_env, saved_old, saved_ghost = self.env, self.old_env, self.ghost_env
        self.env, self.ghost_env = frame, {}
        try:
            if not self.in_spec:
                for label, r in cc.req():
                    saved_spec = self.in_spec
                    self.in_spec += 1
                    try:
                        g = zbool(self.eval(ast.parse(r.strip(), mode='eval').body))
                    finally:
                        self.in_spec = saved_spec
                    self.oblige('call', f'{short}.pre.{label}', g)
            self.old_env = clone_env(frame)
            # raises: "iff" conditions evaluated in the pre-state
            for exc, cond in cc.raises.items():
                if cond is None:
                    raise Unsupported(f'call of {cc.qual}: unconditional raises clause')
                self.in_spec += 1
                try:
                    cz = zbool(self.eval(ast.parse(cond.strip(), mode='eval').body))
                finally:
                    self.in_spec -= 1
                if self.in_spec:
                    self.pc.append(z3.Not(cz)) if False else None
                    continue
                if self.branch(cz):
                    raise PyRaise(exc)
            for exc, (must, may) in cc.raises_bounds.items():
                self.in_spec += 1
                try:
                    mz = zbool(self.eval(ast.parse(must.strip(), mode='eval').body))
                    yz = zbool(self.eval(ast.parse(may.strip(), mode='eval').body))
                finally:
                    self.in_spec -= 1
                if self.in_spec:
                    continue
                raised = fresh('raised', BOOL)
                self.assume(z3.Implies(mz, raised))
                self.assume(z3.Implies(raised, yz))
                if self.branch(raised):
                    raise PyRaise(exc)
            # havoc what the callee may modify
            for m in cc.modifies:
                parts = m.split('.')
                obj = frame[parts[0]]
                for p in parts[1:-1]:
                    obj = obj.f[p]
                if isinstance(obj, Obj):
                    if parts[-1] not in obj.f and m not in cc.mod_types:
                        raise Unsupported(f'call of {cc.qual}: it creates {m}; declare its type in mod_types')
                    obj.f[parts[-1]] = self.havoc_value(obj.f.get(parts[-1]), m, Loop([], [], types=cc.mod_types))
                elif hasattr(obj, 'havoc_attr'):
                    obj.havoc_attr(self, parts[-1], m)
            result = cc.result(self, frame) if cc.result else None
            frame['result'] = result
            self.in_spec += 1
            try:
                for label, p in cc.ens():
                    g = zbool(self.eval(ast.parse(p.strip(), mode='eval').body))
                    if label in cc.regions:
                        continue        # a region-restricted postcondition is not assumed outside its region
                    self.pc.append(g)
            finally:
                self.in_spec -= 1
            return result
        finally:
            self.env, self.old_env, self.ghost_env = saved_env, saved_old, saved_ghost

    # ------------------------------------------------------------------ builtins and library
    def builtin(self, name, args, kwargs, e):
        if name == 'int':
            v = self.num(args[0], e)
            if len(args) > 1:
                if hasattr(v, 'to_int'):
                    return v.to_int(self, args[1])
                if isinstance(v, (int, float, Ratio)) or (z3.is_expr(v) and z3.is_arith(v)):
                    raise PyRaise('TypeError')      # int() can't convert non-string with explicit base
                raise Unsupported('int(x, base)')
            if isinstance(v, bool):
                return int(v)
            if isinstance(v, (int, float)):
                return int(v)
            if hasattr(v, 'to_int'):
                return v.to_int(self, 10)
            if isinstance(v, Ratio):
                return v.trunc()
            z = zint(v)
            return trunc(z) if z.sort() == REAL else z
        if name == 'float':
            v = self.num(args[0], e)
            if isinstance(v, Ratio):
                return v
            if z3.is_expr(v) and v.sort() == INT:
                return Ratio(v, 1)
            if isinstance(v, (int, float)) and not isinstance(v, bool):
                return float(v) if isinstance(v, float) else zreal(v)
            return zreal(v)
        if name == 'bool':
            return self.truth(args[0])
        if name in ('min', 'max'):
            if len(args) == 1:
                if isinstance(args[0], (PyList, tuple)) and not kwargs:
                    args = list(args[0].items if isinstance(args[0], PyList) else args[0])
                    if not args:
                        raise PyRaise('ValueError')         # min() / max() of an empty sequence
                else:
                    raise Unsupported('min/max of a sequence of unknown length')
            r = self.num(args[0], e)
            for x in args[1:]:
                x = self.num(x, e)
                if isinstance(r, (int, float)) and isinstance(x, (int, float)):
                    r = min(r, x) if name == 'min' else max(r, x)
                    continue
                zr, zx = zint(r), zint(x)
                if zr.sort() != zx.sort():
                    zr, zx = zreal(zr), zreal(zx)
                r = z3.If(zr <= zx, zr, zx) if name == 'min' else z3.If(zr >= zx, zr, zx)
            return r
        if name == 'abs':
            v = self.num(args[0], e)
            if isinstance(v, (int, float)):
                return abs(v)
            return z3.If(zint(v) >= 0, zint(v), -zint(v))
        if name == 'len':
            v = args[0]
            if isinstance(v, (tuple, str, dict, bytes)):
                return len(v)
            if isinstance(v, PyList):
                return len(v.items)
            if isinstance(v, (ArrList, SeqFn)):
                return v.length
            if isinstance(v, SeqView):
                return z3.If(zint(v.base.length) >= zint(v.lo), zint(v.base.length) - zint(v.lo), 0)
            if isinstance(v, Slice):
                return zint(v.hi) - zint(v.lo)
            if hasattr(v, 'len'):
                return v.len(self)
            if isinstance(v, Obj) and '__len__' in v.f:
                return v.f['__len__']
            if isinstance(v, Obj) and self.find_contract(v.cls, '__len__') is not None:
                return self.call_contract_or_inline(self.find_contract(v.cls, '__len__'), v, [], {})
            if isinstance(v, bytes):
                return len(v)
            raise Unsupported(f'len of {v!r}')
        if name == 'round':
            v = self.num(args[0], e)
            if len(args) > 1:
                raise Unsupported('round(x, n)')
            if isinstance(v, int):
                return v
            if isinstance(v, Ratio):
                # nearest integer r: |r*den - num| * 2 <= |den| (ties: either neighbour) - integer arithmetic
                r = fresh('round')
                n, d = zint(v.num), zint(v.den)
                ad = z3.If(d >= 0, d, -d)
                diff = r * d - n
                self.assume(z3.And(2 * diff <= ad, -2 * diff <= ad))
                return r
            z = zint(v)
            if z.sort() == INT:
                return z
            # nearest integer; ties (round-half-even) are over-approximated: either neighbour
            r = fresh('round')
            self.assume(z3.And(z3.ToReal(r) - z <= z3.RealVal('1/2'), z - z3.ToReal(r) <= z3.RealVal('1/2')))
            return r
        if name == 'isinstance':
            v, t = args[0], e.args[1]
            tn = [ast.unparse(x) for x in (t.elts if isinstance(t, ast.Tuple) else [t])]
            return self.isinstance(v, tn)
        if name == 'bytes' and len(args) == 2 and isinstance(args[0], str) and args[1] in ('utf-8', 'ascii'):
            return bytes(args[0], args[1])
        if name == 'str' and len(args) == 2 and isinstance(args[0], bytes) and args[1] in ('utf-8', 'ascii'):
            try:
                return str(args[0], args[1])
            except UnicodeDecodeError:
                raise PyRaise('UnicodeDecodeError')
        if name == 'str' and len(args) == 1 and isinstance(args[0], (int, float, str)) and not isinstance(args[0], bool):
            return str(args[0])
        if name == 'str':
            from .models.bytesmodel import BSeq, B64Text
            if args and isinstance(args[0], (BSeq, B64Text)) and len(args) == 2 and args[1] == 'ascii':
                return args[0]          # str(<hex / base64 bytes>, 'ascii'): same characters
            return Opaque('str')
        if name == 'bytearray':
            from .models.bytesmodel import BSeq
            if isinstance(args[0], int):
                return BSeq([z3.BitVecVal(0, 8)] * args[0], 'bytearray')
            if isinstance(args[0], BSeq):
                return BSeq(args[0].items, 'bytearray')
            raise Unsupported('bytearray(...)')
        if name == 'memoryview' and (isinstance(args[0], Slice) or type(args[0]).__name__ == 'BitsBytes'):
            return args[0]
        if name == 'enumerate' and isinstance(args[0], (PyList, tuple, list)) and len(args) <= 2 and \
                all(isinstance(x, int) for x in args[1:]) and not (set(kwargs) - {'start'}):
            items = args[0].items if isinstance(args[0], PyList) else list(args[0])
            start = args[1] if len(args) == 2 else kwargs.get('start', 0)
            return PyList([(start + k, x) for k, x in enumerate(items)])
        if name == 'list' and len(args) == 1 and isinstance(args[0], PyList):
            return PyList(list(args[0].items))
        if name in ('frozenset', 'set') and len(args) <= 1 and not kwargs and (not args or (
                isinstance(args[0], (PyList, tuple, list, set, frozenset)) and
                all(isinstance(x, (str, int)) for x in (args[0].items if isinstance(args[0], PyList) else args[0])))):
            items = () if not args else (args[0].items if isinstance(args[0], PyList) else args[0])
            return frozenset(items) if name == 'frozenset' else PyList(list(dict.fromkeys(items)))
        if name == 'range' and 1 <= len(args) <= 3 and not kwargs:
            if all(isinstance(a, int) for a in args):
                return PyList(list(range(*args)))
            if len(args) == 3:
                return self.sym_range(args)
            lo, hi = (0, args[0]) if len(args) == 1 else (args[0], args[1])
            return SymRange(lo, hi, 1, True)
        if name == 'enumerate' and 1 <= len(args) <= 2 and hasattr(args[0], 'length') and hasattr(args[0], 'elem') \
                and all(isinstance(x, int) for x in args[1:]) and not (set(kwargs) - {'start'}):
            return EnumSeq(args[0], args[1] if len(args) == 2 else kwargs.get('start', 0))
        if name == 'sorted' and len(args) == 1 and not kwargs:
            items = args[0].items if isinstance(args[0], PyList) else (list(args[0]) if isinstance(args[0], (tuple, list, set, frozenset, dict)) else None)
            if items is not None and (all(type(x) is str for x in items) or all(type(x) is int for x in items)):
                return PyList(sorted(items))        # concrete keys: plain execution
            raise Unsupported('sorted() of symbolic items')
        if name == 'map' and len(args) == 2 and isinstance(args[1], (PyList, tuple, list)) and not kwargs:
            # map(f, xs) over a list of known length; evaluated eagerly (every use in scope consumes it at once)
            items = args[1].items if isinstance(args[1], PyList) else list(args[1])
            return PyList([self.call_value(args[0], [x], {}, e) for x in items])
        if name == 'list' and len(args) == 1 and isinstance(args[0], (str, tuple)):
            return PyList(list(args[0]))
        if name == 'ord' and isinstance(args[0], (str, bytes)) and len(args[0]) == 1:
            return ord(args[0])
        if name == 'chr' and isinstance(args[0], int):
            return chr(args[0])
        if name == 'ord' and type(args[0]).__name__ == 'Packed':
            if args[0].n != 1:
                raise PyRaise('TypeError')
            return zint(args[0].u)
        if name == 'divmod':
            a, b = zint(args[0]), zint(args[1])
            self.oblige('safety', 'div:divmod', b != 0)
            return (floordiv(a, b), pymod(a, b))
        return NotImplemented

    def isinstance(self, v, names):
        kinds = set()
        for n in names:
            kinds.add(n.split('.')[-1])
        if isinstance(v, str):
            return 'str' in kinds
        if isinstance(v, TD):
            return 'timedelta' in kinds
        if isinstance(v, DT):
            return 'datetime' in kinds
        if isinstance(v, bool) or z3.is_bool(v):
            return bool(kinds & {'bool', 'int'})
        if isinstance(v, int) or (z3.is_expr(v) and v.sort() == INT):
            return 'int' in kinds
        if isinstance(v, float) or (z3.is_expr(v) and v.sort() == REAL):
            return 'float' in kinds
        if isinstance(v, Obj):
            cur = [v.cls]
            while cur:
                c = cur.pop()
                if c in kinds:
                    return True
                cur.extend(self.bases.get(c, []))
            return False
        if v is None:
            return False
        if isinstance(v, (bytes, bytearray)):
            return bool(kinds & {'bytes', 'bytearray'})
        if isinstance(v, dict):
            return 'dict' in kinds
        if isinstance(v, (PyList, ArrList, SeqFn)):
            return 'list' in kinds
        if isinstance(v, tuple):
            return 'tuple' in kinds
        if hasattr(v, 'py_types'):
            return bool(kinds & set(v.py_types))        # a model object says which Python types it stands for
        raise Unsupported(f'isinstance of {v!r}')

    def library(self, ftxt, e):
        if ftxt in ('math.floor', 'floor', 'math.ceil'):
            args, _ = self.args(e)
            v = self.num(args[0], e)
            if isinstance(v, int):
                return v
            if isinstance(v, Ratio):
                return v.floor() if ftxt != 'math.ceil' else -Ratio(-zint(v.num), v.den).floor()
            z = zint(v)
            if z.sort() == INT:
                return z
            if ftxt == 'math.ceil':
                return -z3.ToInt(-z)
            return z3.ToInt(z)
        if ftxt in ('datetime.timedelta', 'timedelta'):
            args, kw = self.args(e)
            if args:
                kw = dict(kw)
                for nm, v in zip(('days', 'seconds', 'microseconds'), args):
                    kw[nm] = v
            total = z3.IntVal(0)
            unit = {'days': 86400 * 10**6, 'seconds': 10**6, 'microseconds': 1, 'milliseconds': 1000,
                    'minutes': 60 * 10**6, 'hours': 3600 * 10**6, 'weeks': 7 * 86400 * 10**6}
            for k, v in kw.items():
                v = self.num(v, e)
                if isinstance(v, Ratio):
                    # nearest microsecond u of (num/den)*unit: |u*den - num*unit| * 2 <= |den|
                    u = fresh('td_us')
                    n, d = zint(v.num) * unit[k], zint(v.den)
                    ad = z3.If(d >= 0, d, -d)
                    diff = u * d - n
                    self.assume(z3.And(2 * diff <= ad, -2 * diff <= ad))
                    total = total + u
                    continue
                z = zint(v)
                if z.sort() == REAL:
                    # timedelta rounds to the nearest microsecond (half-even over-approximated by "nearest")
                    u = fresh('td_us')
                    exact = z * unit[k]
                    self.assume(z3.And(z3.ToReal(u) - exact <= z3.RealVal('1/2'), exact - z3.ToReal(u) <= z3.RealVal('1/2')))
                    total = total + u
                else:
                    total = total + z * unit[k]
            return TD(z3.simplify(total))
        if ftxt == 'datetime.datetime':
            args, kw = self.args(e)
            if all(isinstance(a, int) for a in args) and set(kw) <= {'tzinfo'}:
                import datetime as _dt
                v = _dt.datetime(*args, tzinfo=_dt.timezone.utc) - _dt.datetime(1970, 1, 1, tzinfo=_dt.timezone.utc)
                return DT(z3.IntVal(v // _dt.timedelta(microseconds=1)))
            raise Unsupported('datetime.datetime(...) with symbolic fields')
        if ftxt == 'str.maketrans':
            args, kw = self.args(e)
            if not kw and all(isinstance(a, (str, dict)) for a in args):
                return str.maketrans(*args)
            raise Unsupported('str.maketrans of symbolic text')
        if ftxt in ('binascii.b2a_hex', 'binascii.a2b_hex', 'SHA256.new', 'AES.new', 'base64.b64encode', 'base64.b64decode'):
            from .models import bytesmodel as bm
            args, kw = self.args(e)
            if ftxt == 'base64.b64encode' and len(args) == 1 and not kw:
                return bm.b64encode(args[0])
            if ftxt == 'base64.b64decode' and len(args) == 1 and not kw:
                return bm.b64decode(self, args[0])
            if ftxt.startswith('base64.'):
                raise Unsupported(f'{ftxt} with options')
            if ftxt == 'binascii.b2a_hex':
                return bm.b2a_hex(args[0])
            if ftxt == 'binascii.a2b_hex':
                return bm.a2b_hex(self, args[0])
            if ftxt == 'SHA256.new':
                h = bm.ShaModel()
                if args:
                    h.method(self, 'update', [args[0]], {}, e)
                return h
            return bm.AesModel(args[0])
        if ftxt in ('struct.pack', 'struct.unpack'):
            from .models import trace as tr
            args, kw = self.args(e)
            return tr.struct_pack(self, e, args) if ftxt == 'struct.pack' else tr.struct_unpack(self, e, args)
        if ftxt == 'time.time':
            return fresh('time', REAL)
        if ftxt == 'io.BytesIO' and not e.args:
            from .models.bufreader import BytesIOModel
            return BytesIOModel()
        return NotImplemented

    def dt_replace(self, dt, kw):
        us = zint(dt.us)
        keys = set(kw)
        D = 86400 * 10**6
        p = dt.parts
        if keys == {'microsecond'} and kw['microsecond'] == 0:
            if p is not None:
                return DT(D * zint(p[0]) + 10**6 * zint(p[1]), (p[0], p[1], 0))
            return DT(us - pymod(us, z3.IntVal(10**6)))
        if keys == {'hour', 'minute', 'second', 'microsecond'} and all(kw[k] == 0 for k in keys):
            if p is not None:
                return DT(D * zint(p[0]), (p[0], 0, 0))
            return DT(us - pymod(us, z3.IntVal(D)))
        day = zint(p[0]) if p is not None else floordiv(us, z3.IntVal(D))
        if keys == {'hour', 'minute', 'second'}:
            # same day and microsecond, new time of day (datetime.replace rejects out-of-range fields with ValueError)
            h, m, sec = (zint(kw[k]) for k in ('hour', 'minute', 'second'))
            if not self.branch(z3.And(0 <= h, h < 24, 0 <= m, m < 60, 0 <= sec, sec < 60)):
                raise PyRaise('ValueError')
            usec = zint(p[2]) if p is not None else pymod(us, z3.IntVal(10**6))
            sod = 3600 * h + 60 * m + sec
            return DT(D * day + 10**6 * sod + usec, (day, sod, usec))
        if keys == {'day', 'hour', 'minute', 'second', 'microsecond'} and kw['day'] == 1 and all(kw[k] == 0 for k in keys - {'day'}):
            ms = self.world['month_start'](day)
            return DT(ms * D, (ms, 0, 0))
        if keys == {'month', 'day', 'hour', 'minute', 'second', 'microsecond'} and kw['day'] == 1 and kw['month'] == 1 \
                and all(kw[k] == 0 for k in keys - {'day', 'month'}):
            ys = self.world['year_start'](day)
            return DT(ys * D, (ys, 0, 0))
        raise Unsupported(f'datetime.replace({sorted(keys)})')

    # ------------------------------------------------------------------ spec vocabulary
    def spec_call(self, ftxt, e):
        if ftxt == 'bound' and len(e.args) == 1 and isinstance(e.args[0], ast.Constant) and isinstance(e.args[0].value, str):
            # bound('x'): is the local x assigned on this path yet?  lets an invariant speak about a temporary only where the
            # code has one (`(x == ...) if bound('x') else True`)
            found = self.lookup_scope(e.args[0].value) is not None
            if not found:
                # the clause falls away for this code: what fails from here on is trusted only if it replays natively
                self.weakened_by = e.args[0].value
            return found
        if ftxt in ('forall', 'exists'):
            lam, lo, hi = e.args
            if not isinstance(lam, ast.Lambda):
                raise Unsupported('forall needs a lambda')
            names = [a.arg for a in lam.args.args]
            vs = [fresh(nm) for nm in names]
            lo_v = zint(self.eval(lo))
            hi_raw = self.eval(hi)
            hi_v = None if hi_raw is None else zint(hi_raw)
            saved = self.env
            frame = dict(saved)
            frame.update(dict(zip(names, vs)))
            self.env = frame
            try:
                body = zbool(self.eval(lam.body))
            finally:
                self.env = saved
            rng = z3.And(*[(lo_v <= v) if hi_v is None else z3.And(lo_v <= v, v < hi_v) for v in vs])
            if ftxt == 'exists':
                return z3.Exists(vs, z3.And(rng, body))
            pats = _patterns(body, vs)
            while pats:
                try:
                    return z3.ForAll(vs, z3.Implies(rng, body), patterns=pats)
                except z3.Z3Exception:
                    pats = pats[:-1]        # z3 rejects some shapes (e.g. an ite inside a trigger): drop and retry
            return z3.ForAll(vs, z3.Implies(rng, body))
        if ftxt == 'implies':
            return z3.Implies(zbool(self.eval(e.args[0])), zbool(self.eval(e.args[1])))
        if ftxt == 'old':
            saved = self.env
            frame = dict(self.old_env)
            frame['__parent__'] = None
            self.env = frame
            try:
                return self.eval(e.args[0])
            finally:
                self.env = saved
        if ftxt == 'length':
            v = self.eval(e.args[0])
            return self.builtin('len', [v], {}, e)
        if ftxt == 'is_none':
            v = self.eval(e.args[0])
            return v.isnone if isinstance(v, Opt) else (v is None)
        return NotImplemented


class Poison:
    def __init__(self, name):
        self.name = name


class SymRange:
    """range(start, stop, step) with symbolic bounds and a step whose sign is known on the path (only iterated / enumerated)"""

    def __init__(self, start, stop, step, positive):
        self.start, self.stop, self.step = zint(start), zint(stop), zint(step)
        span = (self.stop - self.start) if positive else (self.start - self.stop)
        mag = self.step if positive else -self.step
        n = floordiv(span + mag - 1, mag)
        self.length = z3.If(n > 0, n, z3.IntVal(0))

    def elem(self, idx):
        return self.start + zint(idx) * self.step


class EnumSeq:
    """enumerate(xs[, start]) of a sequence with length / elem"""

    def __init__(self, base, first=0):
        self.base, self.first, self.length = base, first, base.length

    def elem(self, idx):
        return (zint(idx) + self.first, self.base.elem(idx))


class SeqView:
    """xs[lo:] of a symbolic list (only iterated or measured)."""

    def __init__(self, base, lo):
        self.base, self.lo = base, lo
