"""Developer driver: python3-vt -m pyvc.dev <group> [function-substring] [--repo DIR] [--unroll K]"""
import importlib
import sys
import time

from .engine import Engine
from .solve import discharge


def main():
    args = [a for a in sys.argv[1:] if not a.startswith('--')]
    opts = {a.split('=')[0]: (a.split('=') + ['1'])[1] for a in sys.argv[1:] if a.startswith('--')}
    repo = opts.get('--repo', '/repo')
    g = importlib.import_module(f'contracts.{args[0]}').GROUP
    w = g.world()
    w['__repo__'] = repo
    from .check import make_registry
    registry = make_registry(g)
    eng = Engine(repo, w, registry, bases=w.get('__bases__', {}))
    obs, wts = [], []
    t0 = time.time()
    for c in g.contracts:
        if len(args) > 1 and args[1] not in c.label:
            continue
        if c.inline and not c.ensures:
            continue
        o = eng.verify(c, unroll=int(opts.get('--unroll', 0)))
        print(f'{c.label}: {len(o)} obligations')
        obs += o
        wt = c.witness_terms(w) if c.witness_terms else None
        wts += [wt] * len(o)
    for lm in g.lemmas:
        if len(args) > 1 and args[1] not in lm.name:
            continue
        from .engine import Obligation
        from .check import lemma_steps
        for suffix, pc, goal in lemma_steps(lm, w):
            obs.append(Obligation(f'lemma.{lm.name}{suffix}', 'canary' if lm.canary else 'lemma', pc, goal, lm.props, 'lemma', ''))
            wts.append(lm.witness_terms(w) if lm.witness_terms else None)
    t1 = time.time()
    discharge(obs, wts, timeout_ms=int(opts.get('--timeout', 20000)))
    bad = 0
    for ob in obs:
        r = ob.result
        ok = (r['status'] == 'unsat') != (ob.kind == 'canary')
        if not ok or '--all' in opts:
            print(f"{'ok ' if ok else 'BAD'} {r['status']:8s}{r['ms']:6d}ms {r['backend']:7s} {ob.name} @{ob.path}")
            if not ok:
                bad += 1
                m = r.get('model')
                if m:
                    print('      ', {k: v for k, v in m.items() if '!' not in k})
    print(f'{len(obs)} obligations, {bad} bad; gen {t1 - t0:.1f}s solve {time.time() - t1:.1f}s; {eng.stats}')


if __name__ == '__main__':
    main()
