"""Property check driver.

  python3-vt -m pyvc.check <PROPERTY-ID> [--tier quick|thorough] [--repo DIR] [--seed N]
  python3-vt -m pyvc.check --replay <file>

Exit 0: every obligation generated from the working tree was discharged (known findings are
        printed as KNOWN-FINDING lines).
Exit 1: an obligation is not discharged -> `VIOLATION property=<id> replay=<path>` (+ the words
        no-failing-input-found when no input replays natively).
Exit 3: checker error (source no longer matches the sidecar, vacuous contract, engine crash):
        `UNDECIDED property=<id> reason=...`; no verdict.
"""
import importlib
import json
import os
import re
import subprocess
import sys
import time
import traceback

import z3

from .contract import Contract
from .engine import Engine, Obligation, Source, fn_hash
from .solve import discharge
from .vals import Unsupported

VERIF = os.path.dirname(os.path.dirname(os.path.abspath(__file__)))
NATIVE_PY = '/venv/bin/python'


def load_groups(prop):
    reg = importlib.import_module('contracts')
    names = reg.PROPERTY_GROUPS.get(prop)
    if names is None:
        raise SystemExit(f'unknown property {prop}')
    return [importlib.import_module(f'contracts.{n}').GROUP for n in names], reg


def lemma_steps(lm, w):
    """A lemma is one obligation or a chain of steps (a later step may assume an earlier step's goal)."""
    r = lm.build(w)
    if isinstance(r, tuple):
        return [('', r[0], r[1])]
    return [('.' + name, pc, goal) for name, pc, goal in r]


def make_registry(group):
    registry = {}
    for c in list(group.contracts) + list(group.callees):
        registry.setdefault(c.qual, []).append(c)
    return registry


def native(requests, repo):
    """Run the native replay protocol; returns a list of responses (or error stubs)."""
    if not requests:
        return []
    env = dict(os.environ, PYVC_REPO=repo, PYTHONPATH='')
    env.pop('PYTHONHOME', None)
    try:
        p = subprocess.run([NATIVE_PY, os.path.join(VERIF, 'replay', 'native.py')], input=json.dumps(requests),
                           capture_output=True, text=True, timeout=600, env=env, cwd=VERIF)
        return json.loads(p.stdout)
    except Exception as err:
        return [{'status': 'build_error', 'error': f'native harness: {err!r}',
                 'trace': (getattr(err, 'stderr', '') or '')[-500:]} for _ in requests]


def request_for(group, c, inputs):
    return {'group': group.name, 'key': c.key, 'variant': c.variant, 'inputs': inputs,
            'requires': [list(x) for x in c.req()],
            'ensures': [list(x) for x in c.ens() if x[0] not in c.regions] +
                       [[lab, f'({txt}) if ({c.regions[lab]}) else True'] for lab, txt in c.ens() if lab in c.regions],
            'raises': c.raises, 'raises_bounds': {k: list(v) for k, v in c.raises_bounds.items()}, 'post_on_raise': {k: [list(x) for x in v] for k, v in c.post_on_raise.items()},
            'native_ghost': c.native_ghost, 'native_override': getattr(c, 'native_override', {}) or {}}


class Checker:
    def __init__(self, prop, tier, repo, seed):
        self.prop, self.tier, self.repo, self.seed = prop, tier, repo, seed
        # the same per-query budget in both tiers: z3's strategy depends on the timeout it is given (a lemma proved in 0.2 s
        # with a 20 s budget ran out a 120 s budget), so a longer budget must never replace the short one - the thorough tier
        # adds the second back end, more cross-check inputs and the mutation run instead (the ladder's 4x step stays)
        self.timeout = 20000
        self.lines = []
        self.t0 = time.time()

    def say(self, s):
        print(s, flush=True)
        self.lines.append(s)

    # ------------------------------------------------------------------ generation
    def generate(self):
        groups, reg = load_groups(self.prop)
        self.groups, self.reg = groups, reg
        self.items = []         # (group, contract-or-lemma, obligation)
        self.functions = []
        self.engines = {}
        self.vacuity = []
        self.deferred = []
        for g in groups:
            w = g.world()
            w['__repo__'] = self.repo            # lemmas generated from the source text read THIS tree
            eng = Engine(self.repo, w, make_registry(g), bases=w.get('__bases__', {}))
            self.engines[g.name] = (eng, w)
            for c in g.contracts:
                if self.prop not in c.props or (c.inline and not c.ensures):
                    continue
                try:
                    obs = eng.verify(c)
                except Unsupported as err:
                    # this function cannot be decided on this tree; the other contracts are still checked, so that a
                    # violation elsewhere is reported as a violation - without one the verdict is UNDECIDED (exit 3)
                    self.deferred.append((c.label, str(err)))
                    continue
                node = eng.fn
                self.functions.append({'function': c.key, 'variant': c.variant, 'source_sha': fn_hash(node),
                                       'lines': [node.lineno, node.end_lineno], 'obligations': len(obs),
                                       'bounded_unroll': c.unroll or None})
                if not obs:
                    raise Unsupported(f'{c.label}: zero obligations generated')
                self.vacuity.append((g, c, eng, w))
                wt = c.witness_terms(w) if c.witness_terms else None
                for ob in obs:
                    self.items.append((g, c, ob, wt))
            for lm in g.lemmas:
                if self.prop not in lm.props:
                    continue
                for suffix, pc, goal in lemma_steps(lm, w):
                    ob = Obligation(f'lemma.{lm.name}{suffix}', 'canary' if lm.canary else 'lemma', list(pc), goal,
                                    lm.props, 'lemma', '')
                    self.items.append((g, lm, ob, lm.witness_terms(w) if lm.witness_terms else None))

    def check_vacuity(self):
        """Every precondition must be satisfiable (a contradictory `requires` proves anything)."""
        out = []
        for g, c, eng, w in self.vacuity:
            eng.c = c
            eng.pc, eng.in_spec, eng.ghost_env = [], 0, {}
            eng.env = c.env(w)
            eng.old_env = eng.env
            from .engine import _has_quantifier
            s = z3.Solver()
            s.set('timeout', 5000)
            # quantified axioms are left out (a subset of the hypotheses being satisfiable is what can be decided
            # quickly; the quantified ones are the standard prefix-sum / calendar axioms)
            for label, r in c.req():
                v = eng.spec(r)
                v = z3.BoolVal(v) if isinstance(v, bool) else v
                if not _has_quantifier(v):
                    s.add(v)
            for r in c.defs:
                v = eng.spec(r)
                if not _has_quantifier(v):
                    s.add(v)
            r = s.check()
            out.append({'function': c.label, 'requires_satisfiable': str(r)})
            if r == z3.unsat:
                raise Unsupported(f'{c.label}: precondition is unsatisfiable (vacuous contract)')
        for g, lm, ob, _ in self.items:
            if ob.kind == 'lemma':
                from .engine import _has_quantifier
                s = z3.Solver()
                s.set('timeout', 5000)
                s.add(*[h for h in ob.pc if not _has_quantifier(h)])
                r = s.check()
                out.append({'lemma': ob.name, 'hypotheses_satisfiable(qf part)': str(r)})
                if r == z3.unsat:
                    raise Unsupported(f'{ob.name}: hypotheses are contradictory (vacuous lemma)')
        return out

    # ------------------------------------------------------------------ cross-check against CPython
    def crosscheck(self, per_contract):
        """Guard against an unsound encoding / a contract that only holds in the model: random concrete inputs that
        satisfy a contract's precondition are run through the REAL function natively and every clause the verifier
        proved is evaluated on the real result.  A clause that fails natively voids the run (checker error)."""
        import random
        rnd = random.Random(1000 + self.seed)
        reqs, meta = [], []
        for g, c, eng, w in self.vacuity:
            if c.witness_terms is None or c.unroll:
                continue
            eng.c = c
            eng.pc, eng.in_spec, eng.ghost_env = [], 0, {}
            eng.env = c.env(w)
            eng.top_env = eng.env
            eng.old_env = eng.env
            hyps = []
            for label, r in c.req():
                v = eng.spec(r)
                hyps.append(z3.BoolVal(v) if isinstance(v, bool) else v)
            for r in c.defs:
                hyps.append(eng.spec(r))
            wt = c.witness_terms(w)
            consts = set()

            def collect(t):
                if z3.is_const(t) and t.decl().kind() == z3.Z3_OP_UNINTERPRETED and t.sort() == z3.IntSort():
                    consts.add(t)
                for ch in t.children():
                    collect(ch)
            for h in hyps:
                if not z3.is_quantifier(h):
                    collect(h)
            consts = sorted(consts, key=str)
            seen = []
            for k in range(per_contract * 3):
                if len(seen) >= per_contract:
                    break
                s = z3.Solver()
                s.set('timeout', 1000)
                s.set('random_seed', rnd.randint(0, 10 ** 6))
                from .engine import _has_quantifier
                # quantified axioms are replaced by their instances at 0..8 (list sizes are kept small below); the
                # native side re-checks the full precondition on the concrete input anyway
                s.add(*[h for h in hyps if not _has_quantifier(h)])
                for h in hyps:
                    if _has_quantifier(h):
                        for conj in (h.children() if z3.is_and(h) else [h]):
                            if z3.is_quantifier(conj) and conj.is_forall() and conj.num_vars() == 1:
                                s.add(*[z3.substitute_vars(conj.body(), z3.IntVal(v)) for v in range(0, 9)])
                            elif not _has_quantifier(conj):
                                s.add(conj)
                for cst in consts:
                    if str(cst) in ('n', 'np', 'nseg', 'ref_n', 'na'):
                        s.add(cst >= 0, cst <= rnd.choice([2, 3, 5, 7]))
                        continue
                    hi = rnd.choice([3, 12, 100, 5000, 10 ** 6])
                    s.add(cst >= -hi // 4, cst <= hi)
                    if rnd.random() < 0.35:
                        s.add(cst >= rnd.randint(0, hi // 2))
                if s.check() != z3.sat:
                    continue
                m = s.model()
                from .solve import _val
                try:
                    inputs = wt(lambda t: _val(m.eval(t, model_completion=True)))
                except Exception:
                    continue
                if inputs in seen:
                    continue
                seen.append(inputs)
                reqs.append(request_for(g, c, inputs))
                meta.append((c.label, inputs))
        out = {'inputs': len(reqs), 'held': 0, 'precondition_not_realised': 0, 'build_errors': 0, 'disagreements': []}
        for (label, inputs), r in zip(meta, native(reqs, self.repo)):
            st = r.get('status')
            if st == 'holds':
                out['held'] += 1
            elif st == 'precondition_false':
                out['precondition_not_realised'] += 1
            elif st == 'violated':
                out['disagreements'].append({'function': label, 'inputs': inputs, 'violated': r.get('violated'),
                                             'observed': r.get('observed', '')[:300]})
            else:
                out['build_errors'] += 1
                if len(out.setdefault('error_samples', [])) < 6:
                    out['error_samples'].append({'function': label, 'status': st, 'error': (r.get('error') or json.dumps(r.get('clause_errors')))[:300]})
        return out

    # ------------------------------------------------------------------ verdicts
    def run(self):
        try:
            self.generate()
            vac = self.check_vacuity()
        except Unsupported as err:
            return self.undecided(str(err))
        except Exception as err:
            return self.undecided('engine crash: ' + repr(err) + ' ' + traceback.format_exc()[-800:].replace('\n', ' | '))
        self.phase = {'generate_s': round(time.time() - self.t0, 1)}
        bounded_procs = self.start_bounded()
        obs = [it[2] for it in self.items]
        t1 = time.time()
        discharge(obs, [it[3] for it in self.items], timeout_ms=self.timeout,
                  second_backend=(self.tier == 'thorough'))
        self.phase['solve_s'] = round(time.time() - t1, 1)
        real = [it for it in self.items if it[2].kind != 'canary']
        canaries = [it for it in self.items if it[2].kind == 'canary']
        failed = [it for it in real if it[2].result['status'] != 'unsat']
        # declared canaries: a false postcondition must fail on at least one path
        can = {}
        for g, c, ob, _ in canaries:
            k = ob.name
            can.setdefault(k, []).append(ob.result['status'])
        canary_report = {k: ('refuted' if any(s != 'unsat' for s in v) else 'DISCHARGED') for k, v in can.items()}
        disagree = [it[2].name for it in real if it[2].result.get('cvc5') == 'sat']
        if disagree:
            return self.undecided('back ends disagree (z3 unsat, cvc5 sat) on ' + ', '.join(disagree[:3]))
        violations = self.triage(failed) if failed else []
        violations += self.finish_bounded(bounded_procs)
        if self.deferred:
            reason = '; '.join(f'{lab}: {why}' for lab, why in self.deferred[:3])
            if not violations:
                return self.undecided(reason)
            self.say(f'NOTE: not decided on this tree (reported next to the violations above): {reason[:400]}')
        try:
            known = self.known_findings()
        except Unsupported as err:
            if not violations:
                return self.undecided(str(err))
            self.say(f'NOTE: {str(err)[:300]}')
            known = []
        if not violations and not getattr(self, 'no_evidence', False):
            try:
                cc = self.crosscheck(4 if self.tier == 'quick' else 60)
            except Exception as err:
                cc = {'error': repr(err), 'disagreements': []}
            self.extra_evidence = dict(getattr(self, 'extra_evidence', None) or {}, crosscheck=cc)
            if cc['disagreements']:
                d = cc['disagreements'][0]
                self.write_evidence(real, canary_report, vac, violations, known,
                                    error='cross-check disagreement: a proved clause fails on the real code')
                self.say(f"UNDECIDED property={self.prop} reason=cross-check: proved clause {d['violated']} of {d['function']} "
                         f"fails natively for {json.dumps(d['inputs'])[:300]} -> {d['observed'][:200]}")
                return 3
        if self.tier == 'thorough' and not getattr(self, 'no_evidence', False) and not violations:
            self.mutation_run()
        self.write_evidence(real, canary_report, vac, violations, known)
        if violations:
            return 1
        bad_canaries = [k for k, v in canary_report.items() if v == 'DISCHARGED']
        if bad_canaries:
            # informational only: a code change can legitimately make a deliberately false clause true
            self.say('NOTE: canary clause now provable: ' + ', '.join(bad_canaries))
        return 0

    def mutation_run(self):
        """thorough tier: hand-picked property-breaking edits on a scratch copy (tools_mutants.py); the kill table goes
        into the evidence and NEVER changes the exit code (survivors are a to-do for the contracts, or equivalent edits)"""
        try:
            p = subprocess.run(['python3', os.path.join(VERIF, 'tools_mutants.py'), self.prop, '--limit',
                                os.environ.get('PYVC_MUTANT_LIMIT', '8')], cwd=VERIF, capture_output=True, text=True,
                               timeout=3 * 3600)
            table = [json.loads(l) for l in p.stdout.splitlines() if l.startswith('{')]
        except Exception as err:
            table = [{'error': repr(err)}]
        self.extra_evidence = dict(getattr(self, 'extra_evidence', None) or {}, mutation_run=table)

    # ------------------------------------------------------------------ bounded stand-ins
    def start_bounded(self):
        procs = []
        for g in self.groups:
            for b in g.bounded:
                if self.prop not in b['props']:
                    continue
                cmd = [a.replace('{tier}', self.tier).replace('{repo}', self.repo) for a in b['cmd']]
                env = dict(os.environ, PYTHONPATH='')
                procs.append((b, subprocess.Popen(cmd, cwd=VERIF, stdout=subprocess.PIPE, stderr=subprocess.PIPE,
                                                  text=True, env=env)))
        return procs

    def finish_bounded(self, procs):
        violations = []
        self.bounded_results = []
        for b, p in procs:
            out, err = p.communicate(timeout=3600)
            try:
                results = json.loads(out)
            except Exception:
                raise Unsupported(f"bounded stand-in {b['name']} crashed: {err[-400:]}")
            for r in results:
                r['label'] = 'bounded (not counted as proved)'
                self.bounded_results.append(r)
                if r['failures']:
                    os.makedirs(os.path.join(VERIF, 'replays'), exist_ok=True)
                    path = os.path.join(VERIF, 'replays', f"{self.prop}-bounded-{r['name']}.json")
                    json.dump({'property': self.prop, 'bounded_check': r['name'], 'bound': r['bound'],
                               'failures': r['failures'], 'examples': r['examples'], 'rerun': b['cmd']},
                              open(path, 'w'), indent=1, default=str)
                    self.say(f'VIOLATION property={self.prop} replay={path}')
                    self.say(f"  bounded stand-in {r['name']}: {r['failures']} of {r['cases']} cases fail, e.g. {json.dumps(r['examples'][:1], default=str)[:300]}")
                    violations.append({'obligation': 'bounded:' + r['name'], 'replay': path, 'confirmed': True})
        return violations

    def undecided(self, reason):
        self.say(f'UNDECIDED property={self.prop} reason={reason}')
        self.write_evidence([], {}, [], [], [], error=reason)
        return 3

    def triage(self, failed):
        """Group failed VCs by obligation name, replay every model natively, then fall back to the
        bounded-unrolling counterexample finder; report one VIOLATION line per obligation."""
        os.makedirs(os.path.join(VERIF, 'replays'), exist_ok=True)
        by_name = {}
        for it in failed:
            by_name.setdefault((it[1].label if isinstance(it[1], Contract) else it[1].name, it[2].name), []).append(it)
        violations = []
        finder_cache = {}
        searched = set()
        for (clabel, oname), its in sorted(by_name.items()):
            g, c, _, _ = its[0]
            solver_out = [{'path': it[2].path, 'status': it[2].result['status'], 'backend': it[2].result['backend'],
                           'ms': it[2].result['ms'], 'reason': it[2].result.get('reason'),
                           'model': {k: v for k, v in (it[2].result.get('model') or {}).items() if '!' not in k}}
                          for it in its]
            confirmed = None
            tried = []
            if isinstance(c, Contract):
                inputs = []
                for it in its:
                    m = (it[2].result.get('model') or {}).get('__witness__')
                    if m is not None and m not in inputs:
                        inputs.append(m)
                resp = native([request_for(g, c, i) for i in inputs], self.repo)
                for i, r in zip(inputs, resp):
                    tried.append({'inputs': i, 'native': r})
                    if r.get('status') == 'violated' and confirmed is None:
                        confirmed = (i, r)
                if confirmed is None:
                    confirmed = self.bounded_finder(g, c, finder_cache, tried)
                if confirmed is None and (g.name, c.label) not in searched:
                    searched.add((g.name, c.label))
                    seeds = inputs[:3] or [{}]
                    for i, r in zip(seeds, native([{'group': g.name, 'key': c.key, 'variant': c.variant, 'inputs': i,
                                                     'search': True} for i in seeds], self.repo)):
                        if r.get('status') == 'violated':
                            confirmed = (r.get('scenario', i), r)
                            break
            weak = [it[2].info.get('weakened_by') for it in its if isinstance(getattr(it[2], 'info', None), dict) and it[2].info.get('weakened_by')]
            if weak and len(weak) == len(its) and not confirmed:
                # every failing instance depends on an invariant clause that fell away because the code no longer has the
                # temporary it names (bound('x') false): without a native witness this is "cannot decide", not a violation
                self.deferred.append((clabel, f'{oname} fails only after the invariant clause about `{weak[0]}` fell away, and no '
                                              'input reproduces a violation on the real code'))
                continue
            safe = re.sub(r'[^A-Za-z0-9_.-]+', '_', oname)[:120]
            path = os.path.join(VERIF, 'replays', f'{self.prop}-{safe}.json')
            doc = {'property': self.prop, 'obligation': oname, 'function': getattr(c, 'key', 'lemma'),
                   'variant': getattr(c, 'variant', ''), 'group': g.name, 'solver': solver_out,
                   'confirmed': bool(confirmed)}
            if confirmed:
                doc['inputs'], doc['native'] = confirmed
                doc['request'] = ({'group': g.name, 'key': c.key, 'variant': c.variant, 'inputs': confirmed[0], 'search': True}
                                  if 'search' in (confirmed[1].get('violated') or []) else request_for(g, c, confirmed[0]))
            doc['tried'] = tried[:20]
            with open(path, 'w') as f:
                json.dump(doc, f, indent=1, default=str)
            tail = '' if confirmed else ' no-failing-input-found'
            self.say(f'VIOLATION property={self.prop} replay={path}{tail}')
            self.say(f'  obligation={oname} ' + (f"native={confirmed[1].get('violated')} observed={confirmed[1].get('observed', '')[:200]} inputs={json.dumps(confirmed[0])[:300]}"
                                                if confirmed else f"solver={[s['status'] for s in solver_out][:6]}"))
            violations.append({'obligation': oname, 'replay': path, 'confirmed': bool(confirmed)})
        return violations

    def bounded_finder(self, g, c, cache, tried):
        """Refutation only: unroll the loops (no invariants) and ask for an input violating the contract;
        every model of such a query is a real input, so it replays."""
        if not c.loops:
            return None
        if c.label not in cache:
            eng, w = self.engines[g.name]
            found = None
            for k in (2, 4, 7):
                try:
                    obs = [o for o in eng.verify(c, unroll=k) if o.kind in ('post', 'raises', 'safety', 'post_on_raise', 'call')]
                except Exception:
                    break
                wt = c.witness_terms(w) if c.witness_terms else None
                discharge(obs, [wt] * len(obs), timeout_ms=10000, cvc5=False)
                inputs = []
                for o in obs:
                    m = (o.result.get('model') or {}).get('__witness__') if o.result['status'] == 'sat' else None
                    if m is not None and m not in inputs:
                        inputs.append(m)
                resp = native([request_for(g, c, i) for i in inputs[:40]], self.repo)
                for i, r in zip(inputs, resp):
                    tried.append({'inputs': i, 'native': r, 'finder_unroll': k})
                    if r.get('status') == 'violated':
                        found = (i, r)
                        break
                if found:
                    break
            cache[c.label] = found
        return cache[c.label]

    def known_findings(self):
        path = os.path.join(VERIF, 'known_findings.json')
        if not os.path.exists(path):
            return []
        entries = [e for e in json.load(open(path)).get('findings', []) if e['property'] == self.prop]
        out = []
        reqs, idx = [], []
        for e in entries:
            if e.get('status') != 'known':
                continue
            g = next((g for g in self.groups if g.name == e['group']), None)
            if g is not None and e.get('native_finding'):
                reqs.append({'group': g.name, 'finding': e['native_finding'], 'inputs': e['witness']})
                idx.append(e)
                continue
            c = next((c for c in g.contracts if c.key == e['function'] and c.variant == e.get('variant', '')), None) if g else None
            if c is None:
                continue
            r = request_for(g, c, e['witness'])
            # the finding is a violation of the clause *without* its region carve-out
            r['ensures'] = [list(x) for x in c.ens()]
            if e.get('extra_clause'):
                r['ensures'].append(['finding', e['extra_clause']])
            reqs.append(r)
            idx.append(e)
        for e, r in zip(idx, native(reqs, self.repo)):
            still = r.get('status') == 'violated' and (not e.get('clause') or any(e['clause'] in v for v in r['violated']))
            if still:
                self.say(f"KNOWN-FINDING: property={self.prop} {e['id']}: {e['what']} "
                         f"[witness {json.dumps(e['witness'])[:160]} -> {r.get('observed', '')[:120]}]")
            out.append({'id': e['id'], 'still_fails': bool(still), 'native': r.get('violated'), 'status': r.get('status')})
            if r.get('status') not in ('violated', 'holds', 'precondition_false'):
                # the recorded witness could not even be replayed: neither "still fails" nor "gone" is known
                raise Unsupported(f"known finding {e['id']} could not be replayed natively: {r.get('status')} "
                                  f"{str(r.get('error') or r.get('clause_errors'))[:200]}")
        return out

    # ------------------------------------------------------------------ evidence
    def write_evidence(self, real, canary_report, vac, violations, known, error=None):
        if getattr(self, 'no_evidence', False):
            return
        os.makedirs(os.path.join(VERIF, 'evidence'), exist_ok=True)
        n = len(real)
        done = sum(1 for it in real if it[2].result['status'] == 'unsat')
        backends = {}
        for it in real:
            if it[2].result['status'] == 'unsat':
                b = it[2].result['backend']
                backends[b] = backends.get(b, 0) + 1
        per = [{'name': it[2].name, 'path': it[2].path, 'backend': it[2].result['backend'],
                'result': it[2].result['status'], 'ms': it[2].result['ms'],
                **({'cvc5': it[2].result['cvc5']} if 'cvc5' in it[2].result else {})} for it in real]
        assumptions, trusted, not_covered = [], [], []
        bounded = getattr(self, 'bounded_results', [])
        for g in getattr(self, 'groups', []):
            assumptions += g.assumptions
            trusted += g.trusted
            not_covered += g.not_covered
        assumptions += getattr(self.reg, 'COMMON_ASSUMPTIONS', []) if hasattr(self, 'reg') else []
        dropped = sorted({d for e, _ in getattr(self, 'engines', {}).values() for d in e.dropped})
        if dropped:
            assumptions.append('statements dropped by the extraction (logging/print calls; their arguments are '
                               'assumed not to raise): ' + ', '.join(dropped))
        samples = [{'obligation': p['name'], 'path': p['path'], 'backend': p['backend'], 'result': p['result'],
                    'ms': p['ms']} for p in per[:: max(1, len(per) // 12)]][:14]
        ev = {
            'property_id': self.prop, 'tier': self.tier, 'seed': self.seed, 'level': 'proof',
            'coverage': {
                'obligations': n, 'discharged': done,
                'checker_cmd': f'python3-vt -m pyvc.check {self.prop} --tier {self.tier}',
                'trusted_base': trusted + ['z3 5.1.0 (python3-vt)', '/usr/bin/cvc5 1.0.3 (for z3 unknowns)',
                                           'pyvc VC generator (/verif/pyvc): the encoding of Python semantics listed in DESIGN.md 2.2'],
                'functions': getattr(self, 'functions', []),
                'backends': backends,
                'solver_ms_total': sum(p['ms'] for p in per),
                'per_obligation': per,
                'samples': samples,
                'vacuity': vac, 'canaries': canary_report,
                'known_findings': known, 'not_covered': not_covered, 'bounded': bounded,
                'violations': violations,
                'phases': getattr(self, 'phase', {}),
                'engine_stats': {k: e.stats for k, (e, _) in getattr(self, 'engines', {}).items()},
            },
            'assumptions': assumptions,
            'wall_s': round(time.time() - self.t0, 2),
            'violations': len(violations),
        }
        if error:
            ev['coverage']['error'] = error
            ev['coverage']['obligations'] = ev['coverage']['obligations'] or 0
        extra = getattr(self, 'extra_evidence', None)
        if extra:
            ev['coverage'].update(extra)
        with open(os.path.join(VERIF, 'evidence', f'{self.prop}.json'), 'w') as f:
            json.dump(ev, f, indent=1, default=str)


def replay_file(path, repo):
    doc = json.load(open(path))
    if not doc.get('request'):
        print('replay file carries no confirmed input (no-failing-input-found); solver output:')
        print(json.dumps(doc.get('solver'), indent=1)[:3000])
        return 1
    r = native([doc['request']], repo)[0]
    print(json.dumps(r, indent=1))
    return 1 if r.get('status') == 'violated' else 0


def main(argv=None):
    argv = list(sys.argv[1:] if argv is None else argv)
    opts = {'--tier': os.environ.get('VERIF_TIER', 'quick'), '--repo': os.environ.get('PYVC_REPO', '/repo'),
            '--seed': os.environ.get('VERIF_SEED', '0')}
    pos = []
    i = 0
    while i < len(argv):
        if argv[i].startswith('--'):
            if '=' in argv[i]:
                k, v = argv[i].split('=', 1)
                opts[k] = v
            else:
                opts[argv[i]] = argv[i + 1] if i + 1 < len(argv) else ''
                i += 1
        else:
            pos.append(argv[i])
        i += 1
    sys.path.insert(0, VERIF)
    if '--replay' in opts:
        return replay_file(opts['--replay'], opts['--repo'])
    try:
        seed = int(opts['--seed'])
    except ValueError:
        seed = 0
    ck = Checker(pos[0], opts['--tier'], opts['--repo'], seed)
    ck.no_evidence = '--no-evidence' in opts      # mutation runs on scratch copies must not touch evidence/
    rc = ck.run()
    n = len([it for it in getattr(ck, 'items', []) if it[2].kind != 'canary'])
    print(f'{pos[0]}: exit {rc}; {n} obligations; {time.time() - ck.t0:.1f}s')
    return rc


if __name__ == '__main__':
    sys.exit(main())
