"""Symbolic value domain of the pyvc verification-condition generator.

Python constants (int, bool, str, None, tuple, dict with constant keys) are
represented by themselves; symbolic scalars are z3 terms (Int / Real / Bool).
Everything else is one of the small classes below.
"""
import itertools
import z3

INT, REAL, BOOL = z3.IntSort(), z3.RealSort(), z3.BoolSort()


class Unsupported(Exception):
    """The source uses a construct outside the documented subset, or the sidecar no
    longer matches the code: checker error (exit 3), never a verdict."""


class Obj:
    """A record (instance of a repository class). Mutable; cloned when paths fork."""
    __slots__ = ('cls', 'f', 'frozen', 'alias')

    def __init__(self, cls, fields=None):
        self.cls, self.f, self.frozen = cls, dict(fields or {}), False
        self.alias = None       # (container dict/Obj, key, index): the list slot this record was appended to

    def __repr__(self):
        return f'<{self.cls} {sorted(self.f)}>'


class Opt:
    """`int | None` (or real) whose None-ness is symbolic."""
    __slots__ = ('isnone', 'val')

    def __init__(self, isnone, val):
        self.isnone, self.val = isnone, val

    def __repr__(self):
        return f'Opt({self.isnone}, {self.val})'


class TD:
    """datetime.timedelta as integer microseconds."""
    __slots__ = ('us', 'parts')

    def __init__(self, us, parts=None):
        self.us = us
        self.parts = parts      # optional normalised (days, seconds, microseconds) the value was built from

    @staticmethod
    def decomposed(prefix):
        """A symbolic timedelta given by its normalised components; returns (td, range constraint)."""
        D, s, m = z3.Int(prefix + '_days'), z3.Int(prefix + '_seconds'), z3.Int(prefix + '_microseconds')
        td = TD(86400 * 10**6 * D + 10**6 * s + m, (D, s, m))
        return td, z3.And(0 <= s, s < 86400, 0 <= m, m < 10**6)

    def __repr__(self):
        return f'TD({self.us})'


class DT:
    """timezone-aware UTC datetime.datetime as integer microseconds since the epoch."""
    __slots__ = ('us', 'parts')

    def __init__(self, us, parts=None):
        self.us = us
        self.parts = parts      # optional (day number, second of day, microsecond) the instant was built from

    @staticmethod
    def decomposed(prefix):
        day, sec, usec = z3.Int(prefix + '_day'), z3.Int(prefix + '_sec'), z3.Int(prefix + '_usec')
        return (DT(86400 * 10**6 * day + 10**6 * sec + usec, (day, sec, usec)),
                z3.And(0 <= sec, sec < 86400, 0 <= usec, usec < 10**6))

    def __repr__(self):
        return f'DT({self.us})'


class Ratio:
    """A float that is an exact quotient of two integers (e.g. timedelta.total_seconds() = us / 10^6, or
    int * int / int).  Floats are treated as exact reals (stated assumption); keeping the quotient symbolic makes
    floor / int() / // / comparisons integer arithmetic instead of mixed real-integer reasoning."""
    __slots__ = ('num', 'den')

    def __init__(self, num, den):
        if isinstance(num, int) and isinstance(den, int) and den != 0:
            import math
            g = math.gcd(num, den) or 1
            if den < 0:
                g = -g
            num, den = num // g, den // g
        self.num, self.den = num, den

    def real(self):
        return zreal(self.num) / zreal(self.den)

    def floor(self):
        if isinstance(self.den, int) and self.den == 1:
            return self.num
        return floordiv(zint(self.num), zint(self.den))

    def trunc(self):
        n, d = zint(self.num), zint(self.den)
        pos = z3.Or(n == 0, (n > 0) == (d > 0))
        return z3.If(pos, floordiv(n, d), -floordiv(-n, d))

    def truthy(self):
        return zint(self.num) != 0          # a quotient is zero exactly when its numerator is (the denominator is never 0)

    def __repr__(self):
        return f'Ratio({self.num}, {self.den})'


def as_ratio(v):
    if isinstance(v, Ratio):
        return v
    if isinstance(v, bool):
        return Ratio(int(v), 1)
    if isinstance(v, int):
        return Ratio(v, 1)
    if isinstance(v, float):
        from fractions import Fraction
        f = Fraction(v)
        return Ratio(f.numerator, f.denominator)
    if z3.is_expr(v) and v.sort() == INT:
        return Ratio(v, 1)
    return None


def _mul(a, b):
    if isinstance(a, int) and isinstance(b, int):
        return a * b
    if isinstance(a, int) and a == 1:
        return b
    if isinstance(b, int) and b == 1:
        return a
    return zint(a) * zint(b)


def ratio_op(op, a, b):
    """a, b: Ratio; op in '+-*/'; exact rational arithmetic with cancellation of equal constant denominators"""
    if op == '*':
        return Ratio(_mul(a.num, b.num), _mul(a.den, b.den))
    if op == '/':
        if isinstance(a.den, int) and isinstance(b.den, int) and a.den == b.den:
            return Ratio(a.num, b.num)
        return Ratio(_mul(a.num, b.den), _mul(a.den, b.num))
    same = isinstance(a.den, int) and isinstance(b.den, int) and a.den == b.den
    if same:
        n = (zint(a.num) + zint(b.num)) if op == '+' else (zint(a.num) - zint(b.num))
        if isinstance(a.num, int) and isinstance(b.num, int):
            n = a.num + b.num if op == '+' else a.num - b.num
        return Ratio(n, a.den)
    x, y = _mul(a.num, b.den), _mul(b.num, a.den)
    n = (x + y if op == '+' else x - y) if isinstance(x, int) and isinstance(y, int) else \
        (zint(x) + zint(y) if op == '+' else zint(x) - zint(y))
    return Ratio(n, _mul(a.den, b.den))


class SeqFn:
    """A list of records the function only reads: field -> function of the index."""

    def __init__(self, name, fields, length, elem_cls='elem'):
        self.name, self.fields, self.length, self.elem_cls = name, fields, length, elem_cls

    def elem(self, idx):
        return Obj(self.elem_cls, {k: f(zint(idx)) for k, f in self.fields.items()})


class ArrList:
    """A list the function builds: one array per field plus a length. Scalar lists use the single field '_'.
    A field declared 'opt_int' is stored as a value array plus a none-flag array.  Immutable value
    (append returns a new one)."""

    def __init__(self, name, fields, arrs=None, length=None, elem_cls='elem'):
        self.name, self.fields, self.elem_cls = name, dict(fields), elem_cls
        if arrs is None:
            arrs = {}
            for f, s in self.fields.items():
                if isinstance(s, str) and s == 'opt_int':
                    arrs[f] = fresh(f'{name}.{f}', z3.ArraySort(INT, INT))
                    arrs[f + '?none'] = fresh(f'{name}.{f}?none', z3.ArraySort(INT, BOOL))
                else:
                    arrs[f] = fresh(f'{name}.{f}', z3.ArraySort(INT, s))
        self.arrs = arrs
        self.length = z3.IntVal(0) if length is None else length

    def appended(self, item):
        vals = item.f if isinstance(item, Obj) else (item if isinstance(item, dict) else {'_': item})
        arrs = dict(self.arrs)
        for f, s in self.fields.items():
            if f not in vals:
                raise Unsupported(f'append to {self.name}: item lacks declared field {f!r}')
            v = vals[f]
            if isinstance(s, str) and s == 'opt_int':
                if v is None:
                    none, val = z3.BoolVal(True), z3.IntVal(0)
                elif isinstance(v, Opt):
                    none, val = v.isnone, zint(v.val)
                else:
                    none, val = z3.BoolVal(False), coerce(v, INT)
                arrs[f] = z3.Store(self.arrs[f], self.length, val)
                arrs[f + '?none'] = z3.Store(self.arrs[f + '?none'], self.length, none)
            else:
                arrs[f] = z3.Store(self.arrs[f], self.length, coerce(v, s))
        return ArrList(self.name, self.fields, arrs, self.length + 1, self.elem_cls)

    def elem(self, idx):
        if list(self.fields) == ['_']:
            return z3.Select(self.arrs['_'], zint(idx))
        o = Obj(self.elem_cls)
        for f, s in self.fields.items():
            if isinstance(s, str) and s == 'opt_int':
                o.f[f] = Opt(z3.Select(self.arrs[f + '?none'], zint(idx)), z3.Select(self.arrs[f], zint(idx)))
            else:
                o.f[f] = z3.Select(self.arrs[f], zint(idx))
        o.frozen = True
        return o

    def with_field(self, idx, field, v):
        """xs[idx].field = v (the list owns its records)"""
        if field not in self.fields:
            raise Unsupported(f'{self.name}[...].{field}: not a declared field')
        arrs = dict(self.arrs)
        idx = zint(idx)
        if isinstance(self.fields[field], str):
            if v is None:
                arrs[field + '?none'] = z3.Store(arrs[field + '?none'], idx, z3.BoolVal(True))
            elif isinstance(v, Opt):
                arrs[field + '?none'] = z3.Store(arrs[field + '?none'], idx, v.isnone)
                arrs[field] = z3.Store(arrs[field], idx, zint(v.val))
            else:
                arrs[field + '?none'] = z3.Store(arrs[field + '?none'], idx, z3.BoolVal(False))
                arrs[field] = z3.Store(arrs[field], idx, coerce(v, INT))
        else:
            arrs[field] = z3.Store(arrs[field], idx, coerce(v, self.fields[field]))
        return ArrList(self.name, self.fields, arrs, self.length, self.elem_cls)

    def havoc(self):
        n = fresh(f'len({self.name})')
        return ArrList(self.name, self.fields, None, n, self.elem_cls), n >= 0


class PyList:
    """A list of statically known length whose elements are arbitrary values."""

    def __init__(self, items):
        self.items = list(items)


class SStr:
    """An opaque string / bytes value: a term of an uninterpreted sort."""
    SORT = z3.DeclareSort('Str')

    def __init__(self, term, kind='str'):
        self.term, self.kind = term, kind


class Slice:
    """bytes that are a contiguous slice [lo, hi) of the one underlying file (C20)."""
    __slots__ = ('lo', 'hi', 'kind')

    def __init__(self, lo, hi, kind='bytes'):
        self.lo, self.hi, self.kind = lo, hi, kind

    def __repr__(self):
        return f'Slice({self.lo},{self.hi},{self.kind})'


class Closure:
    def __init__(self, node, env):
        self.node, self.env = node, env


class BoundMethod:
    def __init__(self, recv, name):
        self.recv, self.name = recv, name


class Opaque:
    """A value the analysis never looks into (payload bytes, formatted text, ...)."""

    def __init__(self, what):
        self.what = what

    def __repr__(self):
        return f'Opaque({self.what})'


_fresh = itertools.count()
_counter = [0]


def reset_fresh():
    """Fresh names restart per function under contract, so one function's VCs do not depend on how many
    names another function consumed (solver behaviour would otherwise change with unrelated edits)."""
    _counter[0] = 0


def fresh(name, sort=None):
    _counter[0] += 1
    return z3.Const(f'{name}!{_counter[0]}', INT if sort is None else sort)


def is_sym(v):
    return isinstance(v, z3.ExprRef)


def zint(v):
    """Coerce to a z3 arithmetic term (Int or Real)."""
    if isinstance(v, bool):
        return z3.IntVal(1 if v else 0)
    if isinstance(v, int):
        return z3.IntVal(v)
    if isinstance(v, float):
        return z3.RealVal(repr(v))
    if z3.is_bool(v):
        return z3.If(v, z3.IntVal(1), z3.IntVal(0))
    if z3.is_arith(v):
        return v
    if isinstance(v, Ratio):
        return v.real()
    if hasattr(v, 'as_int'):
        return v.as_int()
    raise Unsupported(f'arithmetic on {v!r}')


def zreal(v):
    v = zint(v)
    return z3.ToReal(v) if v.sort() == INT else v


def zbool(v):
    """Python truthiness."""
    if isinstance(v, bool):
        return z3.BoolVal(v)
    if v is None:
        return z3.BoolVal(False)
    if isinstance(v, (int, float)):
        return z3.BoolVal(bool(v))
    if isinstance(v, (str, bytes, bytearray)):
        return z3.BoolVal(bool(v))
    if z3.is_bool(v):
        return v
    if z3.is_arith(v):
        return v != 0
    if isinstance(v, Opt):
        return z3.And(z3.Not(v.isnone), zbool(v.val))
    if isinstance(v, (Obj, Opaque, Closure, DT)):
        return z3.BoolVal(True)
    if isinstance(v, TD):
        return zint(v.us) != 0
    if isinstance(v, ArrList):
        return v.length > 0
    if isinstance(v, SeqFn):
        return zint(v.length) > 0
    if isinstance(v, PyList):
        return z3.BoolVal(bool(v.items))
    if isinstance(v, (tuple, dict)):
        return z3.BoolVal(bool(v))
    if isinstance(v, Slice):
        return zint(v.hi) > zint(v.lo)
    raise Unsupported(f'truth value of {v!r}')


def coerce(v, sort):
    if sort == BOOL:
        return zbool(v)
    if isinstance(v, (TD, DT)):
        v = v.us
    v = zint(v)
    if sort == REAL and v.sort() == INT:
        return z3.ToReal(v)
    if sort == INT and v.sort() == REAL:
        raise Unsupported('real stored in int field')
    return v


def floordiv(a, b):
    """Python floor division of Ints (z3 div rounds so that the remainder is >= 0)."""
    return z3.If(b > 0, a / b, (-a) / (-b))


def pymod(a, b):
    """Python % of Ints: result has the sign of b."""
    return z3.If(b > 0, a % b, -((-a) % (-b)))


def trunc(r):
    """int() of a real: toward zero."""
    return z3.If(r >= 0, z3.ToInt(r), -z3.ToInt(-r))


def clone(v, memo):
    """Deep copy preserving aliasing (records are mutable, everything else is a value)."""
    if isinstance(v, Obj):
        o = memo.get(id(v))
        if o is None:
            memo[id(v)] = o = Obj(v.cls)
            o.frozen = v.frozen
            if v.alias is not None:
                o.alias = (clone(v.alias[0], memo) if isinstance(v.alias[0], Obj) else
                           (clone_env(v.alias[0], memo) if isinstance(v.alias[0], dict) else v.alias[0]), v.alias[1], v.alias[2])
            o.f = {k: clone(x, memo) for k, x in v.f.items()}
        return o
    if isinstance(v, dict):
        o = memo.get(id(v))
        if o is None:
            memo[id(v)] = o = {}
            o.update({k: clone(x, memo) for k, x in v.items()})
        return o
    if isinstance(v, PyList):
        o = memo.get(id(v))
        if o is None:
            memo[id(v)] = o = PyList([])
            o.items = [clone(x, memo) for x in v.items]
        return o
    if isinstance(v, tuple):
        return tuple(clone(x, memo) for x in v)
    if isinstance(v, Closure):
        o = memo.get(id(v))
        if o is None:
            memo[id(v)] = o = Closure(v.node, None)
            o.env = clone_env(v.env, memo) if v.env is not None else None
        return o
    if isinstance(v, BoundMethod):
        return BoundMethod(clone(v.recv, memo), v.name)
    if hasattr(v, 'clone_model'):
        o = memo.get(id(v))
        if o is None:
            memo[id(v)] = o = v.clone_model()
        return o
    return v


def clone_env(env, memo=None):
    memo = {} if memo is None else memo
    o = memo.get(id(env))
    if o is None:
        memo[id(env)] = o = {}
        o.update({k: clone(v, memo) for k, v in env.items()})
    return o
