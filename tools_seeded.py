#!/usr/bin/env python3
"""Intake of a seeded property-breaking change produced by an independent sub-agent in /tmp/wt-<ID>:
confirm it (demo fails with the change, passes without; 87 tests pass with it), store it under
/verif/seeded/<ID>[-n]/, then run the check against /repo with the patch applied and undo it straight after.
usage: tools_seeded.py <PROP> [--name NAME] [--checks C01,C09]"""
import json
import os
import shutil
import subprocess
import sys


def sh(cmd, cwd=None, timeout=3600):
    r = subprocess.run(cmd, shell=True, cwd=cwd, capture_output=True, text=True, timeout=timeout)
    return r.returncode, (r.stdout + r.stderr)


def recheck(name, checks):
    """re-run the checks against a stored seeded change (after the machinery was strengthened)"""
    dest = f'/verif/seeded/{name}'
    meta = json.load(open(f'{dest}/meta.json'))
    meta.setdefault('history', []).append({'check_results': meta.get('check_results')})
    meta['check_results'] = {}
    rc, out = sh(f'git -C /repo apply {dest}/patch.diff')
    if rc != 0:
        print('apply failed', out)
        return
    try:
        for c in checks:
            rc, out = sh(f'python3-vt -m pyvc.check {c} --no-evidence 1', '/verif', timeout=7200)
            lines = [l for l in out.splitlines() if l.startswith(('VIOLATION', 'UNDECIDED', '  obligation', '  bounded'))]
            meta['check_results'][c] = {'exit': rc, 'caught': rc == 1, 'lines': [l[:400] for l in lines[:12]]}
    finally:
        sh('git -C /repo checkout -- .')
    json.dump(meta, open(f'{dest}/meta.json', 'w'), indent=1)
    print(json.dumps(meta['check_results'], indent=1)[:1500])
    print(sh('git -C /repo status --short')[1])


def main():
    if sys.argv[1] == '--recheck':
        return recheck(sys.argv[2], sys.argv[3].split(','))
    prop = sys.argv[1]
    name = sys.argv[sys.argv.index('--name') + 1] if '--name' in sys.argv else prop
    checks = sys.argv[sys.argv.index('--checks') + 1].split(',') if '--checks' in sys.argv else [prop]
    wt = sys.argv[sys.argv.index('--wt') + 1] if '--wt' in sys.argv else f'/tmp/wt-{name}'
    dest = f'/verif/seeded/{name}'
    os.makedirs(dest, exist_ok=True)
    meta = {'property': prop, 'worktree': wt}
    rc_changed, out_changed = sh('/venv/bin/python seed/demo.py', wt)
    rc_suite, out_suite = sh('/venv/bin/python -m pytest -q -p no:cacheprovider --timeout=900 --continue-on-collection-errors 2>&1 | tail -1', wt)
    # (no `git stash`: the stash is shared by all worktrees of the repository)
    sh('git diff -- dashlive templates > /tmp/seed-intake.diff && git apply -R /tmp/seed-intake.diff', wt)
    rc_orig, out_orig = sh('/venv/bin/python seed/demo.py', wt)
    sh('git apply /tmp/seed-intake.diff && rm -f /tmp/seed-intake.diff', wt)
    meta['demo_with_change'] = {'exit': rc_changed, 'tail': out_changed.strip().splitlines()[-3:]}
    meta['demo_without_change'] = {'exit': rc_orig, 'tail': out_orig.strip().splitlines()[-2:]}
    meta['suite_with_change'] = out_suite.strip()
    ok = rc_changed != 0 and rc_orig == 0 and '87 passed' in out_suite
    meta['confirmed'] = ok
    for f in ('patch.diff', 'demo.py', 'notes.md'):
        if os.path.exists(f'{wt}/seed/{f}'):
            shutil.copy(f'{wt}/seed/{f}', f'{dest}/{f}')
    sh(f'git -C {wt} diff -- dashlive templates > {dest}/patch.diff')
    meta['check_results'] = {}
    if ok:
        rc, out = sh(f'git -C /repo apply {dest}/patch.diff')
        if rc != 0:
            meta['apply_error'] = out
        else:
            try:
                for c in checks:
                    rc, out = sh(f'python3-vt -m pyvc.check {c} --no-evidence 1', '/verif', timeout=7200)
                    lines = [l for l in out.splitlines() if l.startswith(('VIOLATION', 'UNDECIDED', '  obligation', '  bounded'))]
                    meta['check_results'][c] = {'exit': rc, 'caught': rc == 1, 'lines': [l[:400] for l in lines[:12]]}
            finally:
                sh('git -C /repo checkout -- .')
    meta['ran'] = ['demo with/without change in the scratch worktree', 'pytest in the scratch worktree',
                   'git -C /repo apply; ./check; git -C /repo checkout -- .']
    json.dump(meta, open(f'{dest}/meta.json', 'w'), indent=1)
    print(json.dumps(meta, indent=1)[:3000])
    print(sh('git -C /repo status --short')[1])


if __name__ == '__main__':
    main()
