"""Bounded stand-ins for C19 (labelled bounded, never counted as proved). Runs under /venv/bin/python.

  text_roundtrip : from_isodatetime(to_iso_datetime(x)) == x, same UTC offset, for every microsecond value
                   (thorough: all 10^6; quick: every 37th + boundaries) x seconds x offsets
  duration_grid  : toIsoDuration on real floats / timedeltas: value within half a millisecond, fields < 60,
                   parse back with from_isodatetime within half a millisecond (float-vs-real gap of the proof)
  tick_grid      : float conversions used by the live window (Representation.timescale_to_timedelta,
                   scale_timedelta) against exact rational arithmetic, tolerance one microsecond / one ulp
usage: c19.py <quick|thorough> [--repo DIR]   -> JSON on stdout
"""
import datetime
import json
import multiprocessing as mp
import os
import re
import sys
from fractions import Fraction

REPO = '/repo'
if '--repo' in sys.argv:
    REPO = sys.argv[sys.argv.index('--repo') + 1]
sys.path.insert(0, REPO)

from dashlive.utils import date_time as D            # noqa: E402
from dashlive.utils.timezone import UTC, FixedOffsetTimeZone   # noqa: E402

ISO = re.compile(r'^PT(?:(\d+)H)?(?:(\d+)M)?(\d+)(?:\.(\d+))?S$')


def us_values(tier, chunk, nchunks):
    if tier == 'thorough':
        return range(chunk, 1000000, nchunks)
    base = set(range(chunk * 37, 1000000, 37 * nchunks))
    if chunk == 0:
        base |= {0, 1, 2, 499, 500, 501, 999, 1000, 499999, 500000, 500001, 999499, 999500, 999501, 999998, 999999}
    return sorted(base)


def text_chunk(args):
    tier, chunk, n = args
    fails, cases = [], 0
    tzs = [UTC(), FixedOffsetTimeZone('+05:30'), FixedOffsetTimeZone('-08:00')]
    secs = range(60) if tier == 'thorough' and False else (0, 1, 12, 59)
    for us in us_values(tier, chunk, n):
        for sec in secs:
            for tz in tzs:
                x = datetime.datetime(2024, 2, 29, 23, 59, sec, us, tzinfo=tz)
                cases += 1
                try:
                    text = D.to_iso_datetime(x)
                    back = D.from_isodatetime(text)
                    ok = back == x and back.utcoffset() == x.utcoffset() and back.microsecond == us
                except Exception as err:        # noqa
                    ok, back = False, repr(err)
                if not ok and len(fails) < 3:
                    fails.append({'input': x.isoformat(), 'text': text, 'parsed_back': str(back)})
                elif not ok:
                    fails.append(None)
    return cases, fails


def dur_chunk(args):
    tier, chunk, n = args
    fails, cases = [], 0
    half_ms = Fraction(1, 2000)
    for us in us_values(tier, chunk, n):
        for whole in (0, 59, 3599, 86399, 10**9):
            for kind in ('float', 'timedelta'):
                if kind == 'float':
                    x = whole + us / 1e6
                    exact = Fraction(x)
                    tol = half_ms + Fraction(max(1.0, x)) * Fraction(1, 2**50)
                else:
                    x = datetime.timedelta(seconds=whole, microseconds=us)
                    exact = Fraction(whole * 10**6 + us, 10**6)
                    tol = half_ms + Fraction(max(1, whole), 2**50)
                cases += 1
                ok = False
                text = None
                try:
                    text = D.toIsoDuration(x)
                    m = ISO.match(text)
                    if m:
                        h, mi, s, frac = m.groups()
                        v = Fraction(int(s)) + 3600 * int(h or 0) + 60 * int(mi or 0)
                        if frac:
                            v += Fraction(int(frac), 10 ** len(frac))
                        back = D.from_isodatetime(text)
                        backv = Fraction(back // datetime.timedelta(microseconds=1), 10**6)
                        ok = (abs(v - exact) <= tol and int(s) < 60 and (mi is None or int(mi) < 60)
                              and abs(backv - exact) <= tol + Fraction(1, 10**6))
                except Exception as err:        # noqa
                    text = repr(err)
                if not ok:
                    fails.append({'input': repr(x), 'text': text} if len(fails) < 3 else None)
    return cases, fails


def tick_chunk(args):
    tier, chunk, n = args
    import random
    rnd = random.Random(1234 + chunk)
    fails, cases = [], 0
    count = 400000 // n if tier == 'thorough' else 20000 // n
    one_us = datetime.timedelta(microseconds=1)
    for _ in range(count):
        ts = rnd.choice([1, 25, 30, 1000, 12800, 44100, 48000, 90000, 240000, 1000000, 10000000, rnd.randint(1, 10**7)])
        tc = min(rnd.choice([rnd.randint(0, 10**4), rnd.randint(0, 2**33), rnd.randint(0, 2**52)]), ts * 3153600000)
        cases += 1
        # Representation.timescale_to_timedelta: timedelta(seconds=float(tc)/float(ts)) vs exact tc/ts
        got = datetime.timedelta(seconds=float(tc) / float(ts)) // one_us
        exact = Fraction(tc * 10**6, ts)
        # assumed contract used by the C01 proof: |delta*ts - 10^6*tc| <= ts (one microsecond) + float error of the quotient
        slack = 1 + Fraction(tc, ts) * 10**6 * Fraction(1, 2**51)
        if abs(got - exact) > slack:
            fails.append({'fn': 'timescale_to_timedelta', 'tc': tc, 'ts': ts, 'got_us': got} if len(fails) < 3 else None)
        # scale_timedelta(delta, num, denom) vs floor(num*us/10^6)/denom
        us = rnd.choice([rnd.randint(0, 10**8), rnd.randint(0, 86400 * 10**6 * 366 * 60)])
        sd = rnd.choice([1, 960, 1024, 180180, rnd.randint(1, 10**6)])
        cases += 1
        r = D.scale_timedelta(datetime.timedelta(microseconds=us), ts, sd)
        ex = Fraction((ts * us) // 10**6, sd)
        if abs(Fraction(r) - ex) > max(Fraction(1, 10**9), ex * Fraction(1, 2**50)):
            fails.append({'fn': 'scale_timedelta', 'us': us, 'num': ts, 'denom': sd, 'got': r} if len(fails) < 3 else None)
    return cases, fails


def run(name, fn, tier, bound):
    n = 16
    with mp.get_context('fork').Pool(n) as pool:
        res = pool.map(fn, [(tier, c, n) for c in range(n)])
    cases = sum(r[0] for r in res)
    fails = [f for r in res for f in r[1]]
    return {'name': name, 'bound': bound, 'cases': cases, 'failures': len(fails),
            'examples': [f for f in fails if f][:5], 'exhaustive_within_bound': tier == 'thorough'}


def main():
    tier = sys.argv[1] if len(sys.argv) > 1 else 'quick'
    stride = 'all 10^6 microsecond values' if tier == 'thorough' else 'every 37th microsecond value + boundaries'
    out = [
        run('c19_text_roundtrip', text_chunk, tier, f'{stride} x seconds {{0,1,12,59}} x offsets {{Z,+05:30,-08:00}}'),
        run('c19_duration_grid', dur_chunk, tier, f'{stride} x whole seconds {{0,59,3599,86399,10^9}} x {{float, timedelta}}'),
        run('c19_tick_grid', tick_chunk, tier, 'random (seed 1234): timescale 1..10^7, timecode up to min(2^52, 100 years); '
            + ('400000' if tier == 'thorough' else '20000') + ' samples x 2 functions'),
    ]
    json.dump(out, sys.stdout)


if __name__ == '__main__':
    main()
