"""Bounded stand-in for C16 (labelled bounded, never counted as proved): option values that name things.

  drm_names : every drm option text built from up to three items over the tokens {playready, marlin, clearkey, foo,
              PlayReady, ''} with up to two location suffixes over {pro, cenc, moov, bar} either is refused by the
              option parser with ValueError (handlers answer 400) or yields a drmSelection on which
              DrmContext.generate_drm_location_tuples does not fail (its `assert drm_name in DrmSystem.values()`
              would be an unhandled AssertionError)
usage: c16_options.py <quick|thorough> [--repo DIR]   -> JSON on stdout
"""
import ast
import itertools
import json
import os
import sys

REPO = '/repo'
if '--repo' in sys.argv:
    REPO = sys.argv[sys.argv.index('--repo') + 1]
sys.path.insert(0, REPO)
sys.path.insert(0, os.path.join(os.path.dirname(os.path.abspath(__file__)), '..', 'replay', 'stubs'))

from dashlive.server.options.repository import OptionsRepository      # noqa: E402
from dashlive.drm.system import DrmSystem                              # noqa: E402


def extract_tuples():
    path = os.path.join(REPO, 'dashlive/server/requesthandler/drm_context.py')
    tree = ast.parse(open(path).read())
    for cls in tree.body:
        if isinstance(cls, ast.ClassDef) and cls.name == 'DrmContext':
            for fn in cls.body:
                if isinstance(fn, ast.FunctionDef) and fn.name == 'generate_drm_location_tuples':
                    fn.decorator_list, fn.returns = [], None
                    for a in fn.args.args:
                        a.annotation = None
                    ns = {'DrmSystem': DrmSystem, 'PlayReady': lambda: 'playready-impl', 'Marlin': lambda: 'marlin-impl',
                          'ClearKey': lambda: 'clearkey-impl'}
                    exec(compile(ast.fix_missing_locations(ast.Module(body=[fn], type_ignores=[])), path, 'exec'), ns)
                    return ns['generate_drm_location_tuples']
    raise KeyError('generate_drm_location_tuples')


def main():
    tier = sys.argv[1] if len(sys.argv) > 1 else 'quick'
    tuples = extract_tuples()
    names = ['playready', 'marlin', 'clearkey', 'foo', 'PlayReady', '']
    locs = ['', '-pro', '-cenc-moov', '-bar'] if tier == 'quick' else ['', '-pro', '-cenc', '-moov', '-cenc-moov', '-pro-cenc-moov', '-bar', '-pro-bar']
    items = [n + loc for n in names for loc in locs]
    texts = set(items) | {'all', 'none', 'all-pro', 'all-bar', 'ALL'}
    for k in (2, 3) if tier == 'thorough' else (2,):
        for combo in itertools.product(items, repeat=k):
            texts.add(','.join(combo))
            if tier == 'quick' and len(texts) > 700:
                break
    cases, fails, refused, dropped = 0, [], 0, 0
    import logging
    logging.disable(logging.WARNING)
    for text in sorted(texts):
        cases += 1
        try:
            opts = OptionsRepository.convert_cgi_options({'drm': text})
        except ValueError:
            refused += 1
            continue
        except Exception as err:            # noqa: anything else is the unhandled failure
            fails.append({'drm': text, 'parser_raised': repr(err)})
            continue
        if not hasattr(opts, 'drmSelection'):
            dropped += 1                     # the parser logged the value as invalid and left the default in place
            continue
        try:
            tuples(opts)
        except BaseException as err:        # noqa
            fails.append({'drm': text, 'drmSelection': repr(opts.drmSelection)[:120], 'generate_drm_location_tuples_raised': repr(err)})
    print(json.dumps([{'name': 'drm_names', 'bound': f'{cases} drm option texts of up to {3 if tier == "thorough" else 2} items',
                       'cases': cases, 'refused_with_ValueError': refused, 'dropped_as_invalid': dropped, 'failures': len(fails), 'examples': fails[:3]}]))


if __name__ == '__main__':
    main()
