"""Bounded validation of the calendar axioms the C08 proof assumes (never counted as proved):
for every day 1970-01-01 .. 2100-12-31: month_start(d) <= d, d - month_start(d) <= 30, year_start(d) <= month_start(d),
d - year_start(d) <= 365, and month_start / year_start are constant between the first of the month / year and d.
Also: datetime.replace(day=1,...) / (month=1, day=1,...) of the real library are these functions."""
import datetime
import json
import sys

EPOCH = datetime.date(1970, 1, 1)


def main():
    fails, cases = [], 0
    d = EPOCH
    end = datetime.date(2100, 12, 31)
    prev_ms = prev_ys = None
    while d <= end:
        n = (d - EPOCH).days
        ms = (d.replace(day=1) - EPOCH).days
        ys = (d.replace(month=1, day=1) - EPOCH).days
        cases += 1
        ok = ms <= n and n - ms <= 30 and ys <= ms and n - ys <= 365
        if prev_ms is not None and ms <= n - 1:
            ok = ok and prev_ms == ms          # constant on [ms, n]
        if prev_ys is not None and ys <= n - 1:
            ok = ok and prev_ys == ys
        if not ok:
            fails.append({'day': d.isoformat()})
        prev_ms, prev_ys = ms, ys
        d += datetime.timedelta(days=1)
    json.dump([{'name': 'c08_calendar_axioms', 'bound': 'every day 1970-01-01 .. 2100-12-31', 'cases': cases,
                'failures': len(fails), 'examples': fails[:5], 'exhaustive_within_bound': True}], sys.stdout)


if __name__ == '__main__':
    main()
