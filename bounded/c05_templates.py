"""Bounded stand-in for C05 (labelled bounded, never counted as proved): the STATIC text of every XML template is well-formed
whatever its conditions decide.

  template_structure : every template under templates/{manifests,patches,drm,events,segment} is rendered by the real Jinja
        (the project's environment settings: same whitespace control, same block syntax) from its own source, with
          * every `{% if %}` / `{% elif %}` test that does not mention the loop variable forced: all true, all false, and each
            single test flipped against both baselines (2 + 2n renders for n tests); tests on `loop.first` / `loop.last` run for real,
          * every `{% for %}` running over two items, then over one,
          * every interpolated value, filter result and call result being the text `v` (an undefined-like universal stub),
          * every `{% include %}` replaced by an empty element `<included/>`,
        and the output, wrapped in a root element that declares the namespace prefixes the project uses, must parse as
        XML.  What this can see: attributes that run into each other when whitespace control eats the separating blank,
        unbalanced tags across branches, a tag opened in one branch and closed in another.  What it cannot see: values
        (escaping is the xml group's job), combinations of two or more flipped tests, includes in their context.
usage: c05_templates.py <quick|thorough> [--repo DIR]   -> JSON on stdout
"""
import json
import os
import sys
import xml.etree.ElementTree as ET

import jinja2
from jinja2 import nodes

REPO = '/repo'
if '--repo' in sys.argv:
    REPO = sys.argv[sys.argv.index('--repo') + 1]
DIRS = ('manifests', 'patches', 'drm', 'events', 'segment')
PREFIXES = ('cenc', 'mspr', 'mas', 'clearkey', 'scte35', 'xlink', 'xsi', 'dvb', 'xs', 'mpd')
LOOP_ITEMS = [2]


class Stub(jinja2.Undefined):
    """stands for any value: prints as `v`, has every attribute and item, can be called, compared, counted, iterated"""
    __slots__ = ()

    def __getattr__(self, name):
        if name.startswith('__') and name.endswith('__'):
            raise AttributeError(name)
        return Stub()

    def __getitem__(self, key):
        return Stub()

    def __call__(self, *a, **k):
        return Stub()

    def __str__(self):
        return 'v'

    def __html__(self):
        return 'v'

    def __iter__(self):
        return iter([Stub() for _ in range(LOOP_ITEMS[0])])

    def __len__(self):
        return LOOP_ITEMS[0]

    def __bool__(self):
        return True

    def __eq__(self, other):
        return True

    def __ne__(self, other):
        return False

    def __hash__(self):
        return 1

    def _num(self, *a):
        return Stub()
    __add__ = __radd__ = __sub__ = __rsub__ = __mul__ = __rmul__ = __truediv__ = __rtruediv__ = __floordiv__ = \
        __rfloordiv__ = __mod__ = __rmod__ = __neg__ = __pos__ = __pow__ = _num

    def __lt__(self, other):
        return True
    __le__ = __gt__ = __ge__ = __lt__

    def __int__(self):
        return 1

    def __float__(self):
        return 1.0


def if_tests(tree):
    out = []

    def walk(n):
        # tests on the loop variable (loop.first / loop.last open and close an element around the iterations) are tied to the
        # iteration itself: they are evaluated for real, not forced
        if isinstance(n, nodes.If) and not any(isinstance(x, nodes.Name) and x.name == 'loop' for x in n.test.find_all(nodes.Name)) \
                and not (isinstance(n.test, nodes.Name) and n.test.name == 'loop'):
            out.append(n)
        for c in n.iter_child_nodes():
            walk(c)
    walk(tree)
    return out


def render(env, source, name, decide):
    tree = env.parse(source, name, name)
    for k, n in enumerate(if_tests(tree)):
        n.test = nodes.Const(decide(k), lineno=n.lineno)
    for inc in list(tree.find_all(nodes.Include)):
        inc_out = nodes.Output([nodes.TemplateData('<included/>')], lineno=inc.lineno)
        replace(tree, inc, inc_out)
    for f in tree.find_all(nodes.Filter):
        # sortedAttributes yields ready-made ` name="value"` pairs (or nothing): nothing here
        env.filters.setdefault(f.name, (lambda *a, **k: '') if f.name == 'sortedAttributes' else (lambda *a, **k: 'v'))
    for t in tree.find_all(nodes.Test):
        env.tests.setdefault(t.name, lambda *a, **k: True)
    code = env.compile(tree, name, name)
    tpl = jinja2.Template.from_code(env, code, env.globals)
    return tpl.render()


def replace(tree, old, new):
    for parent in tree.find_all(nodes.Node):
        for field, value in parent.iter_fields():
            if isinstance(value, list) and old in value:
                value[value.index(old)] = new
                return
            if value is old:
                setattr(parent, field, new)
                return
    for field, value in tree.iter_fields():
        if isinstance(value, list) and old in value:
            value[value.index(old)] = new
            return


def well_formed(text):
    body = text.strip()
    if body.startswith('<?xml'):
        body = body[body.index('?>') + 2:]
    decl = ' '.join(f'xmlns:{p}="urn:x:{p}"' for p in PREFIXES)
    try:
        ET.fromstring(f'<root {decl}>{body}</root>')
        return None
    except ET.ParseError as err:
        return str(err)


def main():
    tier = sys.argv[1] if len(sys.argv) > 1 else 'quick'
    cases, fails, files = 0, [], 0
    for d in DIRS:
        base = os.path.join(REPO, 'templates', d)
        if not os.path.isdir(base):
            continue
        for fn in sorted(os.listdir(base)):
            if not fn.endswith(('.mpd', '.xml')):
                continue
            files += 1
            source = open(os.path.join(base, fn), encoding='utf-8').read()
            name = f'{d}/{fn}'
            # flask's environment: jinja defaults (no trim_blocks / lstrip_blocks); autoescape is irrelevant for the text `v`
            env = jinja2.Environment(undefined=Stub, autoescape=False)
            env.globals.update(url_for=lambda *a, **k: 'v')
            n = len(if_tests(env.parse(source)))
            plans = [('all tests true', lambda k: True), ('all tests false', lambda k: False)]
            for i in range(n):
                plans.append((f'test {i} false, others true', lambda k, i=i: k != i))
                plans.append((f'test {i} true, others false', lambda k, i=i: k == i))
            for items in (2, 1):
                LOOP_ITEMS[0] = items
                for what, decide in plans:
                    cases += 1
                    try:
                        text = render(env, source, name, decide)
                    except Exception as err:      # noqa: a template the stub cannot drive is reported, not skipped
                        fails.append({'template': name, 'plan': what, 'loop_items': items, 'render_error': repr(err)[:200]})
                        continue
                    err = well_formed(text)
                    if err:
                        line = None
                        tests = if_tests(env.parse(source))
                        if what.startswith('test '):
                            line = tests[int(what.split()[1])].lineno
                        fails.append({'template': name, 'plan': what, 'loop_items': items, 'if_at_line': line, 'xml_error': err,
                                      'output_excerpt': excerpt(text, err)})
    # one example per template is enough in the report
    seen, examples = set(), []
    for f in fails:
        if f['template'] not in seen:
            seen.add(f['template'])
            examples.append(f)
    print(json.dumps([{'name': 'template_structure',
                       'bound': f'{files} templates, each under all-true / all-false / every single flipped test, loops of 2 and 1 '
                                f'items, values = "v", includes replaced by an empty element ({cases} renders)',
                       'cases': cases, 'failures': len(fails), 'examples': examples[:4]}]))


def excerpt(text, err):
    try:
        line = int(err.split('line ')[1].split(',')[0])
        lines = ('<root>' + text.strip()).split('\n')
        return lines[max(0, line - 1)][:160] if line - 1 < len(lines) else ''
    except Exception:
        return ''


if __name__ == '__main__':
    main()
