"""Native side of the replay protocol (runs under /venv/bin/python, never imports z3).

stdin : JSON list of requests
        {group, key, variant, inputs, requires:[[label,text]], ensures:[[label,text]],
         raises:{exc: text|null}, post_on_raise:{exc:[[label,text]]}, native_ghost:{name:text},
         native_override:{label:text}}
stdout: JSON list of responses
        {status: violated|holds|precondition_false|build_error, violated:[labels], observed, exception}

The real function is called with concrete arguments built by the group's `<group>_native.build`;
the contract clauses - the same Python expression texts the verifier proved - are evaluated
with `eval` over the concrete result.
"""
import ast
import copy
import importlib
import json
import os
import signal
import sys
import traceback

HERE = os.path.dirname(os.path.abspath(__file__))
sys.path.insert(0, os.path.dirname(HERE))
sys.path.insert(0, os.path.join(HERE, 'stubs'))
REPO = os.environ.get('PYVC_REPO', '/repo')
sys.path.insert(0, REPO)


class _Timeout(BaseException):
    pass


def _on_alarm(signum, frame):
    raise _Timeout()


class _OldLift(ast.NodeTransformer):
    def __init__(self, old_env):
        self.old_env, self.bound = old_env, {}

    def visit_Call(self, node):
        if isinstance(node.func, ast.Name) and node.func.id == 'old':
            v = eval(compile(ast.Expression(node.args[0]), '<old>', 'eval'), dict(self.old_env))
            name = f'__old_{len(self.bound)}'
            self.bound[name] = v
            return ast.copy_location(ast.Name(name, ast.Load()), node)
        return self.generic_visit(node)


def base_env(env):
    unb = env.get('__unbounded_hi__', 10000)

    import itertools

    def points(f, lo, hi):
        n = f.__code__.co_argcount
        top = (unb if n == 1 else min(unb, 48)) if hi is None else hi     # "no upper bound": a builder-chosen horizon
        r = range(lo, top)
        return ((j,) for j in r) if n == 1 else itertools.product(r, repeat=n)

    def forall(f, lo, hi):
        return all(f(*p) for p in points(f, lo, hi))

    def exists(f, lo, hi):
        return any(f(*p) for p in points(f, lo, hi))
    e = {'forall': forall, 'exists': exists, 'implies': lambda a, b: (not a) or b,
         'length': len, 'is_none': lambda x: x is None}
    e.update(env)
    return e


def clause(text, env, old_env):
    tree = ast.parse(text.strip(), mode='eval')
    lift = _OldLift(base_env(old_env))
    tree = ast.fix_missing_locations(lift.visit(tree))
    e = base_env(env)
    e.update(lift.bound)
    return bool(eval(compile(tree, '<clause>', 'eval'), e))


def run(req):
    mod = importlib.import_module(f"contracts.{req['group']}_native")
    if req.get('search'):
        # no counter-model replayed: the group's native module may look for a failing scenario near the model
        # (refutation aid only; e.g. short operation sequences for a stateful class)
        if not hasattr(mod, 'search'):
            return {'status': 'holds', 'violated': [], 'observed': 'no search available'}
        found = mod.search(req['key'], req.get('variant', ''), req['inputs'])
        if found:
            return {'status': 'violated', 'violated': ['search'], 'observed': str(found)[:1500], 'exception': None,
                    'clause_errors': {}, 'scenario': found}
        return {'status': 'holds', 'violated': [], 'observed': 'search found nothing'}
    if req.get('finding'):
        # a recorded finding that is a composition of functions: the group's native module replays it
        still, observed = getattr(mod, req['finding'])(req['inputs'])
        return {'status': 'violated' if still else 'holds', 'violated': ['finding'] if still else [],
                'observed': str(observed)[:500], 'exception': None, 'clause_errors': {}}
    try:
        case = mod.build(req['key'], req.get('variant', ''), req['inputs'])
    except Exception as err:
        return {'status': 'build_error', 'error': repr(err), 'trace': traceback.format_exc()[-1500:]}
    env = case['env']
    old_env = case.get('old_env')
    if old_env is None:
        old_env = copy.deepcopy({k: v for k, v in env.items() if not callable(v)})
        for k, v in env.items():
            old_env.setdefault(k, v)
    for label, text in req.get('requires', []):
        try:
            if not clause(text, env, old_env):
                return {'status': 'precondition_false', 'label': label}
        except Exception as err:
            return {'status': 'precondition_false', 'label': label, 'error': repr(err)}
    exc = None
    result = None
    signal.signal(signal.SIGALRM, _on_alarm)
    signal.alarm(int(os.environ.get('PYVC_NATIVE_TIMEOUT', '10')))
    try:
        result = case['call']()
    except _Timeout:
        # the real function did not return: for a contract with a termination obligation this is the violation
        return {'status': 'violated', 'violated': ['termination.timeout'], 'exception': None, 'clause_errors': {},
                'observed': 'no result within %s s (runs without bound?)' % os.environ.get('PYVC_NATIVE_TIMEOUT', '10')}
    except Exception as err:        # noqa: the exception *is* the observation
        exc = type(err).__name__
        exc_text = repr(err)[:300]
    finally:
        signal.alarm(0)
    violated, errors = [], {}
    over = req.get('native_override', {})
    if exc is None:
        if hasattr(mod, 'adapt'):
            result = mod.adapt(req['key'], result, env)
        env2 = dict(env)
        env2['result'] = result
        if 'post_env' in case:
            env2.update(case['post_env']())
        for g, text in req.get('native_ghost', {}).items():
            env2[g] = eval(text, base_env(env2))
        for ename, cond in req.get('raises', {}).items():
            if cond is not None:
                try:
                    if clause(cond, old_env, old_env):
                        violated.append(f'raises.{ename}.only_if')
                except Exception as err:
                    errors[f'raises.{ename}'] = repr(err)
        for ename, (must, may) in req.get('raises_bounds', {}).items():
            try:
                if clause(must, old_env, old_env):
                    violated.append(f'raises.{ename}.must')
            except Exception as err:
                errors[f'raises.{ename}.must'] = repr(err)
        for label, text in req.get('ensures', []):
            text = over.get(label, text)
            try:
                if not clause(text, env2, old_env):
                    violated.append(f'post.{label}')
            except (KeyError, IndexError, AttributeError) as err:
                # the real result does not have the shape the clause describes (a missing key, item or field): as in the
                # verifier, a postcondition that cannot be evaluated on the result is a violated one
                violated.append(f'post.{label}')
                errors[label] = 'not evaluable on the real result: ' + repr(err)
            except Exception as err:
                errors[label] = repr(err)
        observed = repr(result)[:2000]
    else:
        observed = f'raised {exc}: {exc_text}'
        raises = req.get('raises', {})
        bounds = req.get('raises_bounds', {})
        if exc in bounds:
            try:
                if not clause(bounds[exc][1], old_env, old_env):
                    violated.append(f'raises.{exc}.may')
            except Exception as err:
                errors[f'raises.{exc}.may'] = repr(err)
        elif exc not in raises:
            violated.append(f'safety.raise.{exc}')
        else:
            cond = raises[exc]
            if cond is not None:
                try:
                    if not clause(cond, old_env, old_env):
                        violated.append(f'raises.{exc}.if')
                except Exception as err:
                    errors[f'raises.{exc}'] = repr(err)
            for label, text in req.get('post_on_raise', {}).get(exc, []):
                try:
                    if not clause(text, env, old_env):
                        violated.append(f'post_on_raise.{exc}.{label}')
                except Exception as err:
                    errors[label] = repr(err)
    status = 'violated' if violated else ('clause_error' if errors else 'holds')   # a clause that could not be
    return {'status': status, 'violated': violated, 'observed': observed,          # evaluated is never "holds"
            'exception': exc, 'clause_errors': errors}


def main():
    reqs = json.load(sys.stdin)
    out = []
    for r in reqs:
        try:
            out.append(run(r))
        except Exception as err:
            out.append({'status': 'build_error', 'error': repr(err), 'trace': traceback.format_exc()[-1500:]})
    json.dump(out, sys.stdout)


if __name__ == '__main__':
    main()
