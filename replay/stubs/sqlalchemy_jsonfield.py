"""Test double for the uninstalled `sqlalchemy_jsonfield` package: just enough for `dashlive.server.models` /
`dashlive.drm.playready` to import under the replay harness (never used by the verifier itself)."""
import json

from sqlalchemy.types import Text, TypeDecorator


class JSONField(TypeDecorator):
    impl = Text
    cache_ok = True

    def __init__(self, *args, **kwargs):
        super().__init__()

    def process_bind_param(self, value, dialect):
        return None if value is None else json.dumps(value)

    def process_result_value(self, value, dialect):
        return None if value is None else json.loads(value)
